"""C08 harness.
(a) correspondence: `_Rotation_matrix` vs the generated matrix; flux / closure of the 2D boundary normals vs the
    model of the formula `n dS = z x t` on the contour traversed as the boundary elements are;
(b) the property on the real code: measures and centres of polygon / extruded meshes against shoelace formulas,
    invariance under Mesh.Rotate / Symmetry / Translate (independent Rodrigues / Householder), every element
    group moved, normals unit / closing / transforming as det(Q) Q n, outwardness (known findings), point location
    and evaluation of polynomial fields (interior, edge, node points; single and batch; straight-sided, affinely
    distorted, general quadrangles / hexahedra / prisms; mirrored meshes)."""

from __future__ import annotations

import itertools
import warnings
from fractions import Fraction

import numpy as np

from tools.harness._common import Driver, Result, frac_str, parse_args, parse_frac, rng_for
from tools.harness import _meshes as M
from tools.harness.C10 import rodrigues, reflection

from EasyFEA.Geoms import _utils as G

ORDER = {"SEG2": 1, "SEG3": 2, "SEG4": 3, "SEG5": 4, "TRI3": 1, "TRI6": 2, "TRI10": 3, "TRI15": 4, "QUAD4": 1, "QUAD8": 2, "QUAD9": 2,
         "TETRA4": 1, "TETRA10": 2, "HEXA8": 1, "HEXA20": 2, "HEXA27": 2, "PRISM6": 1, "PRISM15": 2, "PRISM18": 2}
POLYGONS = [[(0, 0), (3, 0), (3.5, 2), (1.5, 3), (-0.5, 1.5)], [(0, 0), (2, 0), (2, 1), (1, 1), (1, 2), (0, 2)], [(0, 0), (3, 0.25), (3.5, 2), (-0.25, 1.5)]]


def fs(x):
    return frac_str(Fraction(float(x)))


def shoelace(poly):
    P = np.array(poly, float)
    x, y = P[:, 0], P[:, 1]
    xn, yn = np.roll(x, -1), np.roll(y, -1)
    cr = x * yn - xn * y
    A = cr.sum() / 2
    cx, cy = ((x + xn) * cr).sum() / (6 * A), ((y + yn) * cr).sum() / (6 * A)
    return A, np.array([cx, cy, 0.0])


class Poly:
    def __init__(self, rng, deg, dim):
        self.terms = [(rng.randint(-3, 3), i, j, k) for i, j, k in itertools.product(range(deg + 1), repeat=3)
                      if not (i + j + k > deg) and (dim == 3 or k == 0) and (dim >= 2 or j == 0)]

    def __call__(self, X):
        return sum(c * X[:, 0] ** i * X[:, 1] ** j * X[:, 2] ** k for c, i, j, k in self.terms)


def boundary_integrals(mesh):
    """Σ ∫ n dS and Σ ∫ x·n dS over the boundary groups, with the code's normals"""
    tot, fl = np.zeros(3), 0.0
    for g in mesh.Get_list_groupElem(mesh.dim - 1):
        n = np.asarray(g.Get_normals_e_pg("mass"))
        wJ = np.asarray(g.Get_weightedJacobian_e_pg("mass"))
        xg = np.asarray(g.Get_GaussCoordinates_e_pg("mass"))
        tot += np.einsum("ep,epd->d", wJ, n)
        fl += np.einsum("ep,epd,epd->", wJ, n, xg)
    return tot, fl


def contour_chain(mesh):
    """vertices of the 2D boundary in the order the boundary segments traverse them"""
    nxt = {}
    for g in mesh.Get_list_groupElem(1):
        for c in g.connect:
            nxt[int(c[0])] = int(c[1])
    start = next(iter(nxt))
    chain, cur = [start], nxt[start]
    while cur != start and len(chain) <= len(nxt):
        chain.append(cur)
        cur = nxt.get(cur)
        if cur is None:
            return None
    return chain if len(chain) == len(nxt) else None


def sample_points(mesh, g, rng, nmax):
    """interior points, vertices and edge midpoints of a few elements (physical coordinates via the element's own map)"""
    pts, kinds = [], []
    N = g._N()
    ref = g.Get_Local_Coords()
    for e in rng.sample(range(g.Ne), min(g.Ne, nmax)):
        Xe = mesh.coord[g.connect[e]]
        nv = g.Nvertex
        w = np.array([rng.random() + 0.05 for _ in range(nv)])
        w /= w.sum()
        xi = w @ ref[:nv]                     # a point of the reference element (convex combination of its vertices)
        shape = np.array([N[i, 0](*xi) for i in range(g.nPe)])
        pts.append(shape @ Xe); kinds.append("interior")
        pts.append(Xe[0]); kinds.append("node")
        xi2 = (ref[0] + ref[1]) / 2
        shape2 = np.array([N[i, 0](*xi2) for i in range(g.nPe)])
        pts.append(shape2 @ Xe); kinds.append("edge")
    return np.array(pts), kinds


def diagnose(mesh, pts, vals, want, tol):
    """True if searching all elements (instead of those around the nearest node) gives the right values"""
    try:
        g = mesh.Get_list_groupElem(mesh.dim)[0]
        allv = np.array([np.asarray(mesh.Evaluate_dofsValues_at_coordinates(pts[i:i + 1], vals, elements=np.arange(g.Ne))).ravel()[0] for i in range(len(pts))])
        return bool((np.abs(allv - want) / (1 + np.abs(want).max())).max() <= tol)
    except Exception:  # noqa: BLE001
        return False


def main():
    args = parse_args()
    rng = rng_for(args)
    res = Result(args)
    driver = Driver("C08")
    warnings.filterwarnings("ignore")
    thorough = args.tier == "thorough"
    lines, expect = [], []

    # ---------------- (a) rotation matrix ----------------
    for _ in range(5 if not thorough else 20):
        d = np.array([rng.randint(-3, 3), rng.randint(-3, 3), rng.randint(1, 3)], float)
        th = rng.random() * 6
        R = np.asarray(G._Rotation_matrix(d, th))
        k = d / np.linalg.norm(d)
        lines.append("rot " + " ".join(fs(v) for v in (k[0], k[1], k[2], np.cos(th), np.sin(th))))
        expect.append(("rot", R))
        res.case(("rotmat", tuple(d), round(th, 3)))
        if not (np.abs(R @ R.T - np.eye(3)).max() <= 1e-13) or not (abs(np.linalg.det(R) - 1) <= 1e-13) or not (np.abs(R - rodrigues(d, th)).max() <= 1e-13):
            res.fail("rotation matrix", "_Rotation_matrix is not the rotation about the axis by the angle", dict(axis=d.tolist(), theta=th))

    def moves(dim):
        c = (rng.randint(-4, 4) / 4, rng.randint(-4, 4) / 4, rng.randint(-4, 4) / 4 if dim == 3 else 0.0)
        th = rng.choice([23.0, 67.5, 141.0, 250.0])
        ax = (0, 0, 1) if dim == 2 else (rng.randint(1, 3), rng.randint(-3, 3), rng.randint(-3, 3))
        n = (rng.randint(1, 3), rng.randint(-3, 3), 0) if dim == 2 else (rng.randint(1, 3), rng.randint(-3, 3), rng.randint(-3, 3))
        t = (1.25, -0.5, 0.75 if dim == 3 else 0.0)
        return [("none", np.eye(3), lambda m: None, lambda X: X),
                ("rotation", rodrigues(ax, np.deg2rad(th)), lambda m: m.Rotate(th, c, ax), lambda X: (X - c) @ rodrigues(ax, np.deg2rad(th)).T + c),
                ("reflection", reflection(n), lambda m: m.Symmetry(c, n), lambda X: (X - c) @ reflection(n).T + c),
                ("translation", np.eye(3), lambda m: m.Translate(*t), lambda X: X + np.array(t))]

    # ---------------- (b) 2D meshes: polygons ----------------
    types2 = M.ALL_2D if thorough else ["TRI3", "TRI6", "TRI10", "QUAD4", "QUAD8", "QUAD9"]
    for k, et in enumerate(types2):
        poly = POLYGONS[k % len(POLYGONS)]
        A0, c0 = shoelace(poly)
        for (mk, Q, mover, pmap) in moves(2):
            mesh = M.mesh_2d(et, polygon=poly, h=1.2)
            X0 = mesh.coord.copy()
            base_normals = {id_: np.asarray(g.Get_normals_e_pg("mass")).copy() for id_, g in enumerate(mesh.Get_list_groupElem(1))}
            try:
                # a point is located BEFORE the mesh is moved: whatever the search structures keep must follow the move
                mesh.Evaluate_dofsValues_at_coordinates(X0[mesh.Get_list_groupElem(2)[0].connect[0]].mean(0)[None, :], X0[:, 0].copy())
            except Exception:  # noqa: BLE001
                pass
            mover(mesh)
            ident = dict(elemType=et, polygon=poly, move=mk)
            res.case((et, mk, "measure"))
            res.count(f"move:{mk}")
            res.count(f"elem:{et}")
            if not (np.abs(mesh.coord - pmap(X0)).max() <= 1e-10):
                res.fail(f"mesh mover {mk}", f"nodes moved by up to {np.abs(mesh.coord - pmap(X0)).max():.2e} away from the transformation", ident)
                continue
            stale = [str(g.elemType) for g in mesh.dict_groupElem.values() if not (np.abs(np.asarray(g.coord) - mesh.coord[g.nodes] if hasattr(g, "nodes") and len(g.coord) != mesh.Nn else np.asarray(g.coord) - mesh.coord).max() <= 1e-10)]
            if stale:
                res.fail(f"element group not moved {mk}", f"groups {stale} keep the old coordinates after the mesh was moved", ident)
            if not (abs(mesh.area - abs(A0)) <= 1e-9 * abs(A0)):
                res.fail(f"area elem={et} move={mk}", f"mesh.area = {mesh.area}, exact polygon area = {abs(A0)}", ident)
            want_c = pmap(c0[None, :])[0]
            if not (np.abs(np.asarray(mesh.center) - want_c).max() <= 1e-9):
                res.fail(f"center elem={et} move={mk}", f"mesh.center = {np.asarray(mesh.center).tolist()}, exact centroid = {want_c.tolist()}", ident)
            # normals
            tot, fl = boundary_integrals(mesh)
            bad_unit = any(np.abs(np.linalg.norm(np.asarray(g.Get_normals_e_pg("mass")), axis=-1) - 1).max() > 1e-12 for g in mesh.Get_list_groupElem(1))
            res.case((et, mk, "normals"))
            if bad_unit:
                res.fail("normals not unit dim=2", "boundary normals are not unit vectors", ident)
            if not (np.abs(tot).max() <= 1e-9):
                res.fail("normals not closed dim=2", f"Σ ∫ n dS = {tot.tolist()} over the whole boundary", ident)
            if not (abs(abs(fl) - 2 * abs(A0)) <= 1e-9 * abs(A0)):
                res.fail("normal flux magnitude dim=2", f"|Σ ∫ x·n dS| = {abs(fl)} but 2 × area = {2 * abs(A0)}", ident)
            elif fl < 0:
                res.fail("normals not outward dim=2", f"flux of the position vector through the boundary = {fl} = -2 x area: the boundary normals point inward (move: {mk})", ident)
            detQ = np.linalg.det(Q)
            for id_, g in enumerate(mesh.Get_list_groupElem(1)):
                n1 = np.asarray(g.Get_normals_e_pg("mass"))
                if not (np.abs(n1 - detQ * base_normals[id_] @ Q.T).max() <= 1e-10):
                    res.fail(f"normals do not follow the move {mk} dim=2", "n' != det(Q) Q n on the moved mesh", ident)
                    break
            if mk in ("none", "reflection"):
                chain = contour_chain(mesh)
                if chain is not None:
                    P = mesh.coord[chain][:, :2]
                    lines.append("flux " + " ".join(fs(v) for v in P.ravel()))
                    expect.append(("flux", (fl, tot[:2].copy(), dict(ident))))
            # point location
            g = mesh.Get_list_groupElem(2)[0]
            straight = True
            deg = ORDER[et]
            general_quad = et in M.QUAD       # quadrangles of a polygon mesh are not parallelograms
            if general_quad:
                deg = 1
            p = Poly(rng, deg, 2)
            vals = p(mesh.coord)
            pts, kinds = sample_points(mesh, g, rng, 4 if not thorough else 8)
            tol = 1e-9 if not general_quad else 1e-6
            try:
                got = np.asarray(mesh.Evaluate_dofsValues_at_coordinates(pts, vals)).ravel()
                one = np.array([np.asarray(mesh.Evaluate_dofsValues_at_coordinates(pts[i:i + 1], vals)).ravel()[0] for i in range(len(pts))])
            except Exception as ex:  # noqa: BLE001
                res.fail(f"point location raises elem={et}", f"{type(ex).__name__}: {str(ex)[:150]}", dict(ident, points=len(pts)))
                continue
            want = p(pts)
            if len(mesh.Get_list_groupElem(2)) == 1:
                # the optional `elements` argument (elements that may contain the points) in any listing order
                for oname, els in (("reversed", np.arange(g.Ne)[::-1]), ("shuffled", np.array(rng.sample(range(g.Ne), g.Ne))), ("listed twice", np.r_[np.arange(g.Ne), np.arange(g.Ne)])):
                    res.case((et, mk, "location", "elements " + oname))
                    try:
                        gote = np.asarray(mesh.Evaluate_dofsValues_at_coordinates(pts, vals, elements=els)).ravel()
                    except Exception as ex:  # noqa: BLE001
                        res.fail(f"point location raises with elements={oname}", f"{type(ex).__name__}: {str(ex)[:150]}", dict(ident, elements=oname))
                        continue
                    erre = np.abs(gote - want) / (1 + np.abs(want).max())
                    if not (erre.max() <= tol):
                        i = int(erre.argmax())
                        res.fail(f"point evaluation with the elements argument listed {oname}", f"degree-{deg} field evaluated at a located {kinds[i]} point with elements={oname} differs by {erre.max():.2e} (relative); the default search is right",
                                 dict(ident, degree=deg, elements=oname, point=pts[i].tolist()))
                        break
            res.case((et, mk, "location"))
            for nm, arr in (("batch", got), ("single", one)):
                err = np.abs(arr - want) / (1 + np.abs(want).max())
                if not (err.max() <= tol):
                    i = int(err.argmax())
                    if diagnose(mesh, pts, vals, want, tol):
                        res.fail("point location: element not adjacent to the nearest node", f"the point {pts[i].tolist()} lies in an element that does not touch its nearest node: Evaluate_dofsValues_at_coordinates returns {arr[i]} instead of {want[i]} ({nm} query; correct when all elements are searched)", dict(ident, degree=deg, point=pts[i].tolist()))
                    else:
                        res.fail(f"point evaluation elem={et} {nm} point={kinds[i]}", f"degree-{deg} field evaluated at a located {kinds[i]} point differs by {err.max():.2e} (relative)", dict(ident, degree=deg, general_quadrangle=general_quad, point=pts[i].tolist()))
                    break

    # ---------------- (b) 3D meshes: extruded boxes, also non-affine ----------------
    types3 = M.ALL_3D if thorough else ["TETRA4", "TETRA10", "HEXA8", "HEXA20", "PRISM6", "PRISM15"]
    for k, et in enumerate(types3):
        for (mk, Q, mover, pmap) in moves(3):
            for shape in (["box", "tapered"] if mk in ("none", "reflection") else ["box"]):
                mesh = M.mesh_3d(et, 2.0, 1.0, 1.5, 1.0, 2)
                vol0, c0 = 3.0, np.array([1.0, 0.5, 0.75])
                if shape == "tapered":
                    X = mesh.coord.copy()
                    f = 1 + 0.2 * X[:, 2]
                    X[:, 0] *= f
                    X[:, 1] *= f
                    mesh.coord = X
                    vol0 = 2.0 * (1.5 + 0.2 * 1.5**2 + 0.04 * 1.5**3 / 3)   # ∫ 2 (1 + 0.2 z)^2 dz
                    c0 = None
                X0 = mesh.coord.copy()
                base_normals = [np.asarray(g.Get_normals_e_pg("mass")).copy() for g in mesh.Get_list_groupElem(2)]
                try:
                    mesh.Evaluate_dofsValues_at_coordinates(X0[mesh.Get_list_groupElem(3)[0].connect[0]].mean(0)[None, :], X0[:, 0].copy())
                except Exception:  # noqa: BLE001
                    pass
                mover(mesh)
                ident = dict(elemType=et, shape=shape, move=mk)
                res.case((et, mk, shape, "measure"))
                res.count(f"move:{mk}")
                res.count(f"elem:{et}")
                if not (np.abs(mesh.coord - pmap(X0)).max() <= 1e-10):
                    res.fail(f"mesh mover {mk}", f"nodes moved by up to {np.abs(mesh.coord - pmap(X0)).max():.2e} away from the transformation", ident)
                    continue
                curved_ok = shape == "box" or et in M.TETRA   # a tapered hexahedron / prism is not polynomially exact at low order: compare loosely
                tolv = 1e-9 if curved_ok else 2e-2
                if not (abs(mesh.volume - vol0) <= tolv * vol0):
                    res.fail(f"volume elem={et} move={mk}", f"mesh.volume = {mesh.volume}, exact = {vol0}", ident)
                if c0 is not None and not (np.abs(np.asarray(mesh.center) - pmap(c0[None, :])[0]).max() <= 1e-9):
                    res.fail(f"center elem={et} move={mk}", f"mesh.center = {np.asarray(mesh.center).tolist()}", ident)
                if shape == "box":
                    tot, fl = boundary_integrals(mesh)
                    res.case((et, mk, "normals"))
                    detQ = np.linalg.det(Q)
                    ok_follow = all(np.abs(np.asarray(g.Get_normals_e_pg("mass")) - detQ * b @ Q.T).max() < 1e-10 for g, b in zip(mesh.Get_list_groupElem(2), base_normals))
                    if not ok_follow:
                        res.fail(f"normals do not follow the move {mk} dim=3", "n' != det(Q) Q n on the moved mesh", ident)
                    if not (np.abs(tot).max() <= 1e-9):
                        res.fail("normals not closed dim=3", f"Σ ∫ n dS = {np.round(tot, 6).tolist()} over the whole boundary of an extruded box", ident)
                    elif not (abs(fl - 3 * vol0) <= 1e-9 * vol0):
                        res.fail("normals not outward dim=3", f"flux of the position vector = {fl}, expected 3 x volume = {3 * vol0}", ident)
                # point location
                g = mesh.Get_list_groupElem(3)[0]
                deg = ORDER[et] if shape == "box" or et in M.TETRA else 1
                if shape == "tapered" and et in M.TETRA:
                    deg = 1
                p = Poly(rng, deg, 3)
                vals = p(mesh.coord)
                pts, kinds = sample_points(mesh, g, rng, 3 if not thorough else 6)
                tol = 1e-9 if shape == "box" else 1e-6
                try:
                    got = np.asarray(mesh.Evaluate_dofsValues_at_coordinates(pts, vals)).ravel()
                    one = np.array([np.asarray(mesh.Evaluate_dofsValues_at_coordinates(pts[i:i + 1], vals)).ravel()[0] for i in range(len(pts))])
                except Exception as ex:  # noqa: BLE001
                    res.fail(f"point location raises elem={et}", f"{type(ex).__name__}: {str(ex)[:150]}", dict(ident, points=len(pts)))
                    continue
                want = p(pts)
                res.case((et, mk, shape, "location"))
                for nm, arr in (("batch", got), ("single", one)):
                    err = np.abs(arr - want) / (1 + np.abs(want).max())
                    if not (err.max() <= tol):
                        i = int(err.argmax())
                        if diagnose(mesh, pts, vals, want, tol):
                            res.fail("point location: element not adjacent to the nearest node", f"the point {pts[i].tolist()} lies in an element that does not touch its nearest node: Evaluate_dofsValues_at_coordinates returns {arr[i]} instead of {want[i]} ({nm} query; correct when all elements are searched)", dict(ident, degree=deg, point=pts[i].tolist()))
                        else:
                            res.fail(f"point evaluation elem={et} {nm} point={kinds[i]}", f"degree-{deg} field evaluated at a located {kinds[i]} point differs by {err.max():.2e} (relative)", dict(ident, degree=deg, point=pts[i].tolist()))
                        break

    # ---------------- locate, move, locate again on the same (fine) mesh ----------------
    for et in (["TRI3", "QUAD4", "TETRA4"] if not thorough else ["TRI3", "TRI6", "QUAD4", "TETRA4", "HEXA8"]):
        dim_ = M.dim_of(et)
        meshf = M.mesh_2d(et, 2.0, 1.0, 0.15) if dim_ == 2 else M.mesh_3d(et, 2.0, 1.0, 1.5, 0.3, 5)
        gf = meshf.Get_list_groupElem(dim_)[0]
        pf = Poly(rng, 1, dim_)
        cells = rng.sample(range(gf.Ne), min(gf.Ne, 40))

        def centroids():
            return np.array([meshf.coord[gf.connect[e]][:gf.Nvertex].mean(0) for e in cells])
        steps = [("before any motion", lambda: None), ("after Rotate", lambda: meshf.Rotate(73.0, (0.3, -0.2, 0.1 if dim_ == 3 else 0.0), (0, 0, 1) if dim_ == 2 else (1, 2, 3))),
                 ("after Rotate + Translate", lambda: meshf.Translate(1.5, -0.75, 0.5 if dim_ == 3 else 0.0)), ("after Rotate + Translate + Symmetry", lambda: meshf.Symmetry((0.1, 0.2, 0.0), (1, 0.5, 0.25 if dim_ == 3 else 0.0)))]
        for sname, act in steps:
            act()
            ptsf = centroids()
            valsf = pf(meshf.coord)
            res.case((et, "locate-move-locate", sname))
            res.count("locate-move-locate")
            try:
                gotf = np.asarray(meshf.Evaluate_dofsValues_at_coordinates(ptsf, valsf)).ravel()
            except Exception as ex:  # noqa: BLE001
                res.fail(f"point location raises {sname} elem={et}", f"{type(ex).__name__}: {str(ex)[:150]}", dict(elemType=et, step=sname))
                break
            errf = np.abs(gotf - pf(ptsf)).max() / (1 + np.abs(pf(ptsf)).max())
            if not (errf <= 1e-6):
                res.fail(f"point evaluation on a mesh moved after an earlier point location elem={et}", f"{sname}: a linear field evaluated at {len(ptsf)} element centroids differs by {errf:.2e} (relative); a point had been located on this mesh before it was moved",
                         dict(elemType=et, step=sname, Ne=int(gf.Ne)))
                break

    # ---------------- boundary rebuilt from the `faces` tables (MeshIO.Surface_reconstruction) ----------------
    from EasyFEA import MeshIO
    # prisms also on a transfinite (organised) base mesh: other local faces of the prisms end up on the boundary
    for et, org in [(t, None) for t in M.ALL_3D] + [(t, True) for t in M.ALL_3D if t.startswith("PRISM")]:
        for (mk, Q, mover, pmap) in moves(3):
            if mk == "translation" and not thorough:
                continue
            mesh = MeshIO.Surface_reconstruction(M.mesh_3d(et, 2.0, 1.0, 1.5, 1.0, 2, organised=org))
            mover(mesh)
            ident = dict(elemType=et, boundary="Surface_reconstruction", move=mk, organised=bool(org))
            res.case((et, mk, org, "reconstructed boundary"))
            res.count("reconstructed-boundary")
            tot, fl = boundary_integrals(mesh)
            barea = sum(float(np.asarray(g.Get_weightedJacobian_e_pg("mass")).sum()) for g in mesh.Get_list_groupElem(2))
            if not (abs(barea - 13.0) <= 1e-9):
                res.fail(f"reconstructed boundary area elem={et}", f"area of the rebuilt boundary of the 2 x 1 x 1.5 box = {barea}, exact = 13", ident)
            elif not (np.abs(tot).max() <= 1e-9):
                res.fail(f"reconstructed boundary not closed elem={et}", f"Σ ∫ n dS = {np.round(tot, 6).tolist()} over the boundary rebuilt from the element's faces table", ident)
            elif not (abs(abs(fl) - 9.0) <= 1e-9):
                res.fail(f"reconstructed boundary flux elem={et}", f"|flux of the position vector| = {abs(fl)}, expected 3 x volume = 9", ident)
            elif fl < 0:
                res.fail(f"normals not outward dim=3 reconstructed move={mk}", f"flux of the position vector through the rebuilt boundary = {fl} = -3 x volume: the normals point inward (move: {mk})", ident)

    # ---------------- meshes holding several main element groups ----------------
    mixed = [("TRI3+QUAD4", lambda: M.mesh_mixed_2d()), ("PRISM6+HEXA8", lambda: M.mesh_mixed_3d())]
    if thorough:
        mixed += [("TRI6+QUAD8", lambda: M.mesh_mixed_2d("TRI6", "QUAD8")), ("PRISM15+HEXA20", lambda: M.mesh_mixed_3d("PRISM15", "HEXA20"))]
    for name, mk in mixed:
        dim = 2 if "TRI" in name else 3
        for (mvk, Q, mover, pmap) in moves(dim):
            mesh = mk()
            X0 = mesh.coord.copy()
            mover(mesh)
            ident = dict(mesh=name, move=mvk)
            res.case((name, mvk, "mixed"))
            res.count("mixed-groups")
            if not (np.abs(mesh.coord - pmap(X0)).max() <= 1e-10):
                res.fail(f"mesh mover {mvk}", "nodes of a multi-group mesh not moved as the transformation says", ident)
                continue
            meas, want_meas = (mesh.area, 3.0) if dim == 2 else (mesh.volume, 2.0)
            if not (abs(meas - want_meas) <= 1e-9):
                res.fail(f"measure mixed mesh {name}", f"measure {meas}, exact {want_meas}", ident)
            p = Poly(rng, 1, dim)
            vals = p(mesh.coord)
            allpts, allkinds = [], []
            for g in mesh.Get_list_groupElem(dim):
                pts, kinds = sample_points(mesh, g, rng, 3)
                allpts.append(pts)
                allkinds += kinds
            pts = np.vstack(allpts)
            try:
                got = np.asarray(mesh.Evaluate_dofsValues_at_coordinates(pts, vals)).ravel()
                one = np.array([np.asarray(mesh.Evaluate_dofsValues_at_coordinates(pts[i:i + 1], vals)).ravel()[0] for i in range(len(pts))])
            except Exception as ex:  # noqa: BLE001
                res.fail(f"point location raises mixed mesh {name}", f"{type(ex).__name__}: {str(ex)[:150]}", ident)
                continue
            want = p(pts)
            for nm, arr in (("batch", got), ("single", one)):
                err = np.abs(arr - want) / (1 + np.abs(want).max())
                if not (err.max() <= 1e-9):
                    i = int(err.argmax())
                    res.fail(f"point evaluation mixed mesh {name} {nm}", f"linear field evaluated at a located {allkinds[i]} point of a mesh with several element groups differs by {err.max():.2e} (relative)", dict(ident, point=pts[i].tolist()))
                    break

    # ---------------- a part merged with its mirror image (elements of both orientations in one group) ----------------
    from EasyFEA import Mesh as _Mesh
    halfpoly = [(0, 0), (1.25, 0.25), (1.5, 1.0), (0.75, 1.5), (0, 1.0)]
    for et in (["TRI3", "QUAD4"] if not thorough else ["TRI3", "TRI6", "QUAD4", "QUAD8"]):
        right = M.mesh_2d(et, polygon=halfpoly, h=0.8)
        left = M.mesh_2d(et, polygon=halfpoly, h=0.8)
        left.Symmetry((0, 0, 0), (1, 0, 0))
        try:
            both = _Mesh.Merge([right, left])
        except Exception as ex:  # noqa: BLE001
            res.fail("Mesh.Merge of a part and its mirror image raises", f"{type(ex).__name__}: {str(ex)[:120]}", dict(elemType=et))
            continue
        A0, _ = shoelace(halfpoly)
        res.case((et, "merged-mirror"))
        res.count("merged-mirror")
        ident = dict(elemType=et, mesh="part + mirrored part merged", polygon=halfpoly)
        if not (abs(both.area - 2 * abs(A0)) <= 1e-9):
            res.fail(f"area merged mirror elem={et}", f"area of a part merged with its mirror image = {both.area}, exact = {2 * abs(A0)}", ident)
        wj = np.concatenate([np.asarray(g.Get_weightedJacobian_e_pg("mass")).ravel() for g in both.Get_list_groupElem(2)])
        if wj.min() <= 0:
            res.fail(f"negative weighted jacobian elem={et}", f"weighted Jacobians of the merged mesh are not all positive (min {wj.min():.3e})", ident)
        if not (np.abs(np.asarray(both.center)[:2] - np.array([0.0, shoelace(halfpoly)[1][1]])).max() <= 1e-9):
            res.fail(f"center merged mirror elem={et}", f"centre {np.asarray(both.center).tolist()} is not on the mirror line at the height of the part's centroid", ident)

    # ---------------- surface embedded in 3D ----------------
    for et, general in [(e, gq) for e in (["TRI3", "QUAD4", "TRI6", "QUAD8"] if not thorough else M.ALL_2D) for gq in ([False, True] if e in M.QUAD else [False])]:
        # general: quadrangles of a polygon mesh are not parallelograms (iterative inverse map)
        mesh = M.mesh_2d(et, polygon=POLYGONS[2], h=1.2) if general else M.mesh_2d(et, 2.0, 1.0, 0.7)
        area0 = abs(shoelace(POLYGONS[2])[0]) if general else 2.0
        ax, th = (rng.randint(1, 3), rng.randint(-3, 3), rng.randint(1, 3)), 53.0
        Q = rodrigues(ax, np.deg2rad(th))
        mesh.Rotate(th, (0.25, 0.5, 0.0), ax)
        res.case((et, "embedded", general))
        ident = dict(elemType=et, embedded=True, axis=list(ax), general_quadrangles=general)
        if not (abs(mesh.area - area0) <= 1e-9):
            res.fail(f"area embedded elem={et}", f"area of the surface rotated out of its plane = {mesh.area}, expected {area0}", ident)
        n = np.asarray(mesh.Get_list_groupElem(2)[0].Get_normals_e_pg("mass"))
        if not (np.abs(np.abs(n @ Q[:, 2]) - 1).max() <= 1e-10):
            res.fail(f"normals embedded elem={et}", "the normals of the rotated plane surface are not ± Q e_z", ident)
        p = Poly(rng, 1, 3)
        vals = p(mesh.coord)
        g = mesh.Get_list_groupElem(2)[0]
        pts, kinds = sample_points(mesh, g, rng, 3)
        try:
            got = np.asarray(mesh.Evaluate_dofsValues_at_coordinates(pts, vals)).ravel()
            if not (np.abs(got - p(pts)).max() <= (1e-6 if general else 1e-9) * (1 + np.abs(p(pts)).max())):
                res.fail(f"point evaluation embedded elem={et}", f"linear field on a surface embedded in 3D differs by {np.abs(got - p(pts)).max():.2e}", ident)
        except Exception as ex:  # noqa: BLE001
            res.fail(f"point location raises embedded elem={et}", f"{type(ex).__name__}: {str(ex)[:150]}", ident)

    # ---------------- queries on a deformed configuration (displacementMatrix=...) read the mesh, they do not move it ----------------
    # Gauss coordinates / normals / nodal normals asked on the configuration x + U(x) with a non-rigid U, on every group; afterwards the
    # coordinates of every group, the measure, the closure and the flux of the position vector are those of the reference configuration
    for et in (["TRI3", "QUAD8", "PRISM6"] if not thorough else ["TRI3", "TRI6", "QUAD4", "QUAD8", "TETRA4", "HEXA8", "PRISM6"]):
        dimq = M.dim_of(et)
        meshq = M.mesh_2d(et, 2.0, 1.0, 0.7) if dimq == 2 else M.mesh_3d(et, 2.0, 1.0, 1.5, 1.0, 2)
        identq = dict(elemType=et, ops=["reference: coordinates of every group, measure, closure, flux", "Get_GaussCoordinates_e_pg / Get_normals_e_pg / Mesh.Get_normals with displacementMatrix = 0.3 x (non-rigid)", "reference again"])
        res.case((et, "deformed-configuration queries"))
        try:
            X0 = meshq.coord.copy()
            ref_groups = {g.elemType: np.asarray(g.coord, float).copy() for g in meshq.Get_list_groupElem()}
            tot0, fl0 = boundary_integrals(meshq)
            meas0 = meshq.area if dimq == 2 else meshq.volume
            U = np.zeros_like(X0)
            U[:, 0] = 0.3 * X0[:, 0] + 0.1 * X0[:, 1]
            U[:, 1] = -0.2 * X0[:, 1]
            first = {}
            for g in meshq.Get_list_groupElem():
                if g.dim == 0:
                    continue
                for mt_ in ("mass", "rigi"):
                    xg = np.asarray(g.Get_GaussCoordinates_e_pg(mt_, displacementMatrix=U))
                    xr = np.asarray(g.Get_GaussCoordinates_e_pg(mt_))
                    first[(g.elemType.name, mt_)] = float(np.abs(xg - (xr + np.stack([0.3 * xr[..., 0] + 0.1 * xr[..., 1], -0.2 * xr[..., 1], 0 * xr[..., 0]], axis=-1))).max())
                if g.dim == dimq - 1:
                    g.Get_normals_e_pg("mass", U)
            meshq.Get_normals(displacementMatrix=U)
            worst = max(first.values())
            if not (worst <= 1e-12):
                res.fail(f"Gauss coordinates on the deformed configuration elem={et}", f"Get_GaussCoordinates_e_pg(displacementMatrix=U) is not x_gauss + U(x_gauss) for the linear U (max deviation {worst:.2e}): {first}", identq)
            dev = {str(k): float(np.abs(np.asarray(g.coord, float) - ref_groups[g.elemType]).max()) for g in meshq.Get_list_groupElem() for k in [g.elemType]}
            tot1, fl1 = boundary_integrals(meshq)
            meas1 = meshq.area if dimq == 2 else meshq.volume
            if not (max(dev.values()) <= 1e-14) or not (np.abs(meshq.coord - X0).max() <= 1e-14):
                res.fail(f"a query on the deformed configuration moved the mesh elem={et}", f"coordinates of the element groups changed by {dev} (mesh.coord by {np.abs(meshq.coord - X0).max():.2e}) after queries with displacementMatrix", identq)
            elif not (abs(fl1 - fl0) <= 1e-10 * (1 + abs(fl0))) or not (np.abs(tot1 - tot0).max() <= 1e-10) or not (abs(meas1 - meas0) <= 1e-12 * meas0):
                res.fail(f"reference quantities changed after a query on the deformed configuration elem={et}", f"flux of x {fl0!r} -> {fl1!r}, closure {tot0.tolist()} -> {tot1.tolist()}, measure {meas0!r} -> {meas1!r}", identq)
        except Exception as ex:  # noqa: BLE001
            res.fail(f"deformed-configuration queries raise elem={et}", f"{type(ex).__name__}: {str(ex)[:200]}", identq)

    # ---------------- plane meshes built directly in a coordinate plane other than (x, y), bars along y or z ----------------
    # (a mesh generated in the (x, y) plane and handed over with its axes relabelled, as CAD models standing on the (x, z) plane are)
    from EasyFEA.FEM import Mesh as _MeshP
    from EasyFEA.FEM._group_elem import GroupElemFactory as _GEFP
    for et in (["TRI3", "QUAD4", "TRI6", "SEG2", "SEG3"] if not thorough else ["TRI3", "TRI6", "TRI10", "QUAD4", "QUAD8", "QUAD9", "SEG2", "SEG3", "SEG4"]):
        base = M.mesh_2d(et, 2.0, 1.0, 0.7) if M.dim_of(et) == 2 else M.mesh_1d(et, 4.0, 4)
        for plane, perm in (("xz", [0, 2, 1]), ("yz", [2, 0, 1]), ("zx", [1, 2, 0])):
            identp = dict(elemType=et, plane=plane, built="Mesh(groups created from the coordinates with permuted axes)")
            res.case((et, "coordinate plane", plane))
            try:
                Xp = base.coord[:, perm].copy()
                meshp = _MeshP({g.elemType: _GEFP.Create(g.elemType, np.asarray(g.connect), Xp) for g in base.dict_groupElem.values()})
                gmain = meshp.groupElem
                meas = {1: lambda: gmain.length, 2: lambda: meshp.area}[gmain.dim]()
                want = 4.0 if gmain.dim == 1 else 2.0
                cen = np.asarray(meshp.center, float)
                wantc = np.asarray(base.center, float)[perm]
                polyp = Poly(rng, 1, 3)
                ptsp = np.asarray(gmain.Get_GaussCoordinates_e_pg("mass"), float).reshape(-1, 3)[:7]
                gotp = np.asarray(meshp.Evaluate_dofsValues_at_coordinates(ptsp, polyp(meshp.coord))).ravel()
                bad = []
                if not (abs(meas - want) <= 1e-10):
                    bad.append(f"measure {meas!r} (exact {want})")
                if not (np.abs(cen - wantc).max() <= 1e-10):
                    bad.append(f"centre {cen.tolist()} (exact {wantc.tolist()})")
                if not (np.abs(gotp - polyp(ptsp)).max() <= 1e-9 * (1 + np.abs(polyp(ptsp)).max())):
                    bad.append(f"linear field evaluated at {len(ptsp)} interior points off by {np.abs(gotp - polyp(ptsp)).max():.2e}")
                if bad:
                    res.fail(f"mesh lying in the {plane} plane elem={et}", "; ".join(bad), identp)
            except Exception as ex:  # noqa: BLE001
                res.fail(f"mesh lying in the {plane} plane raises elem={et}", f"{type(ex).__name__}: {str(ex)[:200]}", identp)

    # ---------------- the same domain described in another length unit (all coordinates times s) ----------------
    # measure ~ s^d, centre ~ s, normals unchanged (unit), Σ ∫ n dS ~ s^nd, flux of x ~ s^(nd+1) (nd: dimension of the
    # groups carrying the normals), located-point evaluation unchanged; reference: the same mesh in units of order 1
    def _rot_out(m):
        m.Rotate(53.0, (0.25, 0.5, 0.0), (1, -2, 2))
        return m
    unit_cases = [(f"{t} polygon", (lambda t=t: M.mesh_2d(t, polygon=POLYGONS[0], h=1.2)), 2, 1, t) for t in ("TRI3", "QUAD4", "TRI6")]
    unit_cases += [("QUAD4 rectangle", (lambda: M.mesh_2d("QUAD4", 2.0, 1.0, 0.7)), 2, 1, "QUAD4")]
    unit_cases += [(f"{t} extruded box", (lambda t=t: M.mesh_3d(t, 2.0, 1.0, 1.5, 1.0, 2)), 3, 2, t) for t in ("TETRA4", "HEXA8", "PRISM6", "TETRA10")]
    unit_cases += [(f"{t} box, boundary from Surface_reconstruction", (lambda t=t: MeshIO.Surface_reconstruction(M.mesh_3d(t, 2.0, 1.0, 1.5, 1.0, 2))), 3, 2, t) for t in ("TETRA4", "HEXA8", "PRISM6")]
    unit_cases += [(f"{t} surface rotated out of plane", (lambda t=t: _rot_out(M.mesh_2d(t, 2.0, 1.0, 0.7))), 2, 2, t) for t in ("TRI3", "QUAD4")]
    if thorough:
        unit_cases += [(f"{t} extruded box", (lambda t=t: M.mesh_3d(t, 2.0, 1.0, 1.5, 1.0, 2)), 3, 2, t) for t in ("HEXA20", "HEXA27", "PRISM15", "PRISM18")]
    unit_scales = [("km", 1e3), ("mm", 1e-3), ("um", 1e-6), ("0.1 um", 1e-7), ("nm", 1e-9)]

    def _normal_data(m, nd):
        ns, tot, fl, ar = [], np.zeros(3), 0.0, 0.0
        for g in m.Get_list_groupElem(nd):
            n = np.asarray(g.Get_normals_e_pg("mass"))
            wJ = np.asarray(g.Get_weightedJacobian_e_pg("mass"))
            xg = np.asarray(g.Get_GaussCoordinates_e_pg("mass"))
            ns.append(n.copy())
            tot += np.einsum("ep,epd->d", wJ, n)
            fl += np.einsum("ep,epd,epd->", wJ, n, xg)
            ar += float(wJ.sum())
        return ns, tot, fl, ar

    for name, build, d, nd, et in unit_cases:
        try:
            base = build()
            base.Translate(0.3, -0.2, 0.7 if (d == 3 or nd == 2) else 0.0)
            meas1 = float(base.area if d == 2 else base.volume)
            c1 = np.asarray(base.center, float)
            ns1, tot1, fl1, ar1 = _normal_data(base, nd)
            X1 = base.coord.copy()
        except Exception as ex:  # noqa: BLE001
            res.fail("length unit: reference mesh raises", f"{type(ex).__name__}: {str(ex)[:150]}", dict(mesh=name))
            continue
        pu = Poly(rng, 1, 3 if (d == 3 or nd == 2) else 2)
        for uname, s in unit_scales:
            ident = dict(mesh=name, elemType=et, unit=uname, scale=s, note="mesh built in units of order 1, translated by (0.3, -0.2, 0.7 or 0), then mesh.coord = mesh.coord * scale")
            res.case((name, uname, "length unit"))
            res.count("length-unit")
            try:
                mesh = build()
                mesh.Translate(0.3, -0.2, 0.7 if (d == 3 or nd == 2) else 0.0)
                if mesh.coord.shape != X1.shape or not (np.abs(mesh.coord - X1).max() <= 1e-12):
                    mesh = base.copy()          # the mesher is not reproducible: scale a copy
                mesh.coord = X1 * s
                meas = float(mesh.area if d == 2 else mesh.volume)
                cs = np.asarray(mesh.center, float)
                ns, tot, fl, ar = _normal_data(mesh, nd)
            except Exception as ex:  # noqa: BLE001
                res.fail(f"length unit: measure / normals raise dim={d}", f"{type(ex).__name__}: {str(ex)[:150]}", ident)
                continue
            err = abs(meas / s**d - meas1) / meas1
            if not (err <= 1e-9):
                res.fail(f"measure does not scale with the length unit dim={d}", f"{name} in {uname}: measure / s^{d} = {meas / s**d} but {meas1} in units of order 1 (relative error {err:.2e})", ident)
            err = np.abs(cs / s - c1).max()
            if not (err <= 1e-9):
                res.fail(f"center does not scale with the length unit dim={d}", f"{name} in {uname}: center / s = {(cs / s).tolist()} but {c1.tolist()} in units of order 1", ident)
            err = max(float(np.abs(np.linalg.norm(n, axis=-1) - 1).max()) for n in ns)
            if not (err <= 1e-10):
                res.fail(f"normals not unit after a change of length unit dim={d}" if nd != d else "normals not unit after a change of length unit embedded surface",
                         f"{name} in {uname} (coordinates x {s:g}): max | |n| - 1 | = {err:.3e} over the Gauss points of the groups of dimension {nd}", ident)
                continue
            err = max(float(np.abs(n - n1).max()) for n, n1 in zip(ns, ns1))
            if not (err <= 1e-9):
                res.fail(f"normals change with the length unit dim={d}", f"{name} in {uname}: the normals differ by {err:.2e} from those of the same mesh in units of order 1", ident)
            err = abs(ar / s**nd - ar1) / ar1
            if not (err <= 1e-9):
                res.fail(f"boundary measure does not scale with the length unit dim={d}", f"{name} in {uname}: Σ ∫ dS / s^{nd} = {ar / s**nd}, {ar1} in units of order 1", ident)
            err = np.abs(tot / s**nd - tot1).max() / ar1
            if not (err <= 1e-9):
                res.fail(f"normal closure changes with the length unit dim={d}", f"{name} in {uname}: Σ ∫ n dS / s^{nd} = {(tot / s**nd).tolist()}, {tot1.tolist()} in units of order 1", ident)
            err = abs(fl / s**(nd + 1) - fl1) / (ar1 + abs(fl1))
            if not (err <= 1e-9):
                res.fail(f"normal flux changes with the length unit dim={d}", f"{name} in {uname}: Σ ∫ x·n dS / s^{nd + 1} = {fl / s**(nd + 1)}, {fl1} in units of order 1", ident)
            if "Surface_reconstruction" in name and not (abs(fl / (3 * meas) - 1) <= 1e-9):
                res.fail("reconstructed boundary flux after a change of length unit", f"{name} in {uname}: flux of the position vector / (3 x volume) = {fl / (3 * meas)}, expected 1", ident)
            # point location: a linear field of x / s (general quadrangles included: the iterative inverse map must not depend on the unit)
            g = mesh.Get_list_groupElem(d)[0]
            vals = pu(mesh.coord / s)
            pts, kinds = sample_points(mesh, g, rng, 3)
            want = pu(pts / s)
            try:
                got = np.asarray(mesh.Evaluate_dofsValues_at_coordinates(pts, vals)).ravel()
            except Exception as ex:  # noqa: BLE001
                res.fail(f"point location raises after a change of length unit dim={d}", f"{type(ex).__name__}: {str(ex)[:150]}", dict(ident, points=(pts / s).tolist()))
                continue
            errp = np.abs(got - want) / (1 + np.abs(want).max())
            if not (errp.max() <= 1e-6):
                i = int(errp.argmax())
                res.fail(f"point evaluation after a change of length unit dim={d}", f"{name} in {uname}: linear field at a located {kinds[i]} point: {got[i]} instead of {want[i]}", dict(ident, point_over_scale=(pts[i] / s).tolist()))

    # ---------------- witness of the nearest-node search (recorded finding) ----------------
    from EasyFEA.FEM import Mesh
    from EasyFEA.FEM._group_elem import GroupElemFactory
    from EasyFEA import ElemType
    Xw = np.array([[0, 0, 0], [8, 0, 0], [4, 0.5, 0], [4, -0.3, 0]], float)
    gw = GroupElemFactory.Create(elemType=ElemType.TRI3, connect=np.array([[0, 1, 2], [0, 3, 1]]), coordinates=Xw)
    mw = Mesh(dict_groupElem={ElemType.TRI3: gw})
    vw = 1 + 2 * Xw[:, 0] - 3 * Xw[:, 1]
    pw = np.array([[4, 0.05, 0.0]])
    res.case(("nearest-node witness",))
    gotw = float(np.asarray(mw.Evaluate_dofsValues_at_coordinates(pw, vw)).ravel()[0])
    if not (abs(gotw - 8.85) <= 1e-9):
        res.fail("point location: element not adjacent to the nearest node", f"two flat triangles (0,0)-(8,0)-(4,0.5) and (0,0)-(4,-0.3)-(8,0): the point (4, 0.05) lies in the first one but its nearest node (4,-0.3) belongs to the second only: "
                 f"Evaluate_dofsValues_at_coordinates returns {gotw} instead of 8.85", dict(mesh="two flat TRI3", point=[4, 0.05, 0.0]))

    # ---------------- a mesh that has already been used, then moved out of its plane / off its line ----------------
    # "before and after the mesh is moved, also for surface elements embedded in 3D": a planar mesh (or a mesh on the x axis) is
    # used once (measure, centre, normals or a point evaluation), then taken into 3D by a chain of Translate / Rotate / Symmetry
    # with out-of-plane components. After EVERY step the measure, centre, normals and located-point evaluation of polynomials of
    # the element order are compared with the closed forms, and weighted Jacobians / Gauss points / normals of every element
    # group with a FRESH mesh built directly from the final coordinates (same connectivity, never used before).
    def fresh_of(m):
        Xf = np.array(m.coord, float)
        return Mesh({g.elemType: GroupElemFactory.Create(g.elemType, np.array(g.connect), Xf) for g in m.dict_groupElem.values()})

    def first_use(m, how, dim_):
        g0 = m.Get_list_groupElem(dim_)[0]
        if how == "measure and center":
            _ = (m.area if dim_ == 2 else m.length), m.center
        elif how == "normals":
            for gg in m.dict_groupElem.values():
                if 1 <= gg.dim <= 2:
                    gg.Get_normals_e_pg("mass")
                    gg.Get_weightedJacobian_e_pg("mass")
        elif how == "point evaluation":
            m.Evaluate_dofsValues_at_coordinates(m.coord[g0.connect[0]][:g0.Nvertex].mean(0)[None, :], np.array(m.coord[:, 0]))

    def chains(dim_):
        c = (rng.randint(-4, 4) / 4, rng.randint(-4, 4) / 4, rng.randint(-2, 2) / 4)
        ax = (rng.randint(1, 3), rng.randint(-3, 3), rng.randint(1, 3))          # neither in the plane nor along e_z
        nrm = (rng.randint(1, 3), rng.randint(-3, 3), rng.randint(1, 3))
        th = rng.choice([23.0, 67.5, 141.0, 250.0])
        dz = rng.choice([-1.25, 0.7, 2.5])
        T = lambda t: ("Translate", t, np.eye(3), np.array(t, float))                                               # noqa: E731
        Rq = rodrigues(ax, np.deg2rad(th))
        R = ("Rotate", (th, c, ax), Rq, np.array(c) - Rq @ np.array(c))
        Sq = reflection(nrm)
        S = ("Symmetry", (c, nrm), Sq, np.array(c) - Sq @ np.array(c))
        return [[T((0.3, -0.2, dz)), T((-1.0, 0.5, -0.25))], [T((0.0, 0.0, dz)), R, S], [R, T((0.5, 0.25, -1.5))], [S, T((0.0, 0.0, dz)), R]]

    used_types = (["SEG2", "SEG3", "TRI3", "TRI6", "QUAD4", "QUAD8"] if not thorough else M.SEG + M.ALL_2D)
    uses = ["measure and center", "normals", "point evaluation"]
    for et in used_types:
        dim_ = M.dim_of(et)
        where = "plane" if dim_ == 2 else "line"
        for ic, chain in enumerate(chains(dim_)):
            for how in (uses if thorough else [uses[(ic + used_types.index(et)) % 3], uses[(ic + used_types.index(et) + 1) % 3]]):
                ident = dict(elemType=et, first_use=how, steps=[f"mesh.{nm}{tuple(a)}" for nm, a, _, _ in chain],
                             mesh="polygon POLYGONS[0] h=1.2" if et in M.TRI else "rectangle 2 x 1 h=0.7" if dim_ == 2 else "segment [0, 4] on the x axis, 4 elements")
                res.count("used-then-moved-out")
                try:
                    if dim_ == 1:
                        mesh = M.mesh_1d(et)
                        meas0, c0 = 4.0, np.array([2.0, 0.0, 0.0])
                    elif et in M.TRI:
                        mesh = M.mesh_2d(et, polygon=POLYGONS[0], h=1.2)
                        meas0, c0 = shoelace(POLYGONS[0])
                        meas0 = abs(meas0)
                    else:
                        mesh = M.mesh_2d(et, 2.0, 1.0, 0.7)
                        meas0, c0 = 2.0, np.array([1.0, 0.5, 0.0])
                    X0 = np.array(mesh.coord, float)
                    first_use(mesh, how, dim_)
                except Exception as ex:  # noqa: BLE001
                    res.fail(f"first use of a mesh raises elem={et}", f"{how}: {type(ex).__name__}: {str(ex)[:150]}", ident)
                    continue
                Qc, tc = np.eye(3), np.zeros(3)
                pdeg = ORDER[et]
                for istep, (nm, a, Qs, ts) in enumerate(chain):
                    Qc, tc = Qs @ Qc, Qs @ tc + ts
                    sid = dict(ident, failing_step=istep + 1)
                    res.case((et, how, ic, istep, "used then moved out"))
                    try:
                        if nm == "Translate":
                            mesh.Translate(*a)
                        elif nm == "Rotate":
                            mesh.Rotate(*a)
                        else:
                            mesh.Symmetry(*a)
                        Xw_ = X0 @ Qc.T + tc
                        if not (np.abs(np.asarray(mesh.coord) - Xw_).max() <= 1e-10):
                            res.fail(f"mesh mover {nm}", f"nodes moved by up to {np.abs(np.asarray(mesh.coord) - Xw_).max():.2e} away from the transformation", sid)
                            break
                        ref_mesh = fresh_of(mesh)
                        meas = float(mesh.area if dim_ == 2 else mesh.length)
                        cen = np.asarray(mesh.center, float)
                        bad = None
                        if not (abs(meas - meas0) <= 1e-9 * meas0):
                            bad = ("measure", f"measure {meas} after step {istep + 1} ({nm}), exact {meas0}")
                        elif not (np.abs(cen - (Qc @ c0 + tc)).max() <= 1e-9):
                            bad = ("center", f"center {cen.tolist()} after step {istep + 1} ({nm}), exact {(Qc @ c0 + tc).tolist()}")
                        for gm, gr in zip(mesh.dict_groupElem.values(), ref_mesh.dict_groupElem.values()):
                            if bad is not None or gm.dim == 0:
                                continue
                            wm, wr = np.asarray(gm.Get_weightedJacobian_e_pg("mass")), np.asarray(gr.Get_weightedJacobian_e_pg("mass"))
                            xm, xr = np.asarray(gm.Get_GaussCoordinates_e_pg("mass")), np.asarray(gr.Get_GaussCoordinates_e_pg("mass"))
                            if not (np.abs(wm - wr).max() <= 1e-9 * np.abs(wr).max()):
                                bad = ("weighted jacobians", f"group {gm.elemType}: weighted Jacobians differ by {np.abs(wm - wr).max():.2e} from those of a fresh mesh built at the final position")
                            elif not (np.abs(xm - xr).max() <= 1e-9):
                                bad = ("gauss points", f"group {gm.elemType}: Gauss point coordinates differ by {np.abs(xm - xr).max():.2e} from those of a fresh mesh built at the final position")
                            elif gm.dim == dim_:
                                n_m, n_r = np.asarray(gm.Get_normals_e_pg("mass")), np.asarray(gr.Get_normals_e_pg("mass"))
                                if not (np.abs(n_m - n_r).max() <= 1e-9):
                                    bad = ("normals", f"group {gm.elemType}: normals differ by {np.abs(n_m - n_r).max():.2e} from those of a fresh mesh built at the final position")
                                elif dim_ == 2 and not (np.abs(np.abs(n_m @ Qc[:, 2]) - 1).max() <= 1e-9):
                                    bad = ("normals", "the normals of the moved plane surface are not ± Q e_z")
                        if bad is not None:
                            res.fail(f"used mesh moved out of its {where}: {bad[0]}", f"{et}, first use = {how}: {bad[1]}", sid)
                            break
                        g = mesh.Get_list_groupElem(dim_)[0]
                        p = Poly(rng, pdeg, 3)
                        vals = p(np.asarray(mesh.coord))
                        pts, kinds = sample_points(mesh, g, rng, 4)
                        want = p(pts)
                        got = np.asarray(mesh.Evaluate_dofsValues_at_coordinates(pts, vals)).ravel()
                        one = np.array([np.asarray(mesh.Evaluate_dofsValues_at_coordinates(pts[i:i + 1], vals)).ravel()[0] for i in range(len(pts))])
                        fre = np.asarray(ref_mesh.Evaluate_dofsValues_at_coordinates(pts, vals)).ravel()
                    except Exception as ex:  # noqa: BLE001
                        res.fail(f"used mesh moved out of its {where}: raises", f"{et}, first use = {how}, step {istep + 1} ({nm}): {type(ex).__name__}: {str(ex)[:150]}", sid)
                        break
                    stop = False
                    for qn, arr in (("batch", got), ("single", one)):
                        err = np.abs(arr - want) / (1 + np.abs(want).max())
                        if not (err.max() <= 1e-8):
                            i = int(np.nanargmax(err)) if np.isfinite(err).any() else 0
                            errf = np.abs(fre - want).max() / (1 + np.abs(want).max())
                            res.fail(f"used mesh moved out of its {where}: point evaluation", f"{et}, first use = {how}, after step {istep + 1} ({nm}): degree-{pdeg} field at a located {kinds[i]} point ({qn} query) is {arr[i]} instead of {want[i]} "
                                     f"(relative error {err.max():.2e}; a fresh mesh built at the final position: {errf:.2e})", dict(sid, degree=pdeg, point=pts[i].tolist()))
                            stop = True
                            break
                    if stop:
                        break

    answers = driver.ask(lines)
    if answers is None:
        res.disagree("driver", "model driver does not run: " + getattr(driver, "error", "")[:400])
    else:
        for (kind, data), ans in zip(expect, answers):
            res.traces += 1
            try:
                vals = [float(parse_frac(x)) for x in ans.split()]
            except Exception:  # noqa: BLE001
                res.disagree(kind, dict(model=ans[:80]))
                continue
            if kind == "rot":
                if not (np.abs(np.array(vals).reshape(3, 3) - data).max() <= 1e-13):
                    res.disagree("rotation-matrix", dict(maxdiff=float(np.abs(np.array(vals).reshape(3, 3) - data).max())))
            else:
                fl, tot, ident = data
                if not (abs(vals[0] - fl) <= 1e-9 * (1 + abs(fl))) or not (abs(vals[2] - tot[0]) + abs(vals[3] - tot[1]) <= 1e-9):
                    res.disagree("boundary-normals", dict(ident, model_flux=vals[0], real_flux=fl))
    res.search_note = "measures, movers, normals (up to the recorded orientation findings) and point evaluations agree on the sampled meshes"
    res.write("polygon meshes (convex, non-convex, general quadrilateral) of every 2D element type and extruded boxes (also tapered: non-affine hexahedra / prisms) of every 3D element type, "
              "unmoved / Mesh.Rotate with generic angle and axis / Mesh.Symmetry / Mesh.Translate; area, volume, centre, normals (unit, closure, flux, n' = det(Q) Q n), surfaces rotated out of plane; "
              "located-point evaluation of polynomial fields (degree = element order on straight-sided elements, 1 on non-affine ones) at interior / edge / node points, batch and single; "
              "distinct = distinct (element type, move, shape, check)")


if __name__ == "__main__":
    from tools.harness._common import run

    run(main)
