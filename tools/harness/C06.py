"""C06 harness: (A) correspondence model <-> real lambdas, including the evaluation
glue Get_*_pg; (B) the property itself on the real callables with an exact,
translator-independent oracle (Lagrange interpolation of black-box polynomials)."""

from __future__ import annotations

import itertools
from fractions import Fraction

import numpy as np

from tools.harness._common import Driver, Result, frac_str, parse_args, parse_frac, rng_for

from EasyFEA.FEM import ElemType, MatrixType
from EasyFEA.FEM._group_elem import GroupElemFactory
from EasyFEA.FEM.Elems import _beam

TABLES = ["N", "dN", "ddN", "dddN", "ddddN"]
HTABLES = ["N", "dN", "ddN", "dddN"]
DEG = 12  # more sample points than any plausible polynomial degree


def make_group(name):
    et = ElemType(name)
    gid, nPe, dim = GroupElemFactory.DICT_ELEMTYPE[et][:3]
    cls = GroupElemFactory.GROUP_CLASS_MAP[et]
    tmp = cls(gid, np.zeros((0, nPe), dtype=int), np.zeros((0, 3)))
    loc = np.asarray(tmp.Get_Local_Coords(), dtype=float)
    coords = np.zeros((nPe, 3))
    coords[:, : loc.shape[1]] = loc
    return cls(gid, np.arange(nPe, dtype=int).reshape(1, -1), coords)


def make_beam(cname):
    cls = getattr(_beam, cname)
    seg = "SEG" + cname[-1]
    et = ElemType(seg)
    gid, nPe, dim = GroupElemFactory.DICT_ELEMTYPE[et][:3]
    g = make_group(seg)
    return cls(gid, g.connect, g.coord)


def tables_of(g):
    return dict(N=g._N(), dN=g._dN(), ddN=g._ddN(), dddN=g._dddN(), ddddN=g._ddddN())


def htables_of(g):
    return dict(N=g._Hermitian_N(), dN=g._Hermitian_dN(), ddN=g._Hermitian_ddN(), dddN=g._Hermitian_dddN())


def call(f, x):
    """Value of a table entry at a rational point, as an exact Fraction of whatever
    number type the lambda returns (floats are exact binary rationals)."""
    v = f(*x)
    if isinstance(v, Fraction):
        return v
    if isinstance(v, (int, np.integer)):
        return Fraction(int(v))
    return Fraction(float(v))


def deriv_exact(f, x, a):
    """Exact derivative of the black-box polynomial t -> f(x + t e_a) at t=0 by
    Lagrange differentiation on DEG+1 symmetric rational nodes."""
    ts = [Fraction(k, 8) for k in range(-(DEG // 2), DEG // 2 + 1)]
    vals = []
    for t in ts:
        y = list(x)
        y[a] = y[a] + t
        vals.append(call(f, y))
    # derivative at 0 of the interpolating polynomial
    d = Fraction(0)
    for j, tj in enumerate(ts):
        # l_j'(0) = sum_{m != j} 1/(tj - tm) * prod_{k != j,m} (0 - tk)/(tj - tk)
        s = Fraction(0)
        for m, tm in enumerate(ts):
            if m == j:
                continue
            p = Fraction(1) / (tj - tm)
            for k, tk in enumerate(ts):
                if k == j or k == m:
                    continue
                p *= (0 - tk) / (tj - tk)
            s += p
        d += vals[j] * s
    return d


def mons_of(name, dim, order):
    allm = list(itertools.product(range(order + 1), repeat=dim))
    if name in ("QUAD4", "QUAD9", "HEXA8", "HEXA27"):
        return allm
    if name in ("PRISM6", "PRISM18"):
        return [m for m in allm if not (m[0] + m[1] > order)]
    return [m for m in allm if not (sum(m) > order)]


def rand_point(rng, dim):
    return [Fraction(rng.randint(-16, 16), 16) for _ in range(dim)]


def eval_dense(F, P):
    """Values of the callables of a table at the rows of P, one scalar call per (point, entry)
    with plain Python floats -> (nP, nF, nPe) floats (the expectation for the library's evaluator)."""
    nPe, nF = F.shape[:2]
    out = np.zeros((len(P), nF, nPe))
    for p, row in enumerate(np.asarray(P).tolist()):
        x = [float(c) for c in row]
        for n in range(nPe):
            for f in range(nF):
                out[p, f, n] = float(F[n, f](*x))
    return out


def lattice_points(g):
    """Integer-typed points of the closed reference element (vertices, mid-sides, centre ...)."""
    loc = np.asarray(g.Get_Local_Coords(), dtype=float)
    lo, hi = loc.min(axis=0), loc.max(axis=0)
    pts = []
    for x in itertools.product((-1, 0, 1), repeat=g.dim):
        if any(not (lo[k] <= x[k] <= hi[k]) for k in range(g.dim)):
            continue
        if g.topology in ("TRI", "TETRA") and sum(x) > 1:
            continue
        if g.topology == "PRISM" and x[0] + x[1] > 1:
            continue
        pts.append(x)
    return np.array(pts, dtype=np.int64).reshape(len(pts), g.dim)


def check_evaluator(res, name, g, tabs, prefix, rng, npts):
    """The library's evaluator of the tables (the function behind Get_*_pg and the mesh interpolation)
    at points that are NOT Gauss points: the reference nodes exactly as Get_Local_Coords() returns them,
    integer-typed points of the reference element, a batch of random float points and a single point.
    What it returns must be the values of the tabulated callables at each point, (nP, nF, nPe)."""
    nodes_native = np.asarray(g.Get_Local_Coords())
    batch = np.array([[float(c) for c in rand_point(rng, g.dim)] for _ in range(max(16, npts))])
    if g.topology in ("TRI", "TETRA", "PRISM"):
        batch[:, : (2 if g.topology != "TETRA" else 3)] = np.abs(batch[:, : (2 if g.topology != "TETRA" else 3)]) / 3
    point_sets = [
        ("nodes-as-returned", nodes_native),
        ("nodes-float64", nodes_native.astype(float)),
        ("integer-points", lattice_points(g)),
        ("random-batch", batch),
        ("single-point", batch[:1].copy()),
        ("batch-transposed-view", np.asfortranarray(batch)),
    ]
    for t, F in tabs.items():
        for label, P in point_sets:
            ident = dict(elem=name, table=prefix + t, points=label, dtype=str(P.dtype), coords=P.tolist())
            key = f"elem={name} evaluator table={prefix}{t} points={label}"
            try:
                got = np.asarray(type(g)._Eval_Functions(F, P))
            except Exception as e:  # noqa: BLE001
                res.fail(key + " raises", f"_Eval_Functions({name}.{prefix}{t}(), {label} of dtype {P.dtype}) raises {type(e).__name__}: {e}", ident)
                continue
            ref = eval_dense(F, P)
            res.case((name, "evaluator", prefix + t, label), nontrivial=bool(np.abs(ref).max() > 0))
            if got.shape != ref.shape:
                res.fail(key + " shape", f"_Eval_Functions returns shape {got.shape}, expected (nP, nF, nPe) = {ref.shape}", ident)
                continue
            try:
                diff = np.abs(got.astype(float) - ref)
            except Exception as e:  # noqa: BLE001
                res.fail(key + " raises", f"evaluated table of dtype {got.dtype} is not real: {e}", ident)
                continue
            err = diff.max() if diff.size else 0.0
            if not (err <= 1e-9 * (1 + np.abs(ref).max())):
                p, a, i = np.unravel_index(int(np.nanargmax(np.where(np.isnan(diff), np.inf, diff))), diff.shape)
                res.fail(key,
                         f"_Eval_Functions({name}.{prefix}{t}(), {label} of dtype {P.dtype})[{p},{a},{i}] = {got[p, a, i]} "
                         f"but {prefix}{t}()[{i}][{a}] at {P[p].tolist()} = {ref[p, a, i]}",
                         dict(ident, p=int(p), a=int(a), i=int(i), got=float(got[p, a, i]), want=float(ref[p, a, i])))
            # closed forms on the evaluated arrays: Kronecker at the nodes, partition of unity everywhere
            if prefix == "_" and t == "N":
                if label.startswith("nodes"):
                    e2 = np.abs(got[:, 0, :].astype(float) - np.eye(g.nPe)).max()
                    if not (e2 <= 1e-10):
                        res.fail(f"elem={name} evaluator kronecker points={label}",
                                 f"evaluated N_i(x_j) differs from delta_ij by {e2} on {name} ({label}, dtype {P.dtype})", ident)
                e3 = np.abs(got[:, 0, :].astype(float).sum(axis=1) - 1).max()
                if not (e3 <= 1e-10):
                    res.fail(f"elem={name} evaluator partition-of-unity points={label}",
                             f"evaluated sum_i N_i differs from 1 by {e3} on {name} ({label}, dtype {P.dtype})", ident)
            if prefix == "_Hermitian_" and label.startswith("nodes") and t in ("N", "dN"):
                eye = np.eye(g.nPe)
                v = got[:, 0, :].astype(float)
                want_even, want_odd = (eye, 0 * eye) if t == "N" else (0 * eye, eye / 2)
                e4 = max(np.abs(v[:, 0::2] - want_even).max(), np.abs(v[:, 1::2] - want_odd).max())
                if not (e4 <= 1e-9):
                    res.fail(f"hermite={name} evaluator interpolation table={t} points={label}",
                             f"evaluated Hermite {'values' if t == 'N' else 'slopes'} at the nodes off by {e4} on {name} ({label}, dtype {P.dtype})", ident)


def kronecker_defect(g):
    """max |N_i(x_j) - delta_ij| with the group's own nodes and callables (scalar float calls)."""
    nodes = np.asarray(g.Get_Local_Coords(), dtype=float)
    N = g._N()
    vals = np.array([[float(N[i, 0](*[float(c) for c in x])) for i in range(g.nPe)] for x in nodes])
    return float(np.abs(vals - np.eye(g.nPe)).max())


def hermite_defect(g):
    nodes = [float(c) for c in np.asarray(g.Get_Local_Coords(), dtype=float)[:, 0]]
    H, dH = g._Hermitian_N(), g._Hermitian_dN()
    val = np.array([[float(H[k, 0](x)) for k in range(2 * g.nPe)] for x in nodes])
    slope = np.array([[float(dH[k, 0](x)) for k in range(2 * g.nPe)] for x in nodes])
    eye = np.eye(g.nPe)
    return float(max(np.abs(val[:, 0::2] - eye).max(), np.abs(val[:, 1::2]).max(),
                     np.abs(slope[:, 0::2]).max(), np.abs(slope[:, 1::2] - eye / 2).max()))


def check_after_caller_writes(res, name, make):
    """What the getters return belongs to the caller: a first group hands out its reference nodes and its
    table of functions, the caller works on them IN PLACE (shift of the nodes for a plot, an entry of the
    table replaced), and the property must still hold on that group asked again and on a second, fresh
    group of the same element type (its own nodes, its own callables)."""
    history = "g1 = new group; x = g1.Get_Local_Coords(); x += 1; T = g1._N(); T[0, 0] = (lambda *a: 7.0)"
    try:
        g1 = make(name)
        x = g1.Get_Local_Coords()
        before = np.array(x, dtype=float)
        x += 1
        T = g1._N()
        T[0, 0] = lambda *a: 7.0
        if hasattr(g1, "_Hermitian_N"):
            H = g1._Hermitian_N()
            H[0, 0] = lambda *a: 7.0
        g2 = make(name)
        for who, g in (("first group asked again", g1), ("second group", g2)):
            after = np.asarray(g.Get_Local_Coords(), dtype=float)
            res.case((name, "caller-writes", who))
            d = kronecker_defect(g)
            ident = dict(elem=name, history=history, checked_on=who, nodes_before=before.tolist(), nodes_now=after.tolist())
            if not (d <= 1e-10):
                res.fail(f"elem={name} kronecker after in-place use of returned arrays ({who})",
                         f"N_i(x_j) differs from delta_ij by {d} on the {who} of {name} after the caller modified in place "
                         f"the arrays returned to it by the first group", ident)
            if hasattr(g1, "_Hermitian_N"):
                d = hermite_defect(g)
                if not (d <= 1e-9):
                    res.fail(f"hermite={name} interpolation after in-place use of returned arrays ({who})",
                             f"Hermite value/slope conditions off by {d} on the {who} of {name} after the caller modified in place "
                             f"the arrays returned to it by the first group", ident)
    except Exception as e:  # noqa: BLE001
        res.fail(f"elem={name} in-place use of returned arrays raises", f"{type(e).__name__}: {e}", dict(elem=name, history=history))


def main():
    args = parse_args()
    rng = rng_for(args)
    res = Result(args)
    npts = 3 if args.tier == "quick" else 10
    if args.search:
        npts = 12
    TOL = Fraction(1, 10**10)

    names = [e.name for e in ElemType if e.name != "POINT"]
    beams = ["EULER_BERNOULLI%d" % k for k in (2, 3, 4, 5)] + ["TIMOSHENKO%d" % k for k in (2, 3, 4, 5)]
    driver = Driver("C06")
    lines, expect = [], []

    # ---------------- (B) property oracle on the real callables ----------------
    for name in names:
        g = make_group(name)
        dim, nPe, order = g.dim, g.nPe, g.order
        T = tables_of(g)
        nodes = [[Fraction(float(c)) for c in row] for row in np.asarray(g.Get_Local_Coords(), dtype=float)]
        res.count("elem:" + name)
        for t in TABLES:
            if T[t].shape != (nPe, 1 if t == "N" else dim):
                res.fail(f"elem={name} table={t} shape", f"{name}._{t}() has shape {T[t].shape}", dict(elem=name, table=t))
        # Kronecker
        for i in range(nPe):
            for j in range(nPe):
                v = call(T["N"][i, 0], nodes[j])
                res.case((name, "kron", i, j), nontrivial=True)
                if not (abs(v - (1 if i == j else 0)) <= TOL):
                    res.fail(f"elem={name} kronecker i={i} j={j}", f"N_{i}(x_{j}) = {float(v)} on {name}",
                             dict(elem=name, i=i, j=j, node=[str(c) for c in nodes[j]], value=str(v)))
        pts = [rand_point(rng, dim) for _ in range(npts)]
        for x in pts:
            # partition of unity
            s = sum(call(T["N"][i, 0], x) for i in range(nPe))
            res.case((name, "pou", tuple(x)))
            if not (abs(s - 1) <= TOL):
                res.fail(f"elem={name} partition-of-unity", f"sum N_i = {float(s)} at {x} on {name}",
                         dict(elem=name, point=[str(c) for c in x], value=str(s)))
            # reproduction of the polynomial space
            for m in mons_of(name, dim, order):
                mono = lambda y: np.prod([y[k] ** m[k] for k in range(dim)]) if dim else 1  # noqa: E731
                lhs = sum(Fraction(mono(nodes[i])) * call(T["N"][i, 0], x) for i in range(nPe))
                res.case((name, "repro", m, tuple(x)), nontrivial=sum(m) > 0)
                if not (abs(lhs - Fraction(mono(x))) <= TOL):
                    res.fail(f"elem={name} reproduces monomial={m}", f"interpolant of x^{m} is {float(lhs)} at {x} on {name}",
                             dict(elem=name, monomial=list(m), point=[str(c) for c in x], value=str(lhs)))
        # derivative tables vs exact derivative of the previous table (all entries)
        for lvl in range(1, 5):
            prev, nxt = TABLES[lvl - 1], TABLES[lvl]
            for i in range(nPe):
                for a in range(dim):
                    fprev = T[prev][i, 0] if prev == "N" else T[prev][i, a]
                    for x in pts[: max(2, npts // 2)]:
                        d = deriv_exact(fprev, x, a)
                        v = call(T[nxt][i, a], x)
                        res.case((name, nxt, i, a, tuple(x)), nontrivial=(d != 0))
                        if not (abs(d - v) <= Fraction(1, 10**8) * (1 + abs(d))):
                            res.fail(f"elem={name} table={nxt} entry={i},{a}",
                                     f"{name}._{nxt}()[{i}][{a}] = {float(v)} but d/dxi_{a} of _{prev}()[{i}] = {float(d)} at {x}",
                                     dict(elem=name, table=nxt, i=i, a=a, point=[str(c) for c in x], tabulated=str(v), derivative=str(d)))
        # ---------------- (A) correspondence: model value vs real lambda ----------------
        for t in TABLES:
            for i in range(nPe):
                for a in range(1 if t == "N" else dim):
                    for x in pts:
                        lines.append(f"E {name} {t} {i} {a} " + " ".join(frac_str(c) for c in x))
                        expect.append((name, t, i, a, x, call(T[t][i, 0 if t == "N" else a], x)))
        # glue: Get_*_pg layout (nPg, dim, nPe) at the Gauss points of both rules
        for mt in (MatrixType.rigi, MatrixType.mass):
            gp = np.asarray(g.Get_gauss(mt).coord, dtype=float)
            arrs = dict(N=g.Get_N_pg(mt), dN=g.Get_dN_pg(mt), ddN=g.Get_ddN_pg(mt), dddN=g.Get_dddN_pg(mt), ddddN=g.Get_ddddN_pg(mt))
            for t, arr in arrs.items():
                nf = 1 if t == "N" else dim
                if arr.shape != (gp.shape[0], nf, nPe):
                    res.disagree("Get_%s_pg shape" % t, dict(elem=name, shape=list(arr.shape)))
                    continue
                for p in range(gp.shape[0]):
                    x = [Fraction(float(c)) for c in gp[p, :dim]]
                    for i in range(nPe):
                        for a in range(nf):
                            # the evaluated array must hold the value of the k-th table (which (B) ties to
                            # the k-th derivative of _N) at the Gauss point, in the (nPg, dim, nPe) layout
                            want = call(T[t][i, 0 if t == "N" else a], x)
                            got = Fraction(float(arr[p, a, i]))
                            res.case((name, "glue", t, str(mt), p, i, a), nontrivial=(want != 0))
                            if not (abs(want - got) <= Fraction(1, 10**9) * (1 + abs(want))):
                                res.fail(f"elem={name} glue=Get_{t}_pg",
                                         f"{name}.Get_{t}_pg({mt})[{p},{a},{i}] = {float(got)} but _{t}()[{i}][{a}] at that Gauss point = {float(want)}",
                                         dict(elem=name, getter=f"Get_{t}_pg", matrixType=str(mt), gauss_point=p, i=i, a=a, got=float(got), want=float(want)))
                            if not (p >= (2 if args.tier == "quick" else gp.shape[0])):
                                lines.append(f"E {name} {t} {i} {a} " + " ".join(frac_str(c) for c in x))
                                expect.append((name, "Get_%s_pg[%s]" % (t, mt), i, a, x, got))

    for cname in beams:
        g = make_beam(cname)
        nPe = g.nPe
        T = htables_of(g)
        nodes = [Fraction(float(c)) for c in np.asarray(g.Get_Local_Coords(), dtype=float)[:, 0]]
        res.count("hermite:" + cname)
        eps = Fraction(0) if cname[-1] in "23" else Fraction(1, 10**12)
        eps = max(eps, Fraction(1, 10**13))  # float evaluation noise of the real lambdas
        for t in HTABLES:
            if T[t].shape != (2 * nPe, 1):
                res.fail(f"hermite={cname} table={t} shape", f"shape {T[t].shape}", dict(elem=cname, table=t))
        for i in range(nPe):
            for j in range(nPe):
                d = 1 if i == j else 0
                vals = dict(
                    phi=call(T["N"][2 * i, 0], [nodes[j]]) - d,
                    dphi=call(T["dN"][2 * i, 0], [nodes[j]]),
                    psi=call(T["N"][2 * i + 1, 0], [nodes[j]]),
                    dpsi=2 * call(T["dN"][2 * i + 1, 0], [nodes[j]]) - d,
                )
                for k, v in vals.items():
                    res.case((cname, k, i, j))
                    if not (abs(v) <= eps):
                        res.fail(f"hermite={cname} interpolation {k} i={i} j={j}", f"{k} condition off by {float(v)}",
                                 dict(elem=cname, cond=k, i=i, j=j, value=str(v)))
        pts = [rand_point(rng, 1) for _ in range(npts)]
        for lvl in range(1, 4):
            prev, nxt = HTABLES[lvl - 1], HTABLES[lvl]
            for i in range(2 * nPe):
                for x in pts[: max(2, npts // 2)]:
                    d = deriv_exact(T[prev][i, 0], x, 0)
                    v = call(T[nxt][i, 0], x)
                    res.case((cname, nxt, i, tuple(x)), nontrivial=(d != 0))
                    if not (abs(d - v) <= Fraction(1, 10**7) * (1 + abs(d))):
                        res.fail(f"hermite={cname} table={nxt} entry={i}",
                                 f"{cname}._Hermitian_{nxt}()[{i}] = {float(v)} but derivative of _{prev}[{i}] = {float(d)} at {x}",
                                 dict(elem=cname, table=nxt, i=i, point=[str(c) for c in x], tabulated=str(v), derivative=str(d)))
        for t in HTABLES:
            for i in range(2 * nPe):
                for x in pts:
                    lines.append(f"H {cname} {t} {i} " + frac_str(x[0]))
                    expect.append((cname, "H" + t, i, 0, x, call(T[t][i, 0], x)))
        # glue: Get_Hermitian_*_pg
        gp = np.asarray(g.Get_gauss(MatrixType.beam).coord, dtype=float)
        arrs = dict(N=g.Get_Hermitian_N_pg(), dN=g.Get_Hermitian_dN_pg(), ddN=g.Get_Hermitian_ddN_pg(), dddN=g.Get_Hermitian_dddN_pg())
        for t, arr in arrs.items():
            if arr.shape != (gp.shape[0], 1, 2 * nPe):
                res.disagree("Get_Hermitian_%s_pg shape" % t, dict(elem=cname, shape=list(arr.shape)))
                continue
            for p in range(gp.shape[0]):
                x = [Fraction(float(gp[p, 0]))]
                for i in range(2 * nPe):
                    want = call(T[t][i, 0], x)
                    got = Fraction(float(arr[p, 0, i]))
                    res.case((cname, "glue", t, p, i), nontrivial=(want != 0))
                    if not (abs(want - got) <= Fraction(1, 10**9) * (1 + abs(want))):
                        res.fail(f"hermite={cname} glue=Get_Hermitian_{t}_pg",
                                 f"{cname}.Get_Hermitian_{t}_pg()[{p},0,{i}] = {float(got)} but _Hermitian_{t}()[{i}] there = {float(want)}",
                                 dict(elem=cname, getter=f"Get_Hermitian_{t}_pg", gauss_point=p, i=i, got=float(got), want=float(want)))
                    if not (p >= (2 if args.tier == "quick" else gp.shape[0])):
                        lines.append(f"H {cname} {t} {i} " + frac_str(x[0]))
                        expect.append((cname, "Get_Hermitian_%s_pg" % t, i, 0, x, got))

    # ---------------- every table has one row per function of the element (also the tables an element inherits) ----------------
    # N: (nPe, 1); k-th derivatives: (nPe, dim); Hermite tables: (2 nPe, 1); the Gauss-point getters: (nPg, rows, nPe) resp. (nPg, 1, 2 nPe)
    def check_shapes(cname, g):
        for t, F in tables_of(g).items():
            want_rows = g.nPe
            shp = np.asarray(F, dtype=object).shape
            res.case((cname, "table-shape", t))
            if len(shp) != 2 or shp[0] != want_rows or shp[1] != (1 if t == "N" else g.dim):
                res.fail(f"elem={cname} table=_{t} shape", f"{cname}._{t}() has shape {shp}: {shp[0] if shp else '?'} rows for the {want_rows} functions of the element "
                         f"(expected ({want_rows}, {1 if t == 'N' else g.dim}))", dict(elem=cname, table="_" + t, shape=list(shp), nPe=int(g.nPe), dim=int(g.dim)))
                continue
            getter = getattr(g, f"Get_{t}_pg", None)
            if getter is None:
                continue
            for mt_ in (MatrixType.mass, MatrixType.rigi):
                try:
                    arr = getter(mt_)
                except Exception as e:  # noqa: BLE001
                    res.fail(f"elem={cname} getter=Get_{t}_pg raises", f"{type(e).__name__}: {e}"[:200], dict(elem=cname, getter=f"Get_{t}_pg"))
                    break
                if arr is None:
                    continue
                nPg_ = g.Get_gauss(mt_).nPg
                if tuple(np.shape(arr)) != (nPg_, 1 if t == "N" else g.dim, g.nPe):
                    res.fail(f"elem={cname} getter=Get_{t}_pg shape", f"{cname}.Get_{t}_pg({mt_}) has shape {tuple(np.shape(arr))}, expected (nPg, rows, nPe) = {(nPg_, 1 if t == 'N' else g.dim, g.nPe)}",
                             dict(elem=cname, getter=f"Get_{t}_pg", shape=list(np.shape(arr))))
                    break
    for name in names:
        check_shapes(name, make_group(name))
    for cname in beams:
        gb = make_beam(cname)
        check_shapes(cname, gb)
        for t, F in htables_of(gb).items():
            shp = np.asarray(F, dtype=object).shape
            res.case((cname, "hermite-table-shape", t))
            if shp != (2 * gb.nPe, 1):
                res.fail(f"hermite={cname} table=_Hermitian_{t} shape", f"shape {shp}, expected {(2 * gb.nPe, 1)}", dict(elem=cname, table="_Hermitian_" + t, shape=list(shp)))

    # ---------------- the library's evaluator of the tables away from the Gauss points ----------------
    for name in names:
        g = make_group(name)
        res.count("evaluator:" + name)
        check_evaluator(res, name, g, tables_of(g), "_", rng, npts)
    for cname in beams:
        g = make_beam(cname)
        res.count("evaluator:" + cname)
        check_evaluator(res, cname, g, htables_of(g), "_Hermitian_", rng, npts)
        check_evaluator(res, cname, g, tables_of(g), "_", rng, npts)

    # ---------------- histories: the caller works in place on what the getters returned ----------------
    # (last, so that whatever it does to the library's state cannot hide behind the checks above)
    for name in names:
        res.count("caller-writes:" + name)
        check_after_caller_writes(res, name, make_group)
    for cname in beams:
        res.count("caller-writes:" + cname)
        check_after_caller_writes(res, cname, make_beam)

    answers = driver.ask(lines)
    if answers is None:
        res.disagree("driver", "the generated model does not build/run; correspondence not evaluated: " + getattr(driver, "error", "")[:500])
    else:
        for (name, t, i, a, x, real), ans in zip(expect, answers):
            res.traces += 1
            if "/" not in ans:
                res.disagree("model-answer", dict(elem=name, table=t, i=i, a=a, answer=ans))
                continue
            model = parse_frac(ans)
            if not (abs(model - real) <= Fraction(1, 10**10) * (1 + abs(model))):
                res.disagree("table-value", dict(elem=name, table=t, i=i, a=a, point=[str(c) for c in x], model=str(model), real=float(real)))
        for k in (0, len(lines) // 2, len(lines) - 1):
            res.sample(dict(request=lines[k], model=answers[k], real=float(expect[k][5])))
    res.search_note = "exact oracle (Lagrange differentiation on 13 rational nodes, all entries) found no violated identity on the real callables"
    res.write("every entry of every table of the 19 Lagrange and 8 beam classes, at seeded random dyadic points and at the Gauss points; "
              "a case is non-trivial when the expected value/derivative is non-zero; distinct = distinct (class, check, entry, point)")


if __name__ == "__main__":
    from tools.harness._common import run

    run(main)
