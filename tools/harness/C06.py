"""C06 harness: (A) correspondence model <-> real lambdas, including the evaluation
glue Get_*_pg; (B) the property itself on the real callables with an exact,
translator-independent oracle (Lagrange interpolation of black-box polynomials)."""

from __future__ import annotations

import itertools
from fractions import Fraction

import numpy as np

from tools.harness._common import Driver, Result, frac_str, parse_args, parse_frac, rng_for

from EasyFEA.FEM import ElemType, MatrixType
from EasyFEA.FEM._group_elem import GroupElemFactory
from EasyFEA.FEM.Elems import _beam

TABLES = ["N", "dN", "ddN", "dddN", "ddddN"]
HTABLES = ["N", "dN", "ddN", "dddN"]
DEG = 12  # more sample points than any plausible polynomial degree


def make_group(name):
    et = ElemType(name)
    gid, nPe, dim = GroupElemFactory.DICT_ELEMTYPE[et][:3]
    cls = GroupElemFactory.GROUP_CLASS_MAP[et]
    tmp = cls(gid, np.zeros((0, nPe), dtype=int), np.zeros((0, 3)))
    loc = np.asarray(tmp.Get_Local_Coords(), dtype=float)
    coords = np.zeros((nPe, 3))
    coords[:, : loc.shape[1]] = loc
    return cls(gid, np.arange(nPe, dtype=int).reshape(1, -1), coords)


def make_beam(cname):
    cls = getattr(_beam, cname)
    seg = "SEG" + cname[-1]
    et = ElemType(seg)
    gid, nPe, dim = GroupElemFactory.DICT_ELEMTYPE[et][:3]
    g = make_group(seg)
    return cls(gid, g.connect, g.coord)


def tables_of(g):
    return dict(N=g._N(), dN=g._dN(), ddN=g._ddN(), dddN=g._dddN(), ddddN=g._ddddN())


def htables_of(g):
    return dict(N=g._Hermitian_N(), dN=g._Hermitian_dN(), ddN=g._Hermitian_ddN(), dddN=g._Hermitian_dddN())


def call(f, x):
    """Value of a table entry at a rational point, as an exact Fraction of whatever
    number type the lambda returns (floats are exact binary rationals)."""
    v = f(*x)
    if isinstance(v, Fraction):
        return v
    if isinstance(v, (int, np.integer)):
        return Fraction(int(v))
    return Fraction(float(v))


def deriv_exact(f, x, a):
    """Exact derivative of the black-box polynomial t -> f(x + t e_a) at t=0 by
    Lagrange differentiation on DEG+1 symmetric rational nodes."""
    ts = [Fraction(k, 8) for k in range(-(DEG // 2), DEG // 2 + 1)]
    vals = []
    for t in ts:
        y = list(x)
        y[a] = y[a] + t
        vals.append(call(f, y))
    # derivative at 0 of the interpolating polynomial
    d = Fraction(0)
    for j, tj in enumerate(ts):
        # l_j'(0) = sum_{m != j} 1/(tj - tm) * prod_{k != j,m} (0 - tk)/(tj - tk)
        s = Fraction(0)
        for m, tm in enumerate(ts):
            if m == j:
                continue
            p = Fraction(1) / (tj - tm)
            for k, tk in enumerate(ts):
                if k == j or k == m:
                    continue
                p *= (0 - tk) / (tj - tk)
            s += p
        d += vals[j] * s
    return d


def mons_of(name, dim, order):
    allm = list(itertools.product(range(order + 1), repeat=dim))
    if name in ("QUAD4", "QUAD9", "HEXA8", "HEXA27"):
        return allm
    if name in ("PRISM6", "PRISM18"):
        return [m for m in allm if m[0] + m[1] <= order]
    return [m for m in allm if sum(m) <= order]


def rand_point(rng, dim):
    return [Fraction(rng.randint(-16, 16), 16) for _ in range(dim)]


def main():
    args = parse_args()
    rng = rng_for(args)
    res = Result(args)
    npts = 3 if args.tier == "quick" else 10
    if args.search:
        npts = 12
    TOL = Fraction(1, 10**10)

    names = [e.name for e in ElemType if e.name != "POINT"]
    beams = ["EULER_BERNOULLI%d" % k for k in (2, 3, 4, 5)] + ["TIMOSHENKO%d" % k for k in (2, 3, 4, 5)]
    driver = Driver("C06")
    lines, expect = [], []

    # ---------------- (B) property oracle on the real callables ----------------
    for name in names:
        g = make_group(name)
        dim, nPe, order = g.dim, g.nPe, g.order
        T = tables_of(g)
        nodes = [[Fraction(float(c)) for c in row] for row in np.asarray(g.Get_Local_Coords(), dtype=float)]
        res.count("elem:" + name)
        for t in TABLES:
            if T[t].shape != (nPe, 1 if t == "N" else dim):
                res.fail(f"elem={name} table={t} shape", f"{name}._{t}() has shape {T[t].shape}", dict(elem=name, table=t))
        # Kronecker
        for i in range(nPe):
            for j in range(nPe):
                v = call(T["N"][i, 0], nodes[j])
                res.case((name, "kron", i, j), nontrivial=True)
                if abs(v - (1 if i == j else 0)) > TOL:
                    res.fail(f"elem={name} kronecker i={i} j={j}", f"N_{i}(x_{j}) = {float(v)} on {name}",
                             dict(elem=name, i=i, j=j, node=[str(c) for c in nodes[j]], value=str(v)))
        pts = [rand_point(rng, dim) for _ in range(npts)]
        for x in pts:
            # partition of unity
            s = sum(call(T["N"][i, 0], x) for i in range(nPe))
            res.case((name, "pou", tuple(x)))
            if abs(s - 1) > TOL:
                res.fail(f"elem={name} partition-of-unity", f"sum N_i = {float(s)} at {x} on {name}",
                         dict(elem=name, point=[str(c) for c in x], value=str(s)))
            # reproduction of the polynomial space
            for m in mons_of(name, dim, order):
                mono = lambda y: np.prod([y[k] ** m[k] for k in range(dim)]) if dim else 1  # noqa: E731
                lhs = sum(Fraction(mono(nodes[i])) * call(T["N"][i, 0], x) for i in range(nPe))
                res.case((name, "repro", m, tuple(x)), nontrivial=sum(m) > 0)
                if abs(lhs - Fraction(mono(x))) > TOL:
                    res.fail(f"elem={name} reproduces monomial={m}", f"interpolant of x^{m} is {float(lhs)} at {x} on {name}",
                             dict(elem=name, monomial=list(m), point=[str(c) for c in x], value=str(lhs)))
        # derivative tables vs exact derivative of the previous table (all entries)
        for lvl in range(1, 5):
            prev, nxt = TABLES[lvl - 1], TABLES[lvl]
            for i in range(nPe):
                for a in range(dim):
                    fprev = T[prev][i, 0] if prev == "N" else T[prev][i, a]
                    for x in pts[: max(2, npts // 2)]:
                        d = deriv_exact(fprev, x, a)
                        v = call(T[nxt][i, a], x)
                        res.case((name, nxt, i, a, tuple(x)), nontrivial=(d != 0))
                        if abs(d - v) > Fraction(1, 10**8) * (1 + abs(d)):
                            res.fail(f"elem={name} table={nxt} entry={i},{a}",
                                     f"{name}._{nxt}()[{i}][{a}] = {float(v)} but d/dxi_{a} of _{prev}()[{i}] = {float(d)} at {x}",
                                     dict(elem=name, table=nxt, i=i, a=a, point=[str(c) for c in x], tabulated=str(v), derivative=str(d)))
        # ---------------- (A) correspondence: model value vs real lambda ----------------
        for t in TABLES:
            for i in range(nPe):
                for a in range(1 if t == "N" else dim):
                    for x in pts:
                        lines.append(f"E {name} {t} {i} {a} " + " ".join(frac_str(c) for c in x))
                        expect.append((name, t, i, a, x, call(T[t][i, 0 if t == "N" else a], x)))
        # glue: Get_*_pg layout (nPg, dim, nPe) at the Gauss points of both rules
        for mt in (MatrixType.rigi, MatrixType.mass):
            gp = np.asarray(g.Get_gauss(mt).coord, dtype=float)
            arrs = dict(N=g.Get_N_pg(mt), dN=g.Get_dN_pg(mt), ddN=g.Get_ddN_pg(mt), dddN=g.Get_dddN_pg(mt), ddddN=g.Get_ddddN_pg(mt))
            for t, arr in arrs.items():
                nf = 1 if t == "N" else dim
                if arr.shape != (gp.shape[0], nf, nPe):
                    res.disagree("Get_%s_pg shape" % t, dict(elem=name, shape=list(arr.shape)))
                    continue
                for p in range(gp.shape[0]):
                    x = [Fraction(float(c)) for c in gp[p, :dim]]
                    for i in range(nPe):
                        for a in range(nf):
                            # the evaluated array must hold the value of the k-th table (which (B) ties to
                            # the k-th derivative of _N) at the Gauss point, in the (nPg, dim, nPe) layout
                            want = call(T[t][i, 0 if t == "N" else a], x)
                            got = Fraction(float(arr[p, a, i]))
                            res.case((name, "glue", t, str(mt), p, i, a), nontrivial=(want != 0))
                            if abs(want - got) > Fraction(1, 10**9) * (1 + abs(want)):
                                res.fail(f"elem={name} glue=Get_{t}_pg",
                                         f"{name}.Get_{t}_pg({mt})[{p},{a},{i}] = {float(got)} but _{t}()[{i}][{a}] at that Gauss point = {float(want)}",
                                         dict(elem=name, getter=f"Get_{t}_pg", matrixType=str(mt), gauss_point=p, i=i, a=a, got=float(got), want=float(want)))
                            if p < (2 if args.tier == "quick" else gp.shape[0]):
                                lines.append(f"E {name} {t} {i} {a} " + " ".join(frac_str(c) for c in x))
                                expect.append((name, "Get_%s_pg[%s]" % (t, mt), i, a, x, got))

    for cname in beams:
        g = make_beam(cname)
        nPe = g.nPe
        T = htables_of(g)
        nodes = [Fraction(float(c)) for c in np.asarray(g.Get_Local_Coords(), dtype=float)[:, 0]]
        res.count("hermite:" + cname)
        eps = Fraction(0) if cname[-1] in "23" else Fraction(1, 10**12)
        eps = max(eps, Fraction(1, 10**13))  # float evaluation noise of the real lambdas
        for t in HTABLES:
            if T[t].shape != (2 * nPe, 1):
                res.fail(f"hermite={cname} table={t} shape", f"shape {T[t].shape}", dict(elem=cname, table=t))
        for i in range(nPe):
            for j in range(nPe):
                d = 1 if i == j else 0
                vals = dict(
                    phi=call(T["N"][2 * i, 0], [nodes[j]]) - d,
                    dphi=call(T["dN"][2 * i, 0], [nodes[j]]),
                    psi=call(T["N"][2 * i + 1, 0], [nodes[j]]),
                    dpsi=2 * call(T["dN"][2 * i + 1, 0], [nodes[j]]) - d,
                )
                for k, v in vals.items():
                    res.case((cname, k, i, j))
                    if abs(v) > eps:
                        res.fail(f"hermite={cname} interpolation {k} i={i} j={j}", f"{k} condition off by {float(v)}",
                                 dict(elem=cname, cond=k, i=i, j=j, value=str(v)))
        pts = [rand_point(rng, 1) for _ in range(npts)]
        for lvl in range(1, 4):
            prev, nxt = HTABLES[lvl - 1], HTABLES[lvl]
            for i in range(2 * nPe):
                for x in pts[: max(2, npts // 2)]:
                    d = deriv_exact(T[prev][i, 0], x, 0)
                    v = call(T[nxt][i, 0], x)
                    res.case((cname, nxt, i, tuple(x)), nontrivial=(d != 0))
                    if abs(d - v) > Fraction(1, 10**7) * (1 + abs(d)):
                        res.fail(f"hermite={cname} table={nxt} entry={i}",
                                 f"{cname}._Hermitian_{nxt}()[{i}] = {float(v)} but derivative of _{prev}[{i}] = {float(d)} at {x}",
                                 dict(elem=cname, table=nxt, i=i, point=[str(c) for c in x], tabulated=str(v), derivative=str(d)))
        for t in HTABLES:
            for i in range(2 * nPe):
                for x in pts:
                    lines.append(f"H {cname} {t} {i} " + frac_str(x[0]))
                    expect.append((cname, "H" + t, i, 0, x, call(T[t][i, 0], x)))
        # glue: Get_Hermitian_*_pg
        gp = np.asarray(g.Get_gauss(MatrixType.beam).coord, dtype=float)
        arrs = dict(N=g.Get_Hermitian_N_pg(), dN=g.Get_Hermitian_dN_pg(), ddN=g.Get_Hermitian_ddN_pg(), dddN=g.Get_Hermitian_dddN_pg())
        for t, arr in arrs.items():
            if arr.shape != (gp.shape[0], 1, 2 * nPe):
                res.disagree("Get_Hermitian_%s_pg shape" % t, dict(elem=cname, shape=list(arr.shape)))
                continue
            for p in range(gp.shape[0]):
                x = [Fraction(float(gp[p, 0]))]
                for i in range(2 * nPe):
                    want = call(T[t][i, 0], x)
                    got = Fraction(float(arr[p, 0, i]))
                    res.case((cname, "glue", t, p, i), nontrivial=(want != 0))
                    if abs(want - got) > Fraction(1, 10**9) * (1 + abs(want)):
                        res.fail(f"hermite={cname} glue=Get_Hermitian_{t}_pg",
                                 f"{cname}.Get_Hermitian_{t}_pg()[{p},0,{i}] = {float(got)} but _Hermitian_{t}()[{i}] there = {float(want)}",
                                 dict(elem=cname, getter=f"Get_Hermitian_{t}_pg", gauss_point=p, i=i, got=float(got), want=float(want)))
                    if p < (2 if args.tier == "quick" else gp.shape[0]):
                        lines.append(f"H {cname} {t} {i} " + frac_str(x[0]))
                        expect.append((cname, "Get_Hermitian_%s_pg" % t, i, 0, x, got))

    answers = driver.ask(lines)
    if answers is None:
        res.disagree("driver", "the generated model does not build/run; correspondence not evaluated: " + getattr(driver, "error", "")[:500])
    else:
        for (name, t, i, a, x, real), ans in zip(expect, answers):
            res.traces += 1
            if "/" not in ans:
                res.disagree("model-answer", dict(elem=name, table=t, i=i, a=a, answer=ans))
                continue
            model = parse_frac(ans)
            if abs(model - real) > Fraction(1, 10**10) * (1 + abs(model)):
                res.disagree("table-value", dict(elem=name, table=t, i=i, a=a, point=[str(c) for c in x], model=str(model), real=float(real)))
        for k in (0, len(lines) // 2, len(lines) - 1):
            res.sample(dict(request=lines[k], model=answers[k], real=float(expect[k][5])))
    res.search_note = "exact oracle (Lagrange differentiation on 13 rational nodes, all entries) found no violated identity on the real callables"
    res.write("every entry of every table of the 19 Lagrange and 8 beam classes, at seeded random dyadic points and at the Gauss points; "
              "a case is non-trivial when the expected value/derivative is non-zero; distinct = distinct (class, check, entry, point)")


if __name__ == "__main__":
    from tools.harness._common import run

    run(main)
