"""C03 harness.
Histories of assemblies on real simulations whose `Construct_local_matrix_system` is overridden to
return prescribed small-integer (possibly complex) element arrays for arbitrary groups:
 (B) property oracle: dense scatter-add computed directly from the connectivity vs simu.Assembly /
     _Simu.__Assemble_csr (exact comparison: integers), and node renumbering of a real problem;
 (A) correspondence: the Lean model (drivers/C03.lean) receives the same groups and must return the
     same CSR pattern, the same element->slot map and the same coefficients."""

from __future__ import annotations

import numpy as np

from tools.harness._common import Driver, Result, parse_args, rng_for
from tools.harness import _meshes as M

from EasyFEA import Models, Simulations
from EasyFEA.FEM import Mesh, ElemType
from EasyFEA.FEM._group_elem import GroupElemFactory


def dense_scatter(groups_data, dof_n, ndof, is_matrix):
    """independent oracle: explicit loops from the connectivity (dof = node*dof_n + component)"""
    out = np.zeros((ndof, ndof) if is_matrix else (ndof, 1), dtype=complex)
    for g, X in groups_data:
        if X is None:
            continue
        conn = np.asarray(g.connect)
        for e in range(conn.shape[0]):
            a = [int(n) * dof_n + d for n in conn[e] for d in range(dof_n)]
            if is_matrix:
                for r, ar in enumerate(a):
                    for c, ac in enumerate(a):
                        out[ar, ac] += X[e, r, c]
            else:
                for r, ar in enumerate(a):
                    out[ar, 0] += X[e, r].ravel()[0] if np.ndim(X[e, r]) else X[e, r]
    return out


def rand_array(rng, shape, complex_):
    a = np.array([rng.randint(-5, 5) for _ in range(int(np.prod(shape)))], dtype=float).reshape(shape)
    if complex_:
        b = np.array([rng.randint(-3, 3) for _ in range(int(np.prod(shape)))], dtype=float).reshape(shape)
        a = a + 1j * b
    # the same values in the memory layouts element operators produce: C order, Fortran order, the layout einsum returns for
    # '...ij' built from '...ji' (the transposed view is the contiguous one), a strided view of a larger buffer
    layout = rng.choice(["C", "C", "F", "transposed-contiguous", "strided"])
    if layout == "F":
        a = np.asfortranarray(a)
    elif layout == "transposed-contiguous" and len(shape) == 3:
        a = np.ascontiguousarray(a.swapaxes(1, 2)).swapaxes(1, 2)
    elif layout == "strided":
        big = np.zeros(tuple(2 * n for n in shape), dtype=a.dtype)
        view = big[tuple(slice(None, None, 2) for _ in shape)]
        view[...] = a
        a = view
    # ... and in the array type the library's own operators return: a FeArray keeps the memory layout of the array it views
    if len(shape) == 3 and rng.random() < 0.3:
        from EasyFEA.FEM._linalg import FeArray
        a = FeArray.asfearray(a)
    return a


def request_line(groups_data, dof_n, ndof, is_matrix):
    toks = ["asm", "1" if is_matrix else "0", str(dof_n), str(ndof), str(len(groups_data))]
    for g, X in groups_data:
        conn = np.asarray(g.connect)
        toks += [str(conn.shape[0]), str(conn.shape[1]), "0" if X is None else "1"]
        toks += [str(int(v)) for v in conn.ravel()]
        if X is not None:
            flat = np.asarray(X).reshape(conn.shape[0], -1)
            for v in flat.ravel():
                toks += [str(int(round(v.real))), str(int(round(v.imag)))]
    return " ".join(toks)


def make_sim(rng, kind, et):
    mesh = M.mesh_of(et)
    if kind == "thermal":
        base, model = Simulations.Thermal, Models.Thermal(1.0, 1.0)
    else:
        base, model = Simulations.Elastic, Models.Elastic.Isotropic(mesh.dim, E=1.0, v=0.25)

    class Harnessed(base):
        _harness_dict = None

        def Construct_local_matrix_system(self, problemType):
            if self._harness_dict is None:
                return super().Construct_local_matrix_system(problemType)
            return self._harness_dict

    return Harnessed(mesh, model), mesh


def permuted_mesh(mesh, rng):
    """the same mesh with its nodes renumbered at random: same sizes, other connectivity"""
    Nn = mesh.Nn
    perm = list(range(Nn))
    rng.shuffle(perm)
    perm = np.array(perm)
    coord2 = np.zeros_like(mesh.coord)
    coord2[perm] = mesh.coord
    return Mesh({g.elemType: GroupElemFactory.Create(g.elemType, perm[np.asarray(g.connect)], coord2) for g in mesh.dict_groupElem.values()})


def main():
    args = parse_args()
    rng = rng_for(args)
    res = Result(args)
    driver = Driver("C03")
    nhist = 6 if args.tier == "quick" else 24
    if args.search:
        nhist = 20
    lines, expect = [], []
    small_types = ["TRI3", "QUAD4", "TRI6", "TETRA4", "PRISM6", "HEXA8", "SEG2", "SEG3", "QUAD8"]

    for h in range(nhist):
        et = rng.choice(small_types)
        kind = "thermal" if (M.dim_of(et) == 1 or rng.random() < 0.5) else "elastic"
        simu, mesh = make_sim(rng, kind, et)
        pt = simu.problemType
        dof_n = simu.Get_dof_n(pt)
        history = []
        nops = 5 if args.tier == "quick" else 9
        for op in range(nops):
            kind_op = rng.choice(["assembly", "assembly", "direct", "reorder", "newmesh", "permmesh"]) if op != 2 else "permmesh"
            if kind_op == "permmesh" and op > 0:
                # same node / element counts, other connectivity: a pattern cached on sizes alone would be stale
                mesh = permuted_mesh(mesh, rng)
                simu.mesh = mesh
                history.append("renumbered-mesh")
                continue
            if kind_op == "newmesh" and op > 0:
                sz = rng.choice([dict(), dict(h=0.75)] if M.dim_of(et) == 2 else [dict()])
                mesh = M.mesh_of(et, **sz) if sz else M.mesh_of(et)
                simu.mesh = mesh
                history.append("newmesh")
                continue
            Nn = mesh.Nn
            groups = list(mesh.Get_list_groupElem(mesh.dim))
            if mesh.dim > 1:
                groups += list(mesh.Get_list_groupElem(mesh.dim - 1))
            if kind_op == "reorder" or not (rng.random() >= 0.3):
                groups = groups[::-1]
            cplx = rng.random() < 0.3
            forced = {1: "real-first", 3: "complex-first"}.get(op) if h % 2 == 0 else None   # mixed real / complex groups in both orders
            if forced:
                cplx = True
            d = {}
            for gi, g in enumerate(groups):
                nd = g.nPe * dof_n
                slots = []
                for s in range(4):
                    present = rng.random() < (0.8 if g.dim == mesh.dim else 0.5) or bool(forced)
                    if not present or g.Ne == 0:
                        slots.append(None)
                        continue
                    # a group may be real while another is complex
                    c = cplx and (rng.random() < 0.6)
                    if forced:
                        c = (gi > 0) if forced == "real-first" else (gi == 0)
                    slots.append(rand_array(rng, (g.Ne, nd, nd) if s < 3 else (g.Ne, nd, 1), c))
                d[g] = tuple(slots)
            if all(all(s is None for s in v) for v in d.values()):
                continue
            simu._harness_dict = d
            history.append(kind_op + ("(complex)" if cplx else ""))
            ident = dict(history=h, op=op, ops=list(history), elemType=et, sim=kind, dof_n=int(dof_n), Nn=int(Nn),
                         groups=[(g.elemType.name, int(g.Ne)) for g in groups],
                         slots=[[s is not None for s in v] for v in d.values()])
            if kind_op == "direct":
                extra = rng.choice([0, 1, 3])
                ndof = Nn * dof_n + extra
                outs = []
                for s in range(4):
                    sub = {g: v[s] for g, v in d.items()}
                    outs.append(simu._Simu__Assemble_csr(sub, dof_n, ndof, s < 3))
            else:
                ndof = Nn * dof_n
                outs = list(simu.Assembly(pt))
            for s, A in enumerate(outs):
                is_matrix = s < 3
                gd = [(g, v[s]) for g, v in d.items()]
                want = dense_scatter(gd, dof_n, ndof, is_matrix)
                got = A.toarray().astype(complex)
                nontrivial = any(x is not None for _, x in gd)
                res.case((h, op, s), nontrivial=nontrivial)
                res.count(f"slot{'KCMF'[s]}:{'present' if nontrivial else 'absent'}")
                if got.shape != want.shape or not (np.abs(got - want).max() <= 1e-9):
                    bad = np.argwhere(np.abs(got - want) > 1e-9)[:3].tolist() if got.shape == want.shape else "shape"
                    res.fail(f"assembly slot={'KCMF'[s]} sim={kind} elem={et}",
                             f"{'KCMF'[s]} assembled by {'__Assemble_csr' if kind_op == 'direct' else 'Assembly'} differs from the scatter-add of the element arrays at {bad} "
                             f"(max dev {np.abs(got - want).max() if got.shape == want.shape else 'n/a'})", ident)
                if nontrivial and not (len(lines) >= (60 if args.tier == "quick" else 300)) and ndof <= 60:
                    lines.append(request_line(gd, dof_n, ndof, is_matrix))
                    Ac = A.tocsr()
                    Ac.sort_indices()
                    ncol = ndof if is_matrix else 1
                    keys = (np.repeat(np.arange(Ac.shape[0]), np.diff(Ac.indptr)) * ncol + Ac.indices).tolist()
                    gl = tuple(g for g, x in gd if x is not None)
                    try:
                        inv = simu._Simu__Get_csr_map(dof_n, is_matrix, ndof, gl)[0].tolist()
                    except Exception as ex:  # noqa: BLE001
                        inv = "error: " + repr(ex)
                    expect.append((ident, s, ncol, keys, inv, Ac.data.astype(complex)))
        res.sample(dict(history=h, sim=kind, elemType=et, ops=history))

    # ---------- going back and forth in the mesh history: two meshes of the same element type and the same sizes, numbered differently ----------
    for et in (["TRI3", "QUAD4"] if args.tier == "quick" else ["TRI3", "QUAD4", "TETRA4", "TRI6"]):
        for kind in ("thermal", "elastic"):
            simu, mesh1 = make_sim(rng, kind, et)
            pt = simu.problemType
            dof_n = simu.Get_dof_n(pt)
            mesh2 = permuted_mesh(mesh1, rng)
            identH = dict(scenario="mesh history", elemType=et, sim=kind, ops=["assemble on mesh 1", "Save_Iter", "simu.mesh = renumbered mesh", "assemble", "Save_Iter", "Set_Iter(0)", "assemble", "Set_Iter(1)", "assemble"])

            def values_for(mesh_):
                d_ = {}
                for g in mesh_.Get_list_groupElem(mesh_.dim):
                    nd = g.nPe * dof_n
                    d_[g] = (rand_array(rng, (g.Ne, nd, nd), False), rand_array(rng, (g.Ne, nd, nd), False), rand_array(rng, (g.Ne, nd, nd), False), rand_array(rng, (g.Ne, nd, 1), False))
                return d_

            def check(mesh_, d_, stage):
                simu._harness_dict = d_
                simu.Need_Update()
                outs = list(simu.Get_K_C_M_F(pt))
                ndof = mesh_.Nn * dof_n
                for s_, A in enumerate(outs):
                    want = dense_scatter([(g, v[s_]) for g, v in d_.items()], dof_n, ndof, s_ < 3)
                    got = A.toarray().astype(complex)
                    res.case(("mesh-history", et, kind, stage, s_))
                    if got.shape != want.shape or not (np.abs(got - want).max() <= 1e-9):
                        res.fail(f"assembly after a move in the mesh history slot={'KCMF'[s_]} sim={kind} elem={et}",
                                 f"{stage}: {'KCMF'[s_]} of Get_K_C_M_F differs from the scatter-add of the element arrays on the current mesh "
                                 f"(max dev {np.abs(got - want).max() if got.shape == want.shape else 'shape'})", dict(identH, stage=stage))
                        return False
                return True
            try:
                d1, d2 = values_for(mesh1), values_for(mesh2)
                ok = check(mesh1, d1, "first assembly on mesh 1")
                simu._harness_dict = None
                simu.Save_Iter()
                simu.mesh = mesh2
                ok = ok and check(mesh2, d2, "first assembly on the renumbered mesh")
                simu._harness_dict = None
                simu.Save_Iter()
                simu.Set_Iter(0)
                ok = ok and simu.mesh is mesh1 and check(mesh1, d1, "after Set_Iter(0): back on mesh 1")
                simu.Set_Iter(1)
                ok = ok and check(mesh2, d2, "after Set_Iter(1): the renumbered mesh again")
                res.count("mesh-history:" + ("ok" if ok else "failed"))
            except Exception as ex:  # noqa: BLE001
                res.fail(f"assembly after a move in the mesh history raises sim={kind} elem={et}", f"{type(ex).__name__}: {str(ex)[:200]}", identH)

    # ---------- element values in any unit system: the scatter-add is linear, a slot of tiny (or huge) entries is assembled like any other ----------
    # own random stream: the histories above and the renumbering below keep theirs
    import random as _random
    rngU = _random.Random(args.seed * 104729 + 3)
    for et_u, kind_u in (("TRI3", "elastic"), ("QUAD4", "thermal"), ("TETRA4", "thermal"), ("SEG2", "thermal")):
        try:
            simU, meshU = make_sim(rngU, kind_u, et_u)
            ptU = simU.problemType
            dofU = simU.Get_dof_n(ptU)
            ndofU = meshU.Nn * dofU
            groupsU = list(meshU.Get_list_groupElem(meshU.dim))
            if meshU.dim > 1:
                groupsU += list(meshU.Get_list_groupElem(meshU.dim - 1))
            groupsU = [g for g in groupsU if g.Ne > 0]
            # each step gives the power-of-two unit of each slot (K, C, M, F) and of the boundary groups relative to the bulk:
            # integers times a power of two add up exactly, so the comparison stays exact whatever the unit
            steps = [(0, 0, 0, 0, 0), (17, -30, -47, 3, 0), (-60, -60, -60, -60, 0), (0, 0, -45, -28, -35), (55, 20, 0, 70, 0),
                     tuple(rngU.choice([-70, -50, -34, -27, -20, 0, 25, 64]) for _ in range(4)) + (rngU.choice([0, -30, 30]),), (0, 0, 0, 0, 0)]
            for st, units in enumerate(steps):
                cplxU = st in (3, 5) and rngU.random() < 0.5
                dU = {}
                for g in groupsU:
                    nd = g.nPe * dofU
                    ub = units[4] if g.dim < meshU.dim else 0
                    dU[g] = tuple(rand_array(rngU, (g.Ne, nd, nd) if s < 3 else (g.Ne, nd, 1), cplxU) * 2.0 ** (units[s] + ub) for s in range(4))
                simU._harness_dict = dU
                identU = dict(scenario="units", elemType=et_u, sim=kind_u, dof_n=int(dofU), Nn=int(meshU.Nn), step=st,
                              log2_units=dict(K=units[0], C=units[1], M=units[2], F=units[3], boundary_groups=units[4]),
                              groups=[(g.elemType.name, int(g.Ne)) for g in groupsU], complex=bool(cplxU))
                for entry in ("Assembly", "__Assemble_csr"):
                    if entry == "Assembly":
                        outsU = list(simU.Assembly(ptU))
                    else:
                        outsU = [simU._Simu__Assemble_csr({g: v[s] for g, v in dU.items()}, dofU, ndofU, s < 3) for s in range(4)]
                    for s, A in enumerate(outsU):
                        wantU = dense_scatter([(g, v[s]) for g, v in dU.items()], dofU, ndofU, s < 3)
                        gotU = A.toarray().astype(complex)
                        res.case(("units", et_u, st, entry, s))
                        res.count(f"units:slot{'KCMF'[s]}")
                        tolU = 1e-9 * 2.0 ** (units[s] + min(units[4], 0))
                        if gotU.shape != wantU.shape or not (np.abs(gotU - wantU).max() <= tolU):
                            dev = np.abs(gotU - wantU).max() if gotU.shape == wantU.shape else float("nan")
                            res.fail(f"assembly of element values in small or large units slot={'KCMF'[s]}",
                                     f"{entry}: element entries are integers times 2^{units[s]} (boundary groups times 2^{units[4]} more); {'KCMF'[s]} differs from their scatter-add by {dev:.3e} "
                                     f"(largest expected entry {np.abs(wantU).max():.3e}, non-zeros got {int(np.count_nonzero(gotU))} / expected {int(np.count_nonzero(wantU))})", dict(identU, entry=entry))
        except Exception as ex:  # noqa: BLE001
            res.fail("assembly of element values in small or large units raises", f"{type(ex).__name__}: {str(ex)[:200]}", dict(scenario="units", elemType=et_u, sim=kind_u))

    # the same with the element matrices of real problems written in SI units at several length scales (a micro-plate has masses of 1e-14 kg
    # next to a stiffness of 1e5 N/m): every slot against the scatter-add of Construct_local_matrix_system, relative to the slot's own size
    for L_u in (1.0, 1e-5, 1e-8, 1e4):
        for kind_u in ("elastic", "thermal"):
            identP = dict(scenario="SI units", sim=kind_u, elemType="TRI3", L=L_u)
            try:
                nU = 4
                xsU, ysU = np.meshgrid(np.linspace(0, L_u, nU + 1), np.linspace(0, L_u, nU + 1), indexing="ij")
                coordU = np.c_[xsU.ravel(), ysU.ravel(), np.zeros(xsU.size)]
                iU = np.arange((nU + 1) ** 2).reshape(nU + 1, nU + 1)
                aU, bU, cU, eU = iU[:-1, :-1].ravel(), iU[1:, :-1].ravel(), iU[1:, 1:].ravel(), iU[:-1, 1:].ravel()
                meshP = Mesh({ElemType.TRI3: GroupElemFactory.Create(ElemType.TRI3, np.vstack([np.c_[aU, bU, cU], np.c_[aU, cU, eU]]), coordU)})
                if kind_u == "elastic":
                    simP = Simulations.Elastic(meshP, Models.Elastic.Isotropic(2, E=210e9, v=0.3, planeStress=True, thickness=L_u / 10))
                    simP.rho = 7800.0
                    simP.Set_Rayleigh_Damping_Coefs(coefM=1e-3, coefK=1e-9)
                    simP.Solver_Set_Hyperbolic_Algorithm(dt=1e-9)
                else:
                    simP = Simulations.Thermal(meshP, Models.Thermal(k=45.0, c=480.0, thickness=L_u / 10))
                    simP.rho = 7800.0
                    simP.Solver_Set_Parabolic_Algorithm(dt=1e-6)
                ptP = simP.problemType
                dofP = simP.Get_dof_n(ptP)
                ndofP = meshP.Nn * dofP
                locP = simP.Construct_local_matrix_system(ptP)
                for entry in ("Assembly", "Get_K_C_M_F", "Get_K_C_M_F again"):
                    matsP = simP.Assembly(ptP) if entry == "Assembly" else simP.Get_K_C_M_F(ptP)
                    for s in range(4):
                        dataP = [(g, np.asarray(X[s])) for g, X in locP.items() if X[s] is not None]
                        if not dataP:
                            continue
                        wantP = dense_scatter(dataP, dofP, ndofP, s < 3).real
                        gotP = matsP[s].toarray()[:ndofP, : (ndofP if s < 3 else 1)]
                        res.case(("SI-units", kind_u, L_u, entry, s))
                        res.count("SI-units")
                        scaleP = np.abs(wantP).max()
                        if gotP.shape != wantP.shape or not (np.abs(gotP - wantP).max() <= 1e-12 * scaleP):
                            dev = np.abs(gotP - wantP).max() if gotP.shape == wantP.shape else float("nan")
                            res.fail(f"assembly of a problem in SI units slot={'KCMF'[s]} sim={kind_u}",
                                     f"{entry}: plate of side {L_u:g} m, thickness {L_u / 10:g} m: {'KCMF'[s]} differs from the scatter-add of the element matrices by {dev:.3e} "
                                     f"(largest entry of the scatter-add {scaleP:.3e}, non-zeros got {int(np.count_nonzero(gotP))} / expected {int(np.count_nonzero(wantP))})", dict(identP, entry=entry))
            except Exception as ex:  # noqa: BLE001
                res.fail(f"assembly of a problem in SI units raises sim={kind_u}", f"{type(ex).__name__}: {str(ex)[:200]}", identP)

    # ---------- a system large enough for row * Ndof + col to exceed 2^31 (Ndof > 46340) ----------
    try:
        import scipy.sparse as _sp
        nx = 161                                     # 161 x 161 nodes, 2 dofs per node: Ndof = 51842
        xs_, ys_ = np.meshgrid(np.linspace(0, 4, nx), np.linspace(0, 4, nx), indexing="ij")
        coordL = np.c_[xs_.ravel(), ys_.ravel(), np.zeros(nx * nx)]
        idx = np.arange(nx * nx).reshape(nx, nx)
        a_, b_, c_, d_ = idx[:-1, :-1].ravel(), idx[1:, :-1].ravel(), idx[1:, 1:].ravel(), idx[:-1, 1:].ravel()
        connL = np.vstack([np.c_[a_, b_, c_], np.c_[a_, c_, d_]])
        meshL = Mesh({ElemType.TRI3: GroupElemFactory.Create(ElemType.TRI3, connL, coordL)})
        simL = Simulations.Elastic(meshL, Models.Elastic.Isotropic(2, E=1.0, v=0.25))
        simL.rho = 1.0
        K_L, _, M_L, _ = simL.Get_K_C_M_F()
        gL = meshL.groupElem
        loc = simL.Construct_local_matrix_system(simL.problemType)[gL]
        dofsL = (np.asarray(gL.connect, dtype=np.int64)[:, :, None] * 2 + np.arange(2, dtype=np.int64)).reshape(gL.Ne, -1)
        rowsL = np.repeat(dofsL, dofsL.shape[1], axis=1).ravel()
        colsL = np.tile(dofsL, (1, dofsL.shape[1])).ravel()
        NdofL = meshL.Nn * 2
        res.case(("large-system",))
        res.count("large-system")
        for nm, got, Ke in (("K", K_L, loc[0]), ("M", M_L, loc[2])):
            if Ke is None:
                continue
            ref = _sp.coo_matrix((np.asarray(Ke).ravel(), (rowsL, colsL)), shape=(NdofL, NdofL)).tocsr()
            dif = abs(got.tocsr() - ref)
            md = dif.max() if dif.nnz else 0.0
            if not (md <= 1e-9 * (1 + abs(ref).max())):
                badrows = np.unique(dif.tocoo().row[dif.tocoo().data > 1e-9 * (1 + abs(ref).max())])
                res.fail(f"assembly of a large system slot={nm}", f"Ndof = {NdofL} (Ndof^2 > 2^31): {nm} differs from the scatter-add by {md:.3e} on {len(badrows)} rows (first {int(badrows[0])})",
                         dict(elemType="TRI3", Nn=int(meshL.Nn), Ndof=int(NdofL)))
        # the same mesh with its connectivity stored in a small integer type (meshes read from compact files): the node numbers fit
        # (Nn = 25921 < 2^15) but node * dof_n does not
        for small in (np.int16, np.uint16, np.int32):
            gS = GroupElemFactory.Create(ElemType.TRI3, connL.astype(small), coordL)
            for dof_n_ in (1, 2, 3, 6):
                res.case(("assembly-index", small.__name__, dof_n_))
                wantA = (connL.astype(np.int64)[:, :, None] * dof_n_ + np.arange(dof_n_, dtype=np.int64)).reshape(connL.shape[0], -1)
                try:
                    gotA = np.asarray(gS.Get_assembly_e(dof_n_))
                except Exception as ex:  # noqa: BLE001
                    res.fail(f"assembly indices with a {small.__name__} connectivity", f"Get_assembly_e({dof_n_}) raised {type(ex).__name__}: {str(ex)[:100]}", dict(elemType="TRI3", Nn=int(meshL.Nn), dof_n=dof_n_, connect_dtype=small.__name__))
                    continue
                if gotA.shape != wantA.shape or not np.array_equal(gotA.astype(np.int64), wantA):
                    nbad = int((gotA.astype(np.int64) != wantA).sum()) if gotA.shape == wantA.shape else -1
                    res.fail(f"assembly indices with a {small.__name__} connectivity", f"Get_assembly_e({dof_n_}): {nbad} entries differ from node * dof_n + component (Nn = {meshL.Nn}: node * dof_n exceeds the range of {small.__name__})",
                             dict(elemType="TRI3", Nn=int(meshL.Nn), dof_n=dof_n_, connect_dtype=small.__name__))
            meshS = Mesh({ElemType.TRI3: GroupElemFactory.Create(ElemType.TRI3, connL.astype(small), coordL)})
            simS = Simulations.Elastic(meshS, Models.Elastic.Isotropic(2, E=1.0, v=0.25))
            res.case(("large-system", small.__name__))
            try:
                K_S = simS.Get_K_C_M_F()[0]
                difS = abs(K_S.tocsr() - K_L.tocsr())
                mdS = difS.max() if difS.nnz else 0.0
            except Exception as ex:  # noqa: BLE001
                res.fail(f"assembly with a {small.__name__} connectivity", f"Ndof = {NdofL}: assembling raised {type(ex).__name__}: {str(ex)[:120]}", dict(elemType="TRI3", Nn=int(meshL.Nn), Ndof=int(NdofL), connect_dtype=small.__name__))
                continue
            if K_S.shape != K_L.shape or not (mdS <= 1e-9 * (1 + abs(K_L).max())):
                res.fail(f"assembly with a {small.__name__} connectivity", f"Ndof = {NdofL}: K differs from the one assembled with the same connectivity in 64-bit integers by {mdS:.3e}",
                         dict(elemType="TRI3", Nn=int(meshL.Nn), Ndof=int(NdofL), connect_dtype=small.__name__))
    except MemoryError:
        res.notes.append("large-system check skipped: not enough memory")

    # ---------- a simulation with Lagrange conditions (beam connection): structural block of K, C, M, repeated reads ----------
    try:
        from EasyFEA import Mesher as _Mesher
        from EasyFEA.Geoms import Line as _Line, Point as _Pt, Domain as _Dom
        for bdim, bet in ((2, "SEG2"), (3, "SEG3")):
            sect = _Mesher().Mesh_2D(_Dom(_Pt(), _Pt(0.5, 0.25)))
            pA, pB, pC = _Pt(0, 0, 0), _Pt(2.0, 1.0, 0.5 if bdim == 3 else 0.0), _Pt(4.0, 1.0, 0.0)
            beams_ = [Models.Beam.Isotropic(bdim, _Line(pA, pB, 1.0), sect, 1000.0, 0.25), Models.Beam.Isotropic(bdim, _Line(pB, pC, 1.0), sect, 1000.0, 0.25)]
            bm = _Mesher().Mesh_Beams(beams_, elemType=ElemType(bet))
            bs = Simulations.Beam(bm, Models.Beam.BeamStructure(beams_))
            bs.rho = 2.0
            unk_ = bs.Get_unknowns()
            bs.add_dirichlet(bs.mesh.Nodes_Point(pA), [0.0] * len(unk_), unk_)
            bs.add_connection_fixed(bs.mesh.Nodes_Point(pB))
            dofn_ = bs.Get_dof_n()
            ndof_ = bs.mesh.Nn * dofn_
            identb = dict(sim="Beam", dim=bdim, elemType=bet, lagrange=True)
            for read in ("Get_K_C_M_F", "Get_K_C_M_F again", "Assembly", "after beam.E changed"):
                if read == "after beam.E changed":
                    beams_[0].E = 1500.0
                mats_ = bs.Assembly(bs.problemType) if read == "Assembly" else bs.Get_K_C_M_F()
                loc_ = bs.Construct_local_matrix_system(bs.problemType)
                res.case(("lagrange-beam", bdim, read))
                res.count("lagrange-beam")
                for slot, nm in ((0, "K"), (2, "M")):
                    data_ = [(g_, np.asarray(X_[slot])) for g_, X_ in loc_.items() if X_[slot] is not None]
                    if not data_:
                        continue
                    want_ = dense_scatter(data_, dofn_, ndof_, True).real
                    got_ = mats_[slot].toarray()[:ndof_, :ndof_]
                    if not (np.abs(got_ - want_).max() <= 1e-9 * (1 + np.abs(want_).max())):
                        res.fail(f"assembly with Lagrange conditions slot={nm}", f"{read}: the structural block of {nm} differs from the scatter-add of the element arrays by {np.abs(got_ - want_).max():.3e} (relative to {np.abs(want_).max():.3e})", dict(identb, read=read))
                        break
    except Exception as ex:  # noqa: BLE001
        res.fail("assembly with Lagrange conditions raises", f"{type(ex).__name__}: {str(ex)[:200]}", dict(sim="Beam"))

    # ---------- the other public assembly entry point: BiLinearForm.Assemble, also for non-symmetric forms ----------
    try:
        from EasyFEA.FEM import Field as _Field, BiLinearForm as _BLF
        for fet, fdofn in (("TRI3", 1), ("QUAD4", 2)):
            fmesh = M.mesh_of(fet)
            fg = fmesh.groupElem
            fld = _Field(fg, fdofn)
            bvec = np.array([2.0, -1.0])
            if fdofn == 1:
                form_ = _BLF(lambda u, v: u.grad.dot(v.grad) + (u.grad.dot(bvec)) * v)          # diffusion + convection: not symmetric
            else:
                Acoup = np.array([[0.0, 1.0], [0.0, 0.0]])
                form_ = _BLF(lambda u, v: u.dot(v) + (u @ Acoup).dot(v))                          # x-y coupling: not symmetric
            Ke_ = np.asarray(form_.Integrate_e(fld))
            Ke_ = Ke_.reshape(Ke_.shape[0], Ke_.shape[1], Ke_.shape[2])
            want_ = dense_scatter([(fg, Ke_)], fdofn, fmesh.Nn * fdofn, True).real
            got_ = form_.Assemble(fld).toarray()
            res.case(("form-assemble", fet, fdofn))
            res.count("form-assemble")
            if not (np.abs(Ke_ - np.swapaxes(Ke_, 1, 2)).max() >= 1e-12):
                res.notes.append("form-assemble: the chosen form came out symmetric")
            if got_.shape != want_.shape or not (np.abs(got_ - want_).max() <= 1e-10 * (1 + np.abs(want_).max())):
                res.fail("BiLinearForm.Assemble is not the scatter-add of Integrate_e", f"non-symmetric form on {fet} (dof_n = {fdofn}): max difference {np.abs(got_ - want_).max():.3e}; against the transpose {np.abs(got_ - want_.T).max():.3e}", dict(elemType=fet, dof_n=fdofn))
    except Exception as ex:  # noqa: BLE001
        res.fail("BiLinearForm.Assemble raises", f"{type(ex).__name__}: {str(ex)[:200]}", dict(entry="BiLinearForm.Assemble"))

    # ---------- renumbering of a real problem ----------
    for rep in range(2 if args.tier == "quick" else 6):
        et = rng.choice(["TRI3", "QUAD4", "TRI6", "TETRA4"])
        mesh = M.mesh_of(et)
        Nn = mesh.Nn
        perm = list(range(Nn))
        rng.shuffle(perm)
        perm = np.array(perm)  # old node i -> new node perm[i]
        coord2 = np.zeros_like(mesh.coord)
        coord2[perm] = mesh.coord
        d2 = {}
        for g in mesh.dict_groupElem.values():
            d2[g.elemType] = GroupElemFactory.Create(g.elemType, perm[np.asarray(g.connect)], coord2)
        mesh2 = Mesh(d2)
        sims = []
        for m, p in ((mesh, np.arange(Nn)), (mesh2, perm)):
            s = Simulations.Thermal(m, Models.Thermal(2.0, 1.0))
            xs = m.coord[:, 0]
            left = np.where(np.isclose(xs, xs.min()))[0]
            right = np.where(np.isclose(xs, xs.max()))[0]
            s.add_dirichlet(left, [1.0], ["t"])
            s.add_dirichlet(right, [lambda x, y, z: 2.0 + y], ["t"])
            sims.append((s, s.Solve().copy(), s.Get_K_C_M_F()[0].toarray()))
        (s1, u1, K1), (s2, u2, K2) = sims
        res.case(("renumber", rep, et))
        if not (np.abs(K2[np.ix_(perm, perm)] - K1).max() <= 1e-12 * np.abs(K1).max()):
            res.fail(f"renumbering matrix elem={et}", "renumbering the nodes does not permute the assembled matrix", dict(elem=et, perm=perm.tolist()))
        if not (np.abs(u2[perm] - u1).max() <= 1e-9 * (1 + np.abs(u1).max())):
            res.fail(f"renumbering solution elem={et}", f"renumbering the nodes changes the solution (max dev {np.abs(u2[perm] - u1).max():.2e})",
                     dict(elem=et, perm=perm.tolist()))

    # ---------- correspondence with the Lean model ----------
    answers = driver.ask(lines)
    if answers is None:
        res.disagree("driver", "model driver does not run: " + getattr(driver, "error", "")[:400])
    else:
        for (ident, s, ncol, keys, inv, data), ans in zip(expect, answers):
            res.traces += 1
            parts = [p.strip() for p in ans.split("|")]
            if len(parts) != 4:
                res.disagree("model-answer", dict(ident=ident, answer=ans[:200]))
                continue
            m_ncol = int(parts[0])
            m_canon = [int(t) for t in parts[1].split()]
            m_inv = [int(t) for t in parts[2].split()]
            nums = [int(t) for t in parts[3].split()]
            m_data = np.array([complex(nums[2 * k], nums[2 * k + 1]) for k in range(len(nums) // 2)])
            if m_ncol != ncol or m_canon != keys:
                res.disagree("csr-pattern", dict(ident=ident, slot="KCMF"[s]))
            elif isinstance(inv, str) or m_inv != inv:
                res.disagree("element-to-slot-map", dict(ident=ident, slot="KCMF"[s], real=inv if isinstance(inv, str) else "differs"))
            elif m_data.shape != data.shape or not (np.abs(m_data - data).max() <= 1e-9):
                res.disagree("csr-data", dict(ident=ident, slot="KCMF"[s]))
    res.search_note = "seeded assembly histories with the dense scatter-add oracle found no misplaced, dropped or duplicated entry"
    res.write("seeded histories of assemblies (Assembly and direct __Assemble_csr with extra Lagrange rows) on Thermal/Elastic simulations of 9 element types, "
              "bulk + boundary groups in either order, absent slots, real/complex integer element arrays, mesh replacement; non-trivial = slot with at least "
              "one contributing group; distinct = distinct (history, op, slot)")


if __name__ == "__main__":
    from tools.harness._common import run

    run(main)
