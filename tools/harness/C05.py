"""C05 harness.
(A) correspondence: the four real case-table functions of _Simu (coefs, evaluation-point states,
    right-hand side, corrector) vs the generated Lean definitions executed over Q (drivers/C05.lean),
    on real K, C, M of small Elastic / Thermal simulations and seeded states/parameters.
(B) the property on the real code, with an independent hand-coded oracle of the documented schemes:
    random step sequences (switching algorithm / dt), after every Solve(): update relations,
    residual of the equation of motion on free dofs, and energy statements."""

from __future__ import annotations

from fractions import Fraction

import numpy as np

from tools.harness._common import Driver, Result, frac_str, parse_args, parse_frac, rng_for
from tools.harness import _meshes as M

from EasyFEA import Models, Simulations
from EasyFEA import AlgoType

HYPER = ["newmark", "hht", "hht_newmark", "midpoint", "euler_implicit", "euler_explicit"]


def dy(rng, lo, hi, den=16):
    """dyadic rational in [lo, hi]"""
    return rng.randint(int(lo * den), int(hi * den)) / den


def draw_params(rng, algo):
    dt = rng.choice([1 / 2, 1 / 4, 1 / 8, 1 / 16, 3 / 8])
    if algo == "parabolic":
        return dict(dt=dt, alpha=rng.choice([1 / 4, 1 / 2, 3 / 4, 1.0, 5 / 8]), beta=0.25, gamma=0.5)
    beta = rng.choice([1 / 4, 5 / 16, 3 / 8, 1 / 2, 9 / 25])
    gamma = rng.choice([1 / 2, 5 / 8, 3 / 4, 0.6])
    alpha = rng.choice([0.0, 1 / 8, 1 / 4, 0.2, 5 / 16]) if algo == "hht_newmark" else rng.choice([0.0, 1 / 8, 1 / 4, 1 / 2, 0.3, 3 / 4])
    return dict(dt=dt, alpha=alpha, beta=beta, gamma=gamma)


_AS_STRING = [0]


def set_algo(simu, algo, p):
    if algo == "parabolic":
        simu.Solver_Set_Parabolic_Algorithm(p["dt"], p["alpha"])
    else:
        # AlgoType is a str-enum: the algorithm may be named by the enum member or by its plain string, alternately
        _AS_STRING[0] += 1
        simu.Solver_Set_Hyperbolic_Algorithm(p["dt"], AlgoType(algo) if (_AS_STRING[0] % 2 and not (algo == "hht_newmark" and _AS_STRING[0] % 4 == 1)) else str(AlgoType(algo).value), p["beta"], p["gamma"], p["alpha"])


def effective(algo, p):
    """(dt, beta, gamma, alpha) the scheme actually uses (documented derivation for hht_newmark)."""
    if algo == "hht_newmark":
        a = p["alpha"]
        return p["dt"], (1 + a) ** 2 / 4, 0.5 + a, a
    return p["dt"], p["beta"], p["gamma"], p["alpha"]


def spec_update(algo, P, un, vn, an, x):
    """documented corrector (Solvers.AlgoType docstrings), independent of the code's tables"""
    dt, b, g, al = P
    if algo == "parabolic":
        return x, ((x - un) / dt - (1 - al) * vn) / al, None
    if algo in ("newmark", "hht", "hht_newmark"):
        ut = un + dt * vn + dt**2 / 2 * (1 - 2 * b) * an
        a1 = (x - ut) / (b * dt**2)
        return x, vn + dt * ((1 - g) * an + g * a1), a1
    if algo == "midpoint":
        v1 = 2 / dt * (x - un) - vn
        return x, v1, 2 / dt * (v1 - vn) - an
    if algo == "euler_implicit":
        v1 = (x - un) / dt
        return x, v1, (v1 - vn) / dt
    if algo == "euler_explicit":
        return un + dt * vn, vn + dt * x, x
    raise ValueError(algo)


def spec_eval(algo, P, un, vn, an, x):
    dt, b, g, al = P
    u1, v1, a1 = spec_update(algo, P, un, vn, an, x)
    if algo == "hht":
        return (1 - al) * u1 + al * un, (1 - al) * v1 + al * vn, (1 - al) * a1 + al * an
    if algo == "hht_newmark":
        return (1 - al) * u1 + al * un, v1, a1
    if algo == "midpoint":
        return (u1 + un) / 2, (v1 + vn) / 2, (a1 + an) / 2
    if algo == "euler_explicit":
        return un, vn, None
    return u1, v1, a1


def build_elastic(rng):
    et = rng.choice(["TRI3", "QUAD4"])
    mesh = M.mesh_2d(et, a=2.0, b=1.0, h=1.0)
    mat = Models.Elastic.Isotropic(2, E=8.0, v=0.25, planeStress=True, thickness=1.0)
    simu = Simulations.Elastic(mesh, mat)
    simu.rho = 2.0
    left = mesh.Nodes_Conditions(lambda x, y, z: x == 0)
    right = mesh.Nodes_Conditions(lambda x, y, z: x == 2.0)
    return simu, mesh, left, right


def build_thermal(rng):
    et = rng.choice(["TRI3", "QUAD4", "TRI6"])
    mesh = M.mesh_2d(et, a=2.0, b=1.0, h=1.0)
    simu = Simulations.Thermal(mesh, Models.Thermal(k=3.0, c=2.0))
    simu.rho = 1.5
    left = mesh.Nodes_Conditions(lambda x, y, z: x == 0)
    right = mesh.Nodes_Conditions(lambda x, y, z: x == 2.0)
    return simu, mesh, left, right


def fvec(v):
    return " ".join(frac_str(Fraction(float(x))) for x in np.asarray(v, float).ravel())


def rel(a, b, scale):
    return float(np.abs(np.asarray(a, float) - np.asarray(b, float)).max()) / max(scale, 1e-300)


def main():
    args = parse_args()
    rng = rng_for(args)
    res = Result(args)
    driver = Driver("C05")
    nseq = 6 if args.tier == "quick" else 18
    nsteps = 6 if args.tier == "quick" else 12
    if args.search:
        nseq, nsteps = 10, 10
    lines, expect = [], []
    TOL = 1e-9

    def record_corr(simu, algo, p, pt):
        """one correspondence sample at the simulation's current state and parameters"""
        K, C, Mm, F = simu.Get_K_C_M_F(pt)
        n = K.shape[0]
        if n > 24 or not (len(lines) < (80 if args.tier == "quick" else 240)):
            return
        un, vn, an = simu._Get_u_n(pt), simu._Get_v_n(pt), simu._Get_a_n(pt)
        x = np.array([dy(rng, -2, 2) for _ in range(n)])
        P = effective(algo, p)
        fN = np.asarray(simu.Bc_vector_Neumann(pt).todense()).ravel() if hasattr(simu.Bc_vector_Neumann(pt), "todense") else np.asarray(simu.Bc_vector_Neumann(pt)).ravel()
        Fd = np.asarray(F.todense()).ravel()
        head = f"{n} " + " ".join(frac_str(Fraction(float(q))) for q in P)
        body = " ".join([fvec(K.toarray()), fvec(C.toarray()), fvec(Mm.toarray()), fvec(fN), fvec(Fd), fvec(un), fvec(vn), fvec(an), fvec(x)])
        real_coefs = simu._Solver_Get_K_C_M_coefs_for_time_scheme()
        real_eval = simu._Solver_Evaluate_u_v_a_for_time_scheme(pt, x.copy())
        real_upd = simu._Solver_Update_solutions(pt, x.copy())
        real_rhs = np.asarray(simu._Solver_Apply_Neumann(pt).todense()).ravel()
        # the property on the real table functions themselves (what the Newton path relies on)
        an_ = np.zeros(n) if an is None else an
        ident = dict(algo=algo, params=p, n_dofs=int(n), x=x.tolist(), u_n=un.tolist(), v_n=vn.tolist(), a_n=an_.tolist())
        se = spec_eval(algo, P, un, vn, an_, x)
        sc = 1 + max(np.abs(x).max(), np.abs(un).max()) / min(1.0, P[0] ** 2 * min(1.0, abs(P[1]) if algo != "parabolic" else 1.0))
        names = ("u_t", "v_t", "a_t")
        for nm, got, want in zip(names, real_eval, se):
            res.case((algo, "eval-spec", nm, len(lines)))
            if (got is None) != (want is None) and not (algo == "parabolic" and nm == "a_t"):
                if not (algo == "euler_explicit" and nm == "a_t"):
                    res.fail(f"algo={algo} evaluation-point {nm}", f"{algo}: {nm} is {'None' if got is None else 'set'} but the documented scheme says otherwise", ident)
            elif got is not None and want is not None and not (np.abs(np.asarray(got) - want).max() <= 1e-9 * sc):
                res.fail(f"algo={algo} evaluation-point {nm}",
                         f"{algo} ({p}): _Solver_Evaluate_u_v_a_for_time_scheme gives {nm} differing from the documented evaluation-point state by {np.abs(np.asarray(got) - want).max():.3e}", ident)
        su = spec_update(algo, P, un, vn, an_, x)
        for nm, got, want in zip(("u", "v", "a"), real_upd, su):
            if got is not None and want is not None and not (np.abs(np.asarray(got) - want).max() <= 1e-9 * sc):
                res.fail(f"algo={algo} corrector {nm}", f"{algo} ({p}): _Solver_Update_solutions gives {nm} differing from the documented update by {np.abs(np.asarray(got) - want).max():.3e}", ident)
        delta = np.array([dy(rng, -1, 1) for _ in range(n)])
        ev2 = simu._Solver_Evaluate_u_v_a_for_time_scheme(pt, (x + delta).copy())
        for nm, c, e1, e2 in zip(names, real_coefs, real_eval, ev2):
            if e1 is None or e2 is None:
                continue
            res.case((algo, "coef-derivative", nm, len(lines)))
            if not (np.abs((np.asarray(e2) - np.asarray(e1)) - c * delta).max() <= 1e-9 * sc * (1 + abs(c))):
                res.fail(f"algo={algo} coef-is-derivative {nm}",
                         f"{algo} ({p}): d{nm}/du_np1 = {c} according to _Solver_Get_K_C_M_coefs_for_time_scheme, but {nm}(x+d)-{nm}(x) != coef*d (max dev {np.abs((np.asarray(e2) - np.asarray(e1)) - c * delta).max():.3e})", ident)
        for what, real in (("coefs", real_coefs), ("eval", real_eval), ("update", real_upd), ("rhs", real_rhs)):
            lines.append(f"{algo} {what} {head} {body}")
            expect.append((algo, what, dict(p), real))

    # ---------------- the algorithm named by the enum member or by its string: same scheme ----------------
    simq, _, _, _ = build_elastic(rng)
    for algo in HYPER:
        pq = dict(dt=0.125, beta=0.3025, gamma=0.6, alpha=0.2 if algo != "midpoint" else 0.5)
        coefs = {}
        for form in ("enum", "string"):
            simq.Solver_Set_Hyperbolic_Algorithm(pq["dt"], AlgoType(algo) if form == "enum" else str(AlgoType(algo).value), pq["beta"], pq["gamma"], pq["alpha"])
            try:
                coefs[form] = tuple(float(c) for c in simq._Solver_Get_K_C_M_coefs_for_time_scheme())
            except Exception as ex:  # noqa: BLE001
                coefs[form] = f"raises {type(ex).__name__}"
        res.case(("algo-name-form", algo))
        if coefs["enum"] != coefs["string"]:
            res.fail(f"algo={algo} named by its string", f"weights of K, C, M with AlgoType.{algo}: {coefs['enum']}; with the string '{algo}': {coefs['string']}", dict(algo=algo, params=pq))

    for seq in range(nseq):
        parabolic = (seq % 3 == 2)
        simu, mesh, left, right = build_thermal(rng) if parabolic else build_elastic(rng)
        pt = simu.problemType
        undamped = (not parabolic) and (seq % 3 == 1)
        cMK = (0.0, 0.0)
        if not parabolic and not undamped:
            cMK = (rng.choice([0.0, 0.25, 0.5]), rng.choice([0.125, 0.25]))
            simu.Set_Rayleigh_Damping_Coefs(*cMK)
        K, C, Mm, F = simu.Get_K_C_M_F(pt)
        n = K.shape[0]
        # arbitrary (non-equilibrium) prior state, dyadic numbers
        u0 = np.array([dy(rng, -1, 1) for _ in range(n)])
        v0 = np.array([dy(rng, -1, 1) for _ in range(n)])
        a0 = np.array([dy(rng, -1, 1) for _ in range(n)])
        unknowns = simu.Get_unknowns()
        simu.Bc_Init()
        if undamped:
            # free vibration with homogeneous constraints, consistent initial acceleration M a0 + K u0 = 0 on free dofs
            simu.add_dirichlet(left, [0.0] * len(unknowns), unknowns)
            dofs_c = simu.Bc_dofs_Dirichlet(pt)
            free = np.setdiff1d(np.arange(n), dofs_c)
            u0[dofs_c] = 0
            v0[dofs_c] = 0
            a0[:] = 0
            Kd, Md = K.toarray(), Mm.toarray()
            a0[free] = np.linalg.solve(Md[np.ix_(free, free)], -(Kd[np.ix_(free, free)] @ u0[free]))
        else:
            simu.add_dirichlet(left, [dy(rng, -1, 1) for _ in unknowns], unknowns)
            if parabolic:
                simu.add_neumann(right, [dy(rng, -2, 2)], unknowns)
            else:
                simu.add_lineLoad(right, [dy(rng, -2, 2), dy(rng, -2, 2)], unknowns)
        simu._Set_solutions(pt, u0.copy(), v0.copy(), None if parabolic else a0.copy())
        dofs_c = simu.Bc_dofs_Dirichlet(pt)
        free = np.setdiff1d(np.arange(n), dofs_c)
        Kd, Cd, Md = K.toarray(), C.toarray(), Mm.toarray()
        Fd = np.asarray(F.todense()).ravel()
        fN = np.asarray(simu.Bc_vector_Neumann(pt).todense()).ravel() if hasattr(simu.Bc_vector_Neumann(pt), "todense") else np.asarray(simu.Bc_vector_Neumann(pt)).ravel()
        history = []
        algos = ["parabolic"] if parabolic else (["newmark", "midpoint", "euler_implicit"] if undamped else HYPER)
        for step in range(nsteps):
            if not parabolic and not undamped and step == nsteps // 2:
                # the damping is changed between two steps (switched off every other sequence): the next steps use the new C
                cMK = (0.0, 0.0) if seq % 2 == 0 else (rng.choice([0.0, 0.125]), rng.choice([0.0, 0.0625]))
                simu.Set_Rayleigh_Damping_Coefs(*cMK)
                Cnew = simu.Get_K_C_M_F(pt)[1].toarray()
                res.case((seq, step, "rayleigh-change"))
                if not (np.abs(Cnew - (cMK[0] * Md + cMK[1] * Kd)).max() <= 1e-10 * (1 + np.abs(Kd).max())):
                    res.fail("damping matrix after Set_Rayleigh_Damping_Coefs", f"after Set_Rayleigh_Damping_Coefs{cMK} between two steps, C differs from coefM M + coefK K by {np.abs(Cnew - (cMK[0] * Md + cMK[1] * Kd)).max():.3e}",
                             dict(sequence=seq, step=step, coefs=list(cMK)))
                Cd = cMK[0] * Md + cMK[1] * Kd
            algo = rng.choice(algos)
            p = draw_params(rng, algo)
            if undamped and algo == "newmark":
                p["beta"], p["gamma"] = 0.25, 0.5
            if not parabolic and not undamped and seq % 2 == 1 and step > 0:
                # every other damped sequence keeps ONE scheme with ONE set of parameters from its first step on (and does not call the
                # setter again): the only thing that changes half-way is the damping
                algo, p = history[0]["algo"], {k_: v_ for k_, v_ in history[0].items() if k_ != "algo"}
            else:
                set_algo(simu, algo, p)
            P = effective(algo, p)
            history.append(dict(algo=algo, **p))
            res.count("algo:" + algo)
            un, vn = simu._Get_u_n(pt).copy(), simu._Get_v_n(pt).copy()
            an = None if parabolic else simu._Get_a_n(pt).copy()
            an_ = np.zeros(n) if an is None else an
            record_corr(simu, algo, p, pt)
            # --- one real step
            simu.Solve()
            u1, v1 = simu._Get_u_n(pt).copy(), simu._Get_v_n(pt).copy()
            a1 = None if parabolic else simu._Get_a_n(pt).copy()
            x = a1 if algo == "euler_explicit" else u1
            scale = 1 + max(np.abs(u1).max(), np.abs(v1).max() * P[0], (0 if a1 is None else np.abs(a1).max()) * P[0] ** 2)
            ident = dict(sequence=seq, step=step, sim="Thermal" if parabolic else "Elastic", history=history[-3:],
                         elemType=mesh.elemType if hasattr(mesh, "elemType") else "", undamped=bool(undamped))
            # (i) constrained dofs
            # (ii) documented update relations
            su, sv, sa = spec_update(algo, P, un, vn, an_, x)
            res.case((seq, step, algo, "update"))
            bad = rel(u1, su, scale) > TOL or rel(v1 * P[0], sv * P[0], scale) > TOL or (sa is not None and a1 is not None and rel(a1 * P[0] ** 2, sa * P[0] ** 2, scale) > TOL)
            if bad:
                res.fail(f"algo={algo} update-relations", f"{algo} ({p}): u,v,a returned by Solve() violate the documented update relations "
                         f"(max deviations u {rel(u1, su, scale):.2e}, v {rel(v1 * P[0], sv * P[0], scale):.2e})", ident)
            # (iii) equation of motion on free dofs at the scheme's evaluation point
            ut, vt, at = spec_eval(algo, P, un, vn, an_, x)
            r = Kd @ ut + Cd @ vt - (fN + Fd)
            if algo == "euler_explicit":
                r = r + Md @ x
            elif at is not None and not parabolic:
                r = r + Md @ at
            fscale = 1 + np.abs(Kd).max() * np.abs(ut).max() + np.abs(Cd).max() * np.abs(vt).max() + (np.abs(Md).max() * (np.abs(at).max() if at is not None else 0)) + np.abs(fN + Fd).max()
            res.case((seq, step, algo, "eom"))
            if not (np.abs(r[free]).max() <= 1e-8 * fscale):
                res.fail(f"algo={algo} equation-of-motion", f"{algo} ({p}): residual of K u_t + C v_t + M a_t - F on free dofs = {np.abs(r[free]).max():.3e} (scale {fscale:.3e})", ident)
            # (iv) energy
            if undamped:
                E0 = 0.5 * vn @ Md @ vn + 0.5 * un @ Kd @ un
                E1 = 0.5 * v1 @ Md @ v1 + 0.5 * u1 @ Kd @ u1
                res.case((seq, step, algo, "energy"))
                if algo in ("newmark", "midpoint") and not (abs(E1 - E0) <= 1e-9 * (1 + abs(E0))):
                    # Newmark conservation needs M a_n + K u_n = 0 on free dofs: true after a newmark / consistent start
                    prev_ok = np.abs((Md @ an_ + Kd @ un)[free]).max() < 1e-8 * fscale
                    if algo == "midpoint" or prev_ok:
                        res.fail(f"algo={algo} energy-conservation", f"{algo} dt={p['dt']}: energy {E0!r} -> {E1!r} in undamped free motion", ident)
                if algo == "euler_implicit" and not (E1 <= E0 * (1 + 1e-10) + 1e-12):
                    res.fail("algo=euler_implicit energy-increase", f"backward Euler dt={p['dt']}: energy increased {E0!r} -> {E1!r}", ident)
                Ecode = simu.Calc_Energy(Mm, v1) + simu.Calc_Energy(K, u1)
                if not (abs(Ecode - E1) <= 1e-10 * (1 + abs(E1))):
                    res.fail("Calc_Energy", f"Calc_Energy gives {Ecode!r}, 1/2 x'Ax = {E1!r}", ident)
        res.sample(dict(sequence=seq, sim="Thermal" if parabolic else "Elastic", n_dofs=int(n), steps=history[:4]))

    # ---------------- step sequences with constraints that move, and several simulations stepped in turn ----------------
    def start_state(n, shift):
        """replayable non-equilibrium prior state (dyadic numbers in [-1/2, 1/2))"""
        i = np.arange(n)
        return (((7 * i + shift) % 16) - 8) / 16.0, (((5 * i + 3 + shift) % 16) - 8) / 16.0, (((3 * i + 1 + 2 * shift) % 16) - 8) / 16.0

    START = "u0[i]=((7i+s)%16-8)/16, v0[i]=((5i+3+s)%16-8)/16, a0[i]=((3i+1+2s)%16-8)/16"

    def checked_step(tag, simu, algo, p, parabolic, ident, constrained=None):
        """one Solve() of `simu`, checked against the documented scheme with the parameters `p` given to THAT simulation:
        update relations, equation of motion on the free dofs (matrices read back dense), prescribed values.
        constrained = (dofs, values) as prescribed by the caller (independent of the library's bookkeeping)."""
        pt = simu.problemType
        P = effective(algo, p)
        un, vn = simu._Get_u_n(pt).copy(), simu._Get_v_n(pt).copy()
        an = None if parabolic else simu._Get_a_n(pt).copy()
        n = un.size
        an_ = np.zeros(n) if an is None else an
        try:
            simu.Solve()
            u1, v1 = simu._Get_u_n(pt).copy(), simu._Get_v_n(pt).copy()
            a1 = None if parabolic else simu._Get_a_n(pt).copy()
            K, C, Mm, F = simu.Get_K_C_M_F(pt)
            Kd, Cd, Md = K.toarray(), C.toarray(), Mm.toarray()
            Fd = np.asarray(F.todense()).ravel()
            bn = simu.Bc_vector_Neumann(pt)
            fN = np.asarray(bn.todense()).ravel() if hasattr(bn, "todense") else np.asarray(bn).ravel()
            dofs_c = np.asarray(simu.Bc_dofs_Dirichlet(pt), int) if constrained is None else np.asarray(constrained[0], int)
        except Exception as ex:  # noqa: BLE001
            res.fail(f"{tag} algo={algo} step raises", f"{algo} ({p}): Solve() raises {type(ex).__name__}: {str(ex)[:200]}", ident)
            return False
        free = np.setdiff1d(np.arange(n), dofs_c)
        x = a1 if algo == "euler_explicit" else u1
        scale = 1 + max(np.abs(u1).max(), np.abs(v1).max() * P[0], (0 if a1 is None else np.abs(a1).max()) * P[0] ** 2)
        ok = True
        su, sv, sa = spec_update(algo, P, un, vn, an_, x)
        res.case((tag, ident.get("sequence"), ident.get("sim"), ident.get("step"), algo, "update"))
        eu, ev = rel(u1, su, scale), rel(v1 * P[0], sv * P[0], scale)
        ea = rel(a1 * P[0] ** 2, sa * P[0] ** 2, scale) if (sa is not None and a1 is not None) else 0.0
        if not (eu <= TOL and ev <= TOL and ea <= TOL):
            ok = False
            res.fail(f"{tag} algo={algo} update-relations", f"{algo} ({p}): u,v,a returned by Solve() violate the documented update relations with the parameters set on this simulation "
                     f"(max deviations u {eu:.2e}, v*dt {ev:.2e}, a*dt^2 {ea:.2e})", ident)
        ut, vt, at = spec_eval(algo, P, un, vn, an_, x)
        r = Kd @ ut + Cd @ vt - (fN + Fd)
        if algo == "euler_explicit":
            r = r + Md @ x
        elif at is not None and not parabolic:
            r = r + Md @ at
        fscale = 1 + np.abs(Kd).max() * np.abs(ut).max() + np.abs(Cd).max() * np.abs(vt).max() + (np.abs(Md).max() * (np.abs(at).max() if at is not None else 0)) + np.abs(fN + Fd).max()
        res.case((tag, ident.get("sequence"), ident.get("sim"), ident.get("step"), algo, "eom"))
        if free.size and not (np.abs(r[free]).max() <= 1e-8 * fscale):
            ok = False
            res.fail(f"{tag} algo={algo} equation-of-motion", f"{algo} ({p}): residual of K u_t + C v_t + M a_t - F on the free dofs = {np.abs(r[free]).max():.3e} (scale {fscale:.3e})", ident)
        if constrained is not None and algo != "euler_explicit":
            res.case((tag, ident.get("sequence"), ident.get("step"), algo, "prescribed"))
            if not (np.abs(u1[dofs_c] - np.asarray(constrained[1], float)).max() <= TOL * scale):
                ok = False
                res.fail(f"{tag} algo={algo} prescribed-values", f"{algo} ({p}): the constrained dofs do not carry the prescribed values after the step "
                         f"(max deviation {np.abs(u1[dofs_c] - np.asarray(constrained[1], float)).max():.3e})", ident)
        return ok

    # (C) the set of constrained dofs, the prescribed values and the load change from one step to the next while the
    #     scheme and its parameters stay the same for a few steps (a support that moves to the opposite edge keeps the
    #     number of unknowns); every step must still satisfy its update rule and the equation of motion on ITS free dofs
    nmov = 3 if args.tier == "quick" else 9
    for seq in range(nmov):
        parabolic = (seq % 3 == 2)
        et = rng.choice(["TRI3", "QUAD4"])
        mesh = M.mesh_2d(et, a=2.0, b=1.0, h=0.5)
        try:
            if parabolic:
                simu = Simulations.Thermal(mesh, Models.Thermal(k=3.0, c=2.0))
                simu.rho = 1.5
            else:
                simu = Simulations.Elastic(mesh, Models.Elastic.Isotropic(2, E=8.0, v=0.25, planeStress=True, thickness=0.75))
                simu.rho = 2.0
                cMK = (rng.choice([0.0, 0.25]), rng.choice([0.0, 0.125]))
                simu.Set_Rayleigh_Damping_Coefs(*cMK)
            if seq % 2 == 1:
                simu.solver = "scipy"
            pt = simu.problemType
            unknowns = simu.Get_unknowns()
            nd = len(unknowns)
            edges = dict(left=mesh.Nodes_Conditions(lambda x, y, z: x == 0), right=mesh.Nodes_Conditions(lambda x, y, z: x == 2.0),
                         bottom=mesh.Nodes_Conditions(lambda x, y, z: y == 0), top=mesh.Nodes_Conditions(lambda x, y, z: y == 1.0))
            opposite = dict(left="right", right="left", bottom="top", top="bottom")
            n = mesh.Nn * nd
            u0, v0, a0 = start_state(n, seq)
            simu._Set_solutions(pt, u0.copy(), v0.copy(), None if parabolic else a0.copy())
        except Exception as ex:  # noqa: BLE001
            res.fail("moving-constraints setup raises", f"{type(ex).__name__}: {str(ex)[:200]}", dict(sequence=seq, elemType=et))
            continue
        history = []
        run_len = 3
        algo, p, support = None, None, None
        for step in range(2 * run_len):
            if step % run_len == 0:
                algo = "parabolic" if parabolic else rng.choice(HYPER)
                p = draw_params(rng, algo)
                set_algo(simu, algo, p)
                support = rng.choice(sorted(edges))
            elif step % run_len == 1:
                support = opposite[support]  # same number of constrained dofs, other dofs
            else:
                support = rng.choice([e for e in sorted(edges) if e not in (support, opposite[support])])
                if seq % 2 == 1:
                    set_algo(simu, algo, p)  # same scheme and parameters set again
            dirs = list(unknowns) if (parabolic or rng.random() < 0.5) else [rng.choice(list(unknowns))]
            vals = [dy(rng, -1, 1) for _ in dirs]
            load = dy(rng, -2, 2)
            loadDir = rng.choice(list(unknowns))
            history.append(dict(algo=algo, **p, support=support, dirs=dirs, values=vals, loaded=opposite[support], load=load, loadDir=loadDir))
            ident = dict(scenario="moving-constraints", sequence=seq, step=step, sim="Thermal" if parabolic else "Elastic", elemType=et,
                         mesh="rectangle 2x1, h=0.5", solver=str(simu.solver), rayleigh=None if parabolic else list(cMK), start=START + f", s={seq}", history=list(history))
            res.count("moving-constraints:" + algo)
            try:
                simu.Bc_Init()
                simu.add_dirichlet(edges[support], vals, dirs)
                simu.add_neumann(edges[opposite[support]], [load], [loadDir])
            except Exception as ex:  # noqa: BLE001
                res.fail("moving-constraints setup raises", f"{type(ex).__name__}: {str(ex)[:200]}", ident)
                break
            dofs = np.concatenate([np.asarray(edges[support], int) * nd + list(unknowns).index(d) for d in dirs])
            dvals = np.concatenate([np.full(len(edges[support]), float(v)) for v in vals])
            if not checked_step("moving-constraints", simu, algo, p, parabolic, ident, (dofs, dvals)):
                break
        res.sample(dict(scenario="moving-constraints", sequence=seq, n_dofs=int(n), steps=history[:3]))

    # (D) several simulations alive at the same time (same mesh and model object), each given its own scheme parameters
    #     before any of them is stepped, then stepped in turn; one of them is given new parameters half-way.
    #     Each step is checked with the parameters set on the simulation that made it.
    ngroups = 2 if args.tier == "quick" else 6
    for grp in range(ngroups):
        parabolic = (grp % 2 == 1)
        et = rng.choice(["TRI3", "QUAD4"])
        mesh = M.mesh_2d(et, a=2.0, b=1.0, h=0.5)
        left = mesh.Nodes_Conditions(lambda x, y, z: x == 0)
        right = mesh.Nodes_Conditions(lambda x, y, z: x == 2.0)
        model = Models.Thermal(k=3.0, c=2.0) if parabolic else Models.Elastic.Isotropic(2, E=8.0, v=0.25, planeStress=True, thickness=1.0)
        nsim = 3
        # the same algorithm for the first two simulations (different parameters), any algorithm for the third
        first = "parabolic" if parabolic else rng.choice(HYPER)
        algos_g = [first, first, "parabolic" if parabolic else rng.choice(HYPER)]
        params_g = []
        for a_ in algos_g:
            q = draw_params(rng, a_)
            while any(q == o or q["dt"] == o["dt"] for o in params_g):
                q = draw_params(rng, a_)
            params_g.append(q)
        sims = []
        try:
            for k in range(nsim):
                s = Simulations.Thermal(mesh, model) if parabolic else Simulations.Elastic(mesh, model)
                s.rho = 1.5
                if not parabolic:
                    s.Set_Rayleigh_Damping_Coefs(0.25, 0.125)
                unknowns = s.Get_unknowns()
                s.add_dirichlet(left, [0.25 * (k + 1)] * len(unknowns), unknowns)
                s.add_neumann(right, [-1.0 + 0.5 * k], [unknowns[-1]])
                n = mesh.Nn * len(unknowns)
                u0, v0, a0 = start_state(n, grp + k)
                s._Set_solutions(s.problemType, u0.copy(), v0.copy(), None if parabolic else a0.copy())
                set_algo(s, algos_g[k], params_g[k])
                sims.append(s)
        except Exception as ex:  # noqa: BLE001
            res.fail("several-simulations setup raises", f"{type(ex).__name__}: {str(ex)[:200]}", dict(group=grp, elemType=et, algos=algos_g, params=params_g))
            continue
        events = []
        stop = False
        for rnd in range(4):
            if rnd == 2:
                # new parameters for the second simulation only; the others keep theirs
                q = draw_params(rng, algos_g[1])
                while any(q["dt"] == o["dt"] for o in params_g):
                    q = draw_params(rng, algos_g[1])
                params_g[1] = q
                set_algo(sims[1], algos_g[1], q)
                events.append(dict(round=rnd, sim=1, set=dict(algo=algos_g[1], **q)))
            for k in range(nsim):
                ident = dict(scenario="several-simulations", sequence=grp, step=rnd, sim=k, simType="Thermal" if parabolic else "Elastic", elemType=et,
                             mesh="rectangle 2x1, h=0.5, shared with the model object by the 3 simulations", rayleigh=None if parabolic else [0.25, 0.125],
                             start=START + ", s=group+sim", dirichlet="left edge, all unknowns = 0.25 (sim+1)", neumann="right edge, last unknown, -1 + 0.5 sim",
                             configured_before_first_step=[dict(algo=a_, **q_) for a_, q_ in zip(algos_g, params_g)] if not events else None,
                             algos=algos_g, params_now=[dict(q_) for q_ in params_g], events=list(events), order="round-robin sim 0,1,2")
                res.count("several-simulations:" + algos_g[k])
                if not checked_step("several-simulations", sims[k], algos_g[k], params_g[k], parabolic, ident):
                    stop = True
                    break
            if stop:
                break
        res.sample(dict(scenario="several-simulations", group=grp, algos=algos_g, params=params_g))

    # ---------------- a viscous hyperelastic plate: every term of its equation of motion carries the thickness ----------------
    # K u_t + C v_t + M a_t = load is an identity between forces per unit thickness times the thickness: two plates that differ by their
    # thickness only, in the same state, return matrices and internal forces in the ratio of the thicknesses (C included: it is the
    # matrix the step multiplies v_t with, and coefC C is part of the Newton matrix)
    try:
        from EasyFEA.Geoms import Domain as _Dom
        rsv = np.random.default_rng(4)
        outs = {}
        for thv in (1.0, 3.0):
            mshv = _Dom((0, 0), (3.0, 1.0), 0.5).Mesh_2D([], "QUAD4", isOrganised=True)
            matv = Models.HyperElastic.NeoHookean(2, K=50.0, thickness=thv)
            matv.eta = 2.0
            sv_ = Simulations.HyperElastic(mshv, matv, verbosity=False)
            sv_.rho = 1.5
            sv_.Solver_Set_Hyperbolic_Algorithm(0.05, algo=AlgoType.midpoint)
            ptv = sv_.problemType
            nv_ = mshv.Nn * 2
            if "state" not in outs:
                outs["state"] = (rsv.standard_normal(nv_) * 0.02, rsv.standard_normal(nv_) * 0.5, rsv.standard_normal(nv_) * 0.5, rsv.standard_normal(nv_) * 0.02)
            st_ = outs["state"]
            sv_._Set_solutions(ptv, st_[0].copy(), st_[1].copy(), st_[2].copy())
            sv_._Simu__Solver_Set_Newton_Raphson_current_solution(st_[3].copy())
            Kv, Cv, Mv, Fv = sv_.Get_K_C_M_F(ptv)
            outs[thv] = (Kv.toarray(), Cv.toarray(), Mv.toarray(), np.asarray(Fv.todense()).ravel())
        res.case(("viscous plate thickness",))
        if not (np.abs(outs[1.0][1]).max() > 0):
            res.disagree("vacuous", dict(note="the viscous plate has no damping matrix"))
        for k_, nm_ in enumerate(("K", "C", "M", "F")):
            a1_, a3_ = outs[1.0][k_], outs[3.0][k_]
            if not (np.abs(a3_ - 3.0 * a1_).max() <= 1e-9 * (1e-30 + np.abs(a3_).max() + np.abs(a1_).max())):
                res.fail(f"viscous hyperelastic plate: {nm_} does not carry the thickness",
                         f"two plates in the same state, thickness 3 and thickness 1: {nm_}(3) differs from 3 {nm_}(1) by {np.abs(a3_ - 3.0 * a1_).max():.3e} (|{nm_}(1)| = {np.abs(a1_).max():.3e}): "
                         f"the terms of K u_t + C v_t + M a_t = load are not in the same units", dict(sim="HyperElastic", law="NeoHookean K=50, eta=2", scheme="midpoint dt=0.05", thicknesses=[1.0, 3.0]))
    except Exception as ex:  # noqa: BLE001
        res.fail("viscous hyperelastic plate raises", f"{type(ex).__name__}: {str(ex)[:200]}", dict(sim="HyperElastic"))

    # ---------------- correspondence with the Lean definitions ----------------
    answers = driver.ask(lines)
    if answers is None:
        res.disagree("driver", "model driver does not run: " + getattr(driver, "error", "")[:400])
    else:
        for (algo, what, p, real), ans in zip(expect, answers):
            res.traces += 1
            if "bad" in ans:
                res.disagree("model-answer", dict(algo=algo, what=what, answer=ans))
                continue
            if what == "coefs":
                model = [float(parse_frac(t)) for t in ans.split()]
                ok = all(abs(m - float(r)) <= 1e-12 * (1 + abs(m)) for m, r in zip(model, real))
            elif what == "rhs":
                model = np.array([float(parse_frac(t)) for t in ans.split()])
                ok = np.abs(model - real).max() <= 1e-10 * (1 + np.abs(model).max())
            else:
                parts = [s.strip() for s in ans.split("|")]
                ok = True
                for part, r in zip(parts, real):
                    if part == "none":
                        ok = ok and (r is None)
                        continue
                    if r is None:
                        ok = False
                        continue
                    mv = np.array([float(parse_frac(t)) for t in part.split()])
                    ok = ok and np.abs(mv - np.asarray(r, float)).max() <= 1e-10 * (1 + np.abs(mv).max())
            if not ok:
                res.disagree("scheme-table", dict(algo=algo, table=what, params=p))
    res.search_note = "random step sequences with the independent oracle (documented relations, EOM residual, energy) found no violation on the real code"
    res.write("seeded sequences of time steps on small Elastic (damped / undamped) and Thermal simulations, switching algorithm, dt, beta, gamma, alpha "
              "between steps, from arbitrary dyadic prior states; non-trivial = a step whose check involves non-zero prior velocity/acceleration; "
              "distinct = distinct (sequence, step, algorithm, check)")


if __name__ == "__main__":
    from tools.harness._common import run

    run(main)
