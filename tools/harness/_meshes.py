"""Small meshes of every element type, built with the repo's own Mesher (gmsh)."""

from __future__ import annotations

import numpy as np

from EasyFEA import Mesher, ElemType
from EasyFEA.Geoms import Domain, Point, Points, Line

SEG = ["SEG2", "SEG3", "SEG4", "SEG5"]
TRI = ["TRI3", "TRI6", "TRI10", "TRI15"]
QUAD = ["QUAD4", "QUAD8", "QUAD9"]
TETRA = ["TETRA4", "TETRA10"]
HEXA = ["HEXA8", "HEXA20", "HEXA27"]
PRISM = ["PRISM6", "PRISM15", "PRISM18"]
ALL_2D = TRI + QUAD
ALL_3D = TETRA + HEXA + PRISM
ALL = SEG + ALL_2D + ALL_3D


def dim_of(et: str) -> int:
    return 1 if et in SEG else 2 if et in ALL_2D else 3


def mesh_1d(et: str, L=4.0, n=4):
    return Mesher().Mesh_1D(Line(Point(0, 0), Point(L, 0), L / n), elemType=ElemType(et))


def mesh_2d(et: str, a=2.0, b=1.0, h=0.5, polygon=None):
    """Rectangle [0,a]x[0,b] (structured for quadrangles) or a polygon (list of (x, y))."""
    if polygon is not None:
        contour = Points([Point(x, y) for x, y in polygon], h)
        return Mesher().Mesh_2D(contour, [], ElemType(et))
    dom = Domain(Point(0, 0), Point(a, b), h)
    return Mesher().Mesh_2D(dom, [], ElemType(et), isOrganised=et in QUAD)


def mesh_3d(et: str, a=2.0, b=1.0, c=1.5, h=1.0, layers=2, organised=None):
    dom = Domain(Point(0, 0), Point(a, b), h)
    if et in TETRA:
        return Mesher().Mesh_Extrude(dom, [], [0, 0, c], [], ElemType(et))
    return Mesher().Mesh_Extrude(dom, [], [0, 0, c], [layers], ElemType(et), isOrganised=(et in HEXA) if organised is None else organised)


def mesh_of(et: str, **kw):
    d = dim_of(et)
    if d == 1:
        return mesh_1d(et, **kw)
    if d == 2:
        return mesh_2d(et, **kw)
    return mesh_3d(et, **kw)


def main_groups(mesh):
    return mesh.Get_list_groupElem(mesh.dim)


def used_nodes(mesh):
    return np.unique(np.concatenate([g.connect.ravel() for g in main_groups(mesh)]))


def affine(mesh, A, t):
    """Applies x -> A x + t to the mesh coordinates (A: 3x3)."""
    A = np.asarray(A, dtype=float)
    mesh.coord = mesh.coord @ A.T + np.asarray(t, dtype=float)
    return mesh


def mesh_mixed_2d(tri="TRI3", quad="QUAD4", h=1 / 3):
    """conforming rectangle [0,3]x[0,1]: triangles on [0,1]x[0,1], quadrangles on [1,3]x[0,1] (Mesh.Merge)"""
    from EasyFEA import Mesh
    a = Points([Point(0, 0), Point(1, 0), Point(1, 1), Point(0, 1)], h).Mesh_2D([], ElemType(tri))
    b = Points([Point(1, 0), Point(3, 0), Point(3, 1), Point(1, 1)], h).Mesh_2D([], ElemType(quad), isOrganised=True)
    return Mesh.Merge([a, b])


def mesh_mixed_3d(prism="PRISM6", hexa="HEXA8", h=1 / 2, layers=2):
    """conforming box [0,2]x[0,1]x[0,1]: prisms on x<1, hexahedra on x>1 (Mesh.Merge)"""
    from EasyFEA import Mesh
    a = Points([Point(0, 0), Point(1, 0), Point(1, 1), Point(0, 1)], h).Mesh_Extrude([], [0, 0, 1], [layers], ElemType(prism), isOrganised=True)
    b = Points([Point(1, 0), Point(2, 0), Point(2, 1), Point(1, 1)], h).Mesh_Extrude([], [0, 0, 1], [layers], ElemType(hexa), isOrganised=True)
    return Mesh.Merge([a, b])
