"""C02 harness.
(a) correspondence: element stiffness / conduction / mass matrices of the real operators vs the model
    (`K_e = Σ_p w B^T C B`, `M_e = Σ_p w ρ N^T N`) evaluated exactly on the same w, B / dN / N, C;
(b) the property on the real code: global K symmetric, PSD, kernel = rigid motions (constants for heat
    conduction) exactly, solvable once restrained; M / capacity symmetric positive definite with total
    ρ × measure × thickness per direction (also after the thickness or density changed); beams (Euler-Bernoulli,
    Timoshenko, 2D, 3D): K PSD with the rigid kernel, M symmetric PSD with translational mass ρ A L."""

from __future__ import annotations

import warnings
from fractions import Fraction

import numpy as np

from tools.harness._common import Driver, Result, frac_str, parse_args, parse_frac, rng_for
from tools.harness import _meshes as M

from EasyFEA import Models, Simulations, Mesher, ElemType
from EasyFEA.FEM import Operators
from EasyFEA.Geoms import Domain, Point, Line

E_ = Models.Elastic


def fs(x):
    return frac_str(Fraction(float(x)))


def q(rng, lo, hi, den=8):
    return rng.randint(int(lo * den), int(hi * den)) / den


def dense(Asp, dofs=None):
    A = np.asarray(Asp.todense())
    return A if dofs is None else A[np.ix_(dofs, dofs)]


def rigid_modes(X, dim, beam=False):
    """rigid motions as columns: nodal dofs (x, y[, z]) or beam dofs (x, y, rz) / (x, y, z, rx, ry, rz)"""
    n = X.shape[0]
    modes = []
    if not beam:
        for c in range(dim):
            m = np.zeros((n, dim)); m[:, c] = 1; modes.append(m.ravel())
        rots = [(0, 1)] if dim == 2 else [(1, 2), (0, 2), (0, 1)]
        for (a, b) in rots:
            m = np.zeros((n, dim)); m[:, a] = -X[:, b]; m[:, b] = X[:, a]; modes.append(m.ravel())
    elif dim == 2:
        for c in range(2):
            m = np.zeros((n, 3)); m[:, c] = 1; modes.append(m.ravel())
        m = np.zeros((n, 3)); m[:, 0] = -X[:, 1]; m[:, 1] = X[:, 0]; m[:, 2] = 1; modes.append(m.ravel())
    else:
        for c in range(3):
            m = np.zeros((n, 6)); m[:, c] = 1; modes.append(m.ravel())
        for c in range(3):
            om = np.zeros(3); om[c] = 1
            m = np.zeros((n, 6)); m[:, :3] = np.cross(om, X); m[:, 3 + c] = 1; modes.append(m.ravel())
    return np.array(modes).T


def analyse(K, nmodes_expected, R):
    """(symmetric error, min eigenvalue / max, kernel dimension, ||K R|| / ||K|| ||R||)"""
    scale = np.abs(K).max()
    sym = np.abs(K - K.T).max() / scale
    w = np.linalg.eigvalsh((K + K.T) / 2)
    kdim = int((np.abs(w) < 1e-9 * np.abs(w).max()).sum())
    kr = np.abs(K @ R).max() / (scale * max(1.0, np.abs(R).max())) if R is not None else 0.0
    return sym, w.min() / np.abs(w).max(), kdim, kr


def rodrigues_(axis, th):
    k = np.asarray(axis, float) / np.linalg.norm(axis)
    Kx = np.array([[0, -k[2], k[1]], [k[2], 0, -k[0]], [-k[1], k[0], 0]])
    return np.eye(3) + np.sin(th) * Kx + (1 - np.cos(th)) * Kx @ Kx


def main():
    args = parse_args()
    rng = rng_for(args)
    res = Result(args)
    driver = Driver("C02")
    warnings.filterwarnings("ignore")
    thorough = args.tier == "thorough"
    lines, expect = [], []

    types = M.ALL_2D + M.ALL_3D
    small = {"TRI3", "TRI6", "QUAD4", "TETRA4", "QUAD8"}
    for et in types:
        dim = M.dim_of(et)
        heavy = et in ("HEXA27", "HEXA20", "PRISM18", "PRISM15", "TRI15")
        if dim == 2:
            mesh = M.mesh_2d(et, 2.0, 1.0, 1.0 if heavy or not thorough else 0.7)
        else:
            mesh = M.mesh_3d(et, 2.0, 1.0, 1.5, 1.0, 2)
        # affine distortion (keeps rule exactness; rigid modes use the moved coordinates)
        A = np.eye(3)
        for i in range(dim):
            for j in range(dim):
                A[i, j] += rng.randint(-2, 2) / 8
        if not (abs(np.linalg.det(A)) <= 0.4):
            M.affine(mesh, A, [0.25, -0.5, 0.125 if dim == 3 else 0.0])
        X = mesh.coord
        used = np.unique(np.concatenate([g.connect.ravel() for g in mesh.Get_list_groupElem(dim)]))
        Ne = sum(g.Ne for g in mesh.Get_list_groupElem(dim))
        ident0 = dict(elemType=et, Ne=int(Ne), Nn=int(mesh.Nn))
        res.count(f"elem:{et}")
        # ---------- elasticity ----------
        thick = rng.choice([1.0, 0.5, 2.0]) if dim == 2 else 1.0
        rho = q(rng, 1, 8)
        law = E_.Isotropic(dim, E=q(rng, 1, 20), v=rng.choice([0.0, 0.25, 0.3]), planeStress=bool(rng.getrandbits(1)), thickness=thick) if rng.random() < 0.5 else \
            E_.Orthotropic(dim, 12.0, 6.0, 3.0, 2.0, 2.5, 3.0, 0.2, 0.1, 0.25, axis_1=(0.8, 0.6, 0), axis_2=(-0.6, 0.8, 0), planeStress=True)
        if dim == 2 and not isinstance(law, E_.Isotropic):
            law.thickness = thick
        simu = Simulations.Elastic(mesh, law)
        simu.rho = rho
        Ksp, _, Msp, _ = simu.Get_K_C_M_F()
        dofs = (used[:, None] * dim + np.arange(dim)).ravel()
        K, Mm = dense(Ksp, dofs), dense(Msp, dofs)
        R = rigid_modes(X[used], dim)
        nrig = 3 if dim == 2 else 6
        sym, lmin, kdim, kr = analyse(K, nrig, R)
        ident = dict(ident0, sim="elastic", law=type(law).__name__, thickness=thick)
        res.case((et, "elastic-K"))
        if not (sym <= 1e-12):
            res.fail(f"K not symmetric elem={et}", f"|K - K^T| / |K| = {sym:.2e}", ident)
        if not (lmin >= -1e-10):
            res.fail(f"K not PSD elem={et}", f"smallest eigenvalue / largest = {lmin:.2e}", ident)
        if not (kr <= 1e-10):
            res.fail(f"rigid motion not in kernel elem={et}", f"|K R| relative = {kr:.2e}", ident)
        if kdim != nrig:
            res.fail(f"kernel dimension elem={et} sim=elastic", f"K has {kdim} zero-energy modes on a connected mesh of {Ne} elements, expected {nrig} rigid motions", ident)
        # restrained problem is uniquely solvable
        fixed = np.where(np.isin(used, mesh.Nodes_Conditions(lambda x, y, z: np.isclose((np.c_[x, y, z] - [0.25, -0.5, 0.125 if dim == 3 else 0.0]) @ np.linalg.inv(A).T[:, 0], 0))))[0]
        if not (len(fixed) < dim):
            free = np.setdiff1d(np.arange(len(dofs)), (fixed[:, None] * dim + np.arange(dim)).ravel())
            wff = np.linalg.eigvalsh(K[np.ix_(free, free)])
            res.case((et, "elastic-Kff"))
            if not (wff.min() >= 1e-10 * wff.max()):
                res.fail(f"restrained K singular elem={et}", f"after clamping one side the smallest eigenvalue ratio is {wff.min() / wff.max():.2e}", ident)
        # mass
        measure = mesh.area if dim == 2 else mesh.volume
        symM = np.abs(Mm - Mm.T).max() / np.abs(Mm).max()
        wm = np.linalg.eigvalsh((Mm + Mm.T) / 2)
        res.case((et, "elastic-M"))
        if not (symM <= 1e-12):
            res.fail(f"M not symmetric elem={et}", f"|M - M^T| / |M| = {symM:.2e}", ident)
        if not (wm.min() >= 1e-11 * wm.max()):
            res.fail(f"mass not PD elem={et}", f"consistent mass matrix: smallest eigenvalue / largest = {wm.min() / wm.max():.2e}", ident)
        for c in range(dim):
            tvec = np.zeros((len(used), dim)); tvec[:, c] = 1
            tot = tvec.ravel() @ Mm @ tvec.ravel()
            if not (abs(tot - rho * measure * thick) <= 1e-9 * rho * measure * thick):
                res.fail(f"mass total elem={et}", f"entries of M in direction {c} sum to {tot}, expected rho x measure x thickness = {rho * measure * thick}", ident)
                break
        # the total follows a change of thickness, then of density, then of the coordinates
        if dim == 2:
            tvec = np.zeros((len(used), dim)); tvec[:, 0] = 1
            law.thickness = thick * 2
            tot = tvec.ravel() @ dense(simu.Get_K_C_M_F()[2], dofs) @ tvec.ravel()
            res.case((et, "elastic-M-after-thickness"))
            if not (abs(tot - 2 * rho * measure * thick) <= 1e-9 * 2 * rho * measure * thick):
                res.fail(f"mass total after thickness change elem={et}", f"after thickness x2 the entries of M sum to {tot}, expected {2 * rho * measure * thick}", ident)
            simu.rho = rho * 3
            tot = tvec.ravel() @ dense(simu.Get_K_C_M_F()[2], dofs) @ tvec.ravel()
            res.case((et, "elastic-M-after-density"))
            if not (abs(tot - 6 * rho * measure * thick) <= 1e-9 * 6 * rho * measure * thick):
                res.fail(f"mass total after density change elem={et}", f"after thickness x2 and density x3 the entries of M sum to {tot}, expected {6 * rho * measure * thick}", ident)
            law.thickness = thick
            simu.rho = rho
        # ---------- heat conduction ----------
        k, c = q(rng, 1, 5), q(rng, 1, 4)
        ts = Simulations.Thermal(mesh, Models.Thermal(k, c, thickness=thick))
        ts.rho = rho
        Kt, Ct, _, _ = ts.Get_K_C_M_F()
        Kt, Ct = dense(Kt, used), dense(Ct, used)
        sym, lmin, kdim, kr = analyse(Kt, 1, np.ones((len(used), 1)))
        ident = dict(ident0, sim="thermal", thickness=thick)
        res.case((et, "thermal"))
        if not (sym <= 1e-12) or not (lmin >= -1e-10) or not (kr <= 1e-10):
            res.fail(f"conductivity matrix elem={et}", f"symmetry {sym:.1e}, min eigenvalue ratio {lmin:.1e}, |K 1| {kr:.1e}", ident)
        if kdim != 1:
            res.fail(f"kernel dimension elem={et} sim=thermal", f"conductivity matrix has {kdim} zero modes, expected 1 (constants)", ident)
        wc = np.linalg.eigvalsh((Ct + Ct.T) / 2)
        tot = np.ones(len(used)) @ Ct @ np.ones(len(used))
        if not (wc.min() >= 1e-11 * wc.max()):
            res.fail(f"capacity not PD elem={et}", f"smallest eigenvalue / largest = {wc.min() / wc.max():.2e}", ident)
        if not (abs(tot - rho * c * measure * thick) <= 1e-9 * abs(rho * c * measure * thick)):
            res.fail(f"capacity total elem={et}", f"entries sum to {tot}, expected rho c measure thickness = {rho * c * measure * thick}", ident)
        # ---------- correspondence on one element ----------
        if et in small or thorough and et in ("TRI10", "QUAD9", "TETRA10", "HEXA8", "PRISM6"):
            g = mesh.Get_list_groupElem(dim)[0]
            e = rng.randrange(g.Ne)
            w = np.asarray(g.Get_weightedJacobian_e_pg("rigi"))[e]
            B = np.asarray(g.Get_B_e_pg("rigi"))[e]
            Cm = np.asarray(law.C)
            Ke = np.asarray(Operators.Bilinear.LinearizedElasticity(g, law.C))[e]
            lines.append(f"K {B.shape[0]} {B.shape[1]} {B.shape[2]} | " + " ".join(fs(v) for v in w) + " | " + " ".join(fs(v) for v in B.ravel()) + " | " + " ".join(fs(v) for v in Cm.ravel()))
            expect.append((Ke, dict(elemType=et, what="LinearizedElasticity", element=int(e))))
            dN = np.asarray(g.Get_dN_e_pg("rigi"))[e]
            De = np.asarray(Operators.Bilinear.GradUGradV(g, k))[e]
            lines.append(f"K {dN.shape[0]} {dN.shape[1]} {dN.shape[2]} | " + " ".join(fs(v) for v in w) + " | " + " ".join(fs(v) for v in dN.ravel()) + " | " + " ".join(fs(v) for v in (k * np.eye(dim)).ravel()))
            expect.append((De, dict(elemType=et, what="GradUGradV", element=int(e))))
            wm_ = np.asarray(g.Get_weightedJacobian_e_pg("mass"))[e]
            N = np.asarray(g.Get_N_pg_rep("mass", dim))
            Me = np.asarray(Operators.Bilinear.UV(g, rho, dof_n=dim))[e]
            lines.append(f"M {N.shape[0]} {N.shape[1]} {N.shape[2]} | " + " ".join(fs(v) for v in wm_) + " | " + fs(rho) + " | " + " ".join(fs(v) for v in N.ravel()))
            expect.append((Me, dict(elemType=et, what="UV", element=int(e))))

    # ---------------- smallest connected meshes (>= 2 elements) ----------------
    for et in types:
        dim = M.dim_of(et)
        coarse = et in M.TRI or et in M.TETRA or et in M.PRISM
        mesh = M.mesh_2d(et, 2.0, 1.0, 3.0 if coarse else 1.0) if dim == 2 else M.mesh_3d(et, 2.0, 1.0, 1.5, 3.0 if coarse else 1.0, 1)
        groups = mesh.Get_list_groupElem(dim)
        Ne = sum(g.Ne for g in groups)
        if Ne < 2:
            continue
        used = np.unique(np.concatenate([g.connect.ravel() for g in groups]))
        dofs = (used[:, None] * dim + np.arange(dim)).ravel()
        simu = Simulations.Elastic(mesh, E_.Isotropic(dim, E=10.0, v=0.25))
        K = dense(simu.Get_K_C_M_F()[0], dofs)
        nrig = 3 if dim == 2 else 6
        sym, lmin, kdim, kr = analyse(K, nrig, rigid_modes(mesh.coord[used], dim))
        res.case((et, "minimal-mesh"))
        res.count("minimal-mesh")
        ident = dict(elemType=et, Ne=int(Ne), Nn=int(mesh.Nn), mesh="smallest", sim="elastic")
        if kdim != nrig:
            res.fail(f"kernel dimension elem={et} sim=elastic mesh=smallest Ne={Ne}", f"K has {kdim} zero-energy modes on a connected mesh of {Ne} elements, expected {nrig} rigid motions", ident)
        Kt = dense(Simulations.Thermal(mesh, Models.Thermal(1.0, 1.0)).Get_K_C_M_F()[0], used)
        kd = analyse(Kt, 1, None)[2]
        if kd != 1:
            res.fail(f"kernel dimension elem={et} sim=thermal mesh=smallest Ne={Ne}", f"conductivity matrix has {kd} zero modes on a connected mesh of {Ne} elements, expected 1", ident)

    # ---------------- segments: 1D conduction ----------------
    for et in M.SEG:
        mesh = M.mesh_1d(et, 4.0, 3)
        k, c, rho = q(rng, 1, 5), q(rng, 1, 4), q(rng, 1, 4)
        ts = Simulations.Thermal(mesh, Models.Thermal(k, c))
        ts.rho = rho
        Kt, Ct, _, _ = ts.Get_K_C_M_F()
        Kt, Ct = dense(Kt), dense(Ct)
        sym, lmin, kdim, kr = analyse(Kt, 1, np.ones((mesh.Nn, 1)))
        ident = dict(elemType=et, sim="thermal-1D", Ne=int(mesh.Ne))
        res.case((et, "thermal-1D"))
        res.count(f"elem:{et}")
        if not (sym <= 1e-12) or not (lmin >= -1e-10) or not (kr <= 1e-10):
            res.fail(f"conductivity matrix elem={et}", f"symmetry {sym:.1e}, min eigenvalue ratio {lmin:.1e}, |K 1| {kr:.1e}", ident)
        if kdim != 1:
            res.fail(f"kernel dimension elem={et} sim=thermal", f"1D conductivity matrix has {kdim} zero modes, expected 1 (constants)", ident)
        wc = np.linalg.eigvalsh((Ct + Ct.T) / 2)
        if not (wc.min() >= 1e-11 * wc.max()):
            res.fail(f"capacity not PD elem={et}", f"smallest eigenvalue / largest = {wc.min() / wc.max():.2e}", ident)

    # ---------------- beams ----------------
    for et in (["SEG2", "SEG3"] if not thorough else ["SEG2", "SEG3", "SEG4", "SEG5"]):
        for timo in (False, True):
            # a random direction from a point off the axes, then members lying ON a coordinate axis, described in both directions
            # (a member on the x-axis is the only one whose elements are not expressed in their own frame)
            for bdim, start, fixed in ((2, (0.5, -0.25, 0.0), None), (3, (0.5, -0.25, 0.0), None), (2, (0.0, 0.0, 0.0), (1, 0, 0)), (2, (4.0, 0.0, 0.0), (-1, 0, 0)),
                                       (3, (4.0, 0.0, 0.0), (-1, 0, 0)), (2, (0.0, 1.0, 0.0), (0, -1, 0)), (3, (0.0, 0.0, 2.0), (0, 0, -1))):
                L = 4.0
                sect = Mesher().Mesh_2D(Domain(Point(), Point(0.5, 0.25)))
                d = np.array([rng.randint(1, 4), rng.randint(-3, 3), rng.randint(-3, 3) if bdim == 3 else 0], dtype=float) if fixed is None else np.array(fixed, dtype=float)
                d = d / np.linalg.norm(d) * L
                beams = [Models.Beam.Isotropic(bdim, Line(Point(*start), Point(start[0] + d[0], start[1] + d[1], start[2] + d[2]), L / 3), sect, 1000.0, 0.25)]
                mesh = Mesher().Mesh_Beams(beams, elemType=ElemType(et))
                try:
                    s = Simulations.Beam(mesh, Models.Beam.BeamStructure(beams), useTimoshenko=timo)
                    rho = q(rng, 1, 8)
                    s.rho = rho
                    Ksp, _, Msp, _ = s.Get_K_C_M_F()
                except Exception as ex:  # noqa: BLE001
                    res.fail(f"beam system raises timo={timo} dim={bdim}", f"Simulations.Beam / Get_K_C_M_F raised {type(ex).__name__}: {str(ex)[:120]}", dict(elemType=et, timoshenko=timo, dim=bdim))
                    continue
                K, Mm = dense(Ksp), dense(Msp)
                nrig = 3 if bdim == 2 else 6
                R = rigid_modes(mesh.coord, bdim, beam=True)
                sym, lmin, kdim, kr = analyse(K, nrig, R)
                ident = dict(beam=et, timoshenko=timo, dim=bdim, start=list(start), direction=d.tolist(), Ne=int(mesh.Ne))
                res.case(("beam", et, timo, bdim, start, tuple(d.tolist())))
                res.count("beam")
                if not (sym <= 1e-12) or not (lmin >= -1e-10):
                    res.fail(f"beam K not symmetric PSD timo={timo} dim={bdim}", f"symmetry {sym:.1e}, min eigenvalue ratio {lmin:.1e}", ident)
                if not (kr <= 1e-9):
                    res.fail(f"beam rigid motion not in kernel timo={timo} dim={bdim}", f"|K R| relative = {kr:.2e}", ident)
                if kdim != nrig:
                    res.fail(f"beam kernel dimension timo={timo} dim={bdim} elem={et}", f"K has {kdim} zero-energy modes, expected {nrig}", ident)
                symM = np.abs(Mm - Mm.T).max() / np.abs(Mm).max()
                wm = np.linalg.eigvalsh((Mm + Mm.T) / 2)
                if not (symM <= 1e-12) or not (wm.min() >= -1e-10 * wm.max()):
                    res.fail(f"beam M not symmetric PSD timo={timo} dim={bdim}", f"symmetry {symM:.1e}, min eigenvalue ratio {wm.min() / wm.max():.1e}", ident)
                dofn = 3 if bdim == 2 else 6
                area = 0.5 * 0.25
                for cdir in range(bdim):
                    tv = np.zeros((mesh.Nn, dofn)); tv[:, cdir] = 1
                    tot = tv.ravel() @ Mm @ tv.ravel()
                    if not (abs(tot - rho * area * L) <= 1e-8 * rho * area * L):
                        res.fail(f"beam translational mass timo={timo} dim={bdim}", f"direction {cdir}: t^T M t = {tot}, expected rho A L = {rho * area * L}", ident)
                        break

    # ---------------- density and heat capacity given as fields (scalar / per element / per Gauss point), also when Ne == nPg ----------------
    from EasyFEA import MatrixType as _MT
    for et_, a_, b_, h_ in (("TRI3", 2.0, 1.0, 0.7), ("QUAD4", 2.0, 2.0, 1.0), ("TRI6", 2.0, 1.0, 0.7), ("QUAD8", 2.0, 1.0, 0.7)):
        mesh_ = M.mesh_2d(et_, a_, b_, h_)
        g_ = mesh_.groupElem
        Ne_, nPg_ = g_.Ne, g_.Get_gauss(_MT.mass).nPg
        wJ_ = np.asarray(g_.Get_weightedJacobian_e_pg(_MT.mass))
        rho_e = np.array([1 + rng.random() for _ in range(Ne_)])
        c_ep = np.array([[1 + rng.random() for _ in range(nPg_)] for _ in range(Ne_)])
        for name_, rho_, c_ in (("rho per element, c scalar", rho_e, 3.0), ("rho scalar, c per Gauss point", 2.0, c_ep), ("rho per element, c per Gauss point", rho_e, c_ep),
                                ("rho per Gauss point, c per element", c_ep, rho_e), ("rho per element, c per element", rho_e, c_ep[:, 0].copy())):
            ident = dict(elemType=et_, Ne=int(Ne_), nPg=int(nPg_), fields=name_, sim="thermal")
            res.case((et_, "capacity fields", name_))
            res.count("capacity-fields")
            try:
                st_ = Simulations.Thermal(mesh_, Models.Thermal(2.0, c_, thickness=0.5))
                st_.rho = rho_
                Cm = st_.Get_K_C_M_F()[1]
            except Exception as ex:  # noqa: BLE001
                res.fail(f"capacity with field coefficients raises ({name_})", f"{type(ex).__name__}: {str(ex)[:150]}", ident)
                continue
            full = lambda v: np.broadcast_to(np.asarray(v, float).reshape(-1, 1) if np.ndim(v) == 1 else np.asarray(v, float), (Ne_, nPg_))  # noqa: E731
            want_ = 0.5 * float((wJ_ * full(rho_) * full(c_)).sum())
            Cd = Cm.toarray()
            if not (abs(Cd.sum() - want_) <= 1e-9 * want_) or not (np.abs(Cd - Cd.T).max() <= 1e-12 * np.abs(Cd).max()):
                res.fail(f"capacity total with field coefficients ({name_})", f"entries of C sum to {Cd.sum()}, expected the integral of rho c thickness = {want_} (Ne = {Ne_}, nPg = {nPg_})", ident)

    # ---------------- a field of densities / capacities updated in place by its owner and assigned again ----------------
    # (`rho_e *= 1.5; simu.rho = rho_e` is the way to tell the library that the array changed): M and C carry the new field
    for et_, kind_ in (("TRI3", "elastic"), ("QUAD8", "elastic"), ("TRI3", "thermal"), ("HEXA8", "elastic")):
        dimf = M.dim_of(et_)
        meshf = M.mesh_2d(et_, 2.0, 1.0, 0.7) if dimf == 2 else M.mesh_3d(et_, 2.0, 1.0, 1.5, 1.0, 2)
        gf = meshf.groupElem
        wJf = np.asarray(gf.Get_weightedJacobian_e_pg(_MT.mass))
        thf = 0.5 if dimf == 2 else 1.0
        rho_f = np.array([1 + rng.random() for _ in range(gf.Ne)])
        identf = dict(elemType=et_, sim=kind_, ops=["simu.rho = rho_e", "read M", "rho_e *= 1 + e / Ne (in place)", "simu.rho = rho_e", "read M"])
        res.case((et_, "field updated in place and assigned again", kind_))
        try:
            if kind_ == "thermal":
                sf = Simulations.Thermal(meshf, Models.Thermal(2.0, 3.0, thickness=thf))
                slot, fac = 1, 3.0
            else:
                sf = Simulations.Elastic(meshf, Models.Elastic.Isotropic(dimf, E=10.0, v=0.25, **({"thickness": thf} if dimf == 2 else {})))
                slot, fac = 2, 1.0
            sf.rho = rho_f
            tot0 = sf.Get_K_C_M_F()[slot].toarray().sum()
            rho_f *= 1 + np.arange(gf.Ne) / gf.Ne
            sf.rho = rho_f
            tot1 = sf.Get_K_C_M_F()[slot].toarray().sum()
        except Exception as ex:  # noqa: BLE001
            res.fail(f"field updated in place raises sim={kind_}", f"{type(ex).__name__}: {str(ex)[:150]}", identf)
            continue
        ncomp = 1 if kind_ == "thermal" else dimf
        want1 = fac * thf * ncomp * float((wJf * rho_f.reshape(-1, 1)).sum())
        if not (abs(tot1 - want1) <= 1e-9 * want1):
            res.fail(f"mass / capacity after a density field was updated in place and assigned again sim={kind_} elem={et_}",
                     f"entries of {'C' if kind_ == 'thermal' else 'M'} sum to {tot1!r} (before the update {tot0!r}); density x measure x thickness of the field now held by the simulation = {want1!r}", identf)

    # ---------------- thermal plates out of the (x, y) plane, inclined bars; mirrored meshes after an unrelated probing read ----------------
    for et_ in (["TRI3", "QUAD4"] if not thorough else ["TRI3", "QUAD4", "TRI6", "QUAD8"]):
        for scen in ("tilted plate", "mirrored plate after a point probe"):
            mesh_ = M.mesh_2d(et_, 2.0, 1.0, 0.7)
            if scen == "tilted plate":
                mesh_.Rotate(35.0, (0.2, 0.1, 0.0), (1, 2, 1))
            else:
                mesh_.Symmetry((0.3, 0.0, 0.0), (1, 0.5, 0))
                try:
                    mesh_.Evaluate_dofsValues_at_coordinates(mesh_.coord[mesh_.groupElem.connect[0]].mean(0)[None, :], mesh_.coord[:, 0].copy())
                except Exception:  # noqa: BLE001
                    pass
            ident = dict(elemType=et_, scenario=scen, thickness=0.25, sim="thermal")
            res.case((et_, scen))
            res.count("plates-in-space")
            try:
                st_ = Simulations.Thermal(mesh_, Models.Thermal(2.0, 3.0, thickness=0.25))
                st_.rho = 1.5
                Kt_, Ct_, _, _ = st_.Get_K_C_M_F()
                Cd_ = Ct_.toarray()
                wt_ = np.linalg.eigvalsh((Cd_ + Cd_.T) / 2)
                if not (abs(Cd_.sum() - 1.5 * 3.0 * 2.0 * 0.25) <= 1e-9) or wt_.min() <= 0:
                    res.fail(f"capacity of a plate: {scen}", f"entries of C sum to {Cd_.sum()} (expected rho c area thickness = {1.5 * 3.0 * 2.0 * 0.25}), smallest eigenvalue {wt_.min():.3e}", ident)
                lin_ = mesh_.coord @ np.array([0.3, -0.2, 0.1])
                e_lin = float(lin_ @ (Kt_ @ lin_))
                g3 = np.array([0.3, -0.2, 0.1])
                if scen == "tilted plate":
                    Q_ = rodrigues_((1, 2, 1), np.deg2rad(35.0))
                    gt_ = g3 - (g3 @ Q_[:, 2]) * Q_[:, 2]            # tangential part of the gradient
                else:
                    gt_ = np.array([g3[0], g3[1], 0.0])
                want_e = 2.0 * 0.25 * 2.0 * float(gt_ @ gt_)          # k thickness area |grad_t|^2
                if not (abs(e_lin - want_e) <= 1e-9 * (1 + want_e)):
                    res.fail(f"conductivity of a plate: {scen}", f"energy of a linear temperature field = {e_lin}, expected k thickness area |tangential gradient|^2 = {want_e}", ident)
                if scen != "tilted plate":
                    se_ = Simulations.Elastic(mesh_, Models.Elastic.Isotropic(2, E=10.0, v=0.25, planeStress=True, thickness=0.25))
                    se_.rho = 1.5
                    Md_ = se_.Get_K_C_M_F()[2].toarray()
                    if not (abs(Md_.sum() - 2 * 1.5 * 2.0 * 0.25) <= 1e-9) or np.linalg.eigvalsh((Md_ + Md_.T) / 2).min() <= 0:
                        res.fail(f"mass of a plate: {scen}", f"entries of M sum to {Md_.sum()} (expected 2 rho area thickness = {2 * 1.5 * 2.0 * 0.25})", dict(ident, sim="elastic"))
            except Exception as ex:  # noqa: BLE001
                res.fail(f"plate scenario raises: {scen}", f"{type(ex).__name__}: {str(ex)[:150]}", ident)
    for et_ in ("SEG2", "SEG3"):
        try:
            from EasyFEA import Mesher as _Mesher2, ElemType as _ET2
            from EasyFEA.Geoms import Line as _Line2, Point as _Pt2
            mb_ = _Mesher2().Mesh_Beams([Models.Beam.Isotropic(2, _Line2(_Pt2(0, 0), _Pt2(1.6, 1.2), 0.5), _Mesher2().Mesh_2D(__import__("EasyFEA").Geoms.Domain(_Pt2(), _Pt2(0.1, 0.1))), 1.0, 0.3)], elemType=_ET2(et_))
            sb_ = Simulations.Thermal(mb_, Models.Thermal(2.0, 3.0, thickness=0.25))
            sb_.rho = 1.5
            Cb_ = sb_.Get_K_C_M_F()[1].toarray()
            res.case((et_, "inclined bar"))
            if not (abs(Cb_.sum() - 1.5 * 3.0 * 2.0) <= 1e-9):
                res.fail("capacity of an inclined bar", f"entries of C sum to {Cb_.sum()}, expected rho c length = {1.5 * 3.0 * 2.0} (a bar has no thickness)", dict(elemType=et_, sim="thermal", thickness=0.25))
        except Exception as ex:  # noqa: BLE001
            res.fail("inclined bar scenario raises", f"{type(ex).__name__}: {str(ex)[:120]}", dict(elemType=et_, sim="thermal"))

    # ---------------- meshes with more than 46341 dofs (row * Ndof + column no longer fits in 32 bits): sparse identities only ----------------
    for sim_kind, et_ in (("thermal", "QUAD4"), ("elastic", "TRI3")):
        ident = dict(elemType=et_, sim=sim_kind, mesh="large")
        try:
            if sim_kind == "thermal":
                mesh_ = M.mesh_2d(et_, 2.0, 1.0, 0.0063)
                sl_ = Simulations.Thermal(mesh_, Models.Thermal(2.0, 3.0, thickness=0.5))
                sl_.rho = 1.5
                Kl_, Ml_, _, _ = sl_.Get_K_C_M_F()
                Rl_ = np.ones((mesh_.Nn, 1))
                want_m = 1.5 * 3.0 * 2.0 * 0.5
            else:
                mesh_ = M.mesh_2d(et_, 2.0, 1.0, 0.0098)
                sl_ = Simulations.Elastic(mesh_, Models.Elastic.Isotropic(2, E=10.0, v=0.25, planeStress=True, thickness=0.5))
                sl_.rho = 1.5
                Kl_, _, Ml_, _ = sl_.Get_K_C_M_F()
                Rl_ = rigid_modes(mesh_.coord, 2)
                want_m = 2 * 1.5 * 2.0 * 0.5
            ident.update(Ndof=int(Kl_.shape[0]))
            res.case((sim_kind, et_, "large"), nontrivial=Kl_.shape[0] > 46341)
            res.count("large-meshes")
            if Kl_.shape[0] <= 46341:
                res.fail("large mesh is not large", f"{Kl_.shape[0]} dofs", ident)
            for nm_, A_ in (("K", Kl_.tocsr()), ("M", Ml_.tocsr())):
                asym = abs(A_ - A_.T).max() / abs(A_).max()
                dmin = A_.diagonal().min()
                if not (asym <= 1e-12) or not (dmin > 0):
                    res.fail(f"large mesh: {nm_} not symmetric with a positive diagonal sim={sim_kind}", f"|{nm_} - {nm_}.T| / |{nm_}| = {asym:.2e}, smallest diagonal entry {dmin:.3e} ({Kl_.shape[0]} dofs)", ident)
            rr_ = np.abs(Kl_ @ Rl_).max() / abs(Kl_).max()
            if not (rr_ <= 1e-9):
                res.fail(f"large mesh: rigid / constant modes not in the kernel sim={sim_kind}", f"|K R| / |K| = {rr_:.2e}", ident)
            if not (abs(Ml_.sum() - want_m) <= 1e-9 * want_m):
                res.fail(f"large mesh: total mass / capacity sim={sim_kind}", f"entries sum to {Ml_.sum()}, expected {want_m}", ident)
            # x' K y against the sum over elements (the assembled matrix is the scatter-add of the element matrices)
            xv_ = np.cos(np.arange(Kl_.shape[0]) * 0.37)
            yv_ = np.sin(np.arange(Kl_.shape[0]) * 0.11)
            sym_ = float(xv_ @ (Kl_ @ yv_)) - float(yv_ @ (Kl_ @ xv_))
            if not (abs(sym_) <= 1e-9 * abs(Kl_).max() * 10):
                res.fail(f"large mesh: x'Ky != y'Kx sim={sim_kind}", f"difference {sym_:.3e}", ident)
        except Exception as ex:  # noqa: BLE001
            res.fail("large mesh scenario raises", f"{type(ex).__name__}: {str(ex)[:150]}", ident)

    # ---------------- a mesh and its copy: study on A, copy and stretch, study on the copy, back to A ----------------
    for et_ in (["TRI3", "QUAD8"] if not thorough else ["TRI3", "TRI6", "QUAD4", "QUAD8"]):
        ident = dict(elemType=et_, scenario="mesh A studied, A.copy() stretched and studied, A studied again")
        res.case((et_, "copy"))
        res.count("mesh-copies")
        try:
            mA_ = M.mesh_2d(et_, 2.0, 1.0, 0.7)
            lawc_ = lambda: Models.Elastic.Isotropic(2, E=10.0, v=0.25, planeStress=True, thickness=0.5)  # noqa: E731
            s0_ = Simulations.Elastic(mA_, lawc_())
            s0_.rho = 1.5
            s0_.Get_K_C_M_F()
            _ = mA_.area
            mB_ = mA_.copy()
            mB_.Rotate(30.0, (0.0, 0.0, 0.0), (0, 0, 1))
            Xb_ = mB_.coord.copy()
            Xb_[:, 0] *= 1.5
            Xb_[:, 1] *= 0.8
            mB_.coord = Xb_
            for nm_, m_, area_ in (("copy", mB_, 2.0 * 1.5 * 0.8), ("original", mA_, 2.0)):
                sc_ = Simulations.Elastic(m_, lawc_())
                sc_.rho = 1.5
                Kc_, _, Mc_, _ = sc_.Get_K_C_M_F()
                Rc_ = rigid_modes(m_.coord, 2)
                rr_ = np.abs(Kc_ @ Rc_).max() / abs(Kc_).max()
                if not (rr_ <= 1e-9):
                    res.fail(f"mesh copy: rigid modes of the {nm_} not in the kernel", f"|K R| / |K| = {rr_:.2e}", ident)
                if not (abs(Mc_.sum() - 2 * 1.5 * area_ * 0.5) <= 1e-9) or not (abs(m_.area - area_) <= 1e-9):
                    res.fail(f"mesh copy: mass of the {nm_}", f"entries of M sum to {Mc_.sum()} (expected {2 * 1.5 * area_ * 0.5}), mesh.area = {m_.area} (expected {area_})", ident)
        except Exception as ex:  # noqa: BLE001
            res.fail("mesh copy scenario raises", f"{type(ex).__name__}: {str(ex)[:150]}", ident)

    answers = driver.ask(lines)
    if answers is None:
        res.disagree("driver", "model driver does not run: " + getattr(driver, "error", "")[:400])
    else:
        for (real, ident), ans in zip(expect, answers):
            res.traces += 1
            try:
                model = np.array([float(parse_frac(x)) for x in ans.split()]).reshape(real.shape)
            except Exception:  # noqa: BLE001
                res.disagree("element-matrix", dict(ident, model=ans[:80]))
                continue
            if not (np.abs(model - real).max() <= 1e-10 * (1 + np.abs(real).max())):
                res.disagree("element-matrix", dict(ident, maxdiff=float(np.abs(model - real).max())))
    res.search_note = "K / M of every sampled mesh are symmetric, (semi-)definite with the expected kernel and totals"
    res.write("affinely distorted meshes (>= 2 elements) of every 2D / 3D element type: elasticity (isotropic or rotated orthotropic law, random thickness / density) and heat conduction; "
              "segments SEG2-SEG5 in 1D conduction; Euler-Bernoulli / Timoshenko beams in 2D / 3D at random directions; dense eigen-decomposition on the used dofs; "
              "distinct = distinct (element type, matrix kind)")


if __name__ == "__main__":
    from tools.harness._common import run

    run(main)
