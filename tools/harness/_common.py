"""Shared pieces of the correspondence harnesses (run in /repo's interpreter)."""

from __future__ import annotations

import argparse
import json
import os
import random
import subprocess
import sys
import time
from fractions import Fraction

VERIF = os.path.dirname(os.path.dirname(os.path.dirname(os.path.abspath(__file__))))
LEAN = os.path.join(VERIF, "lean")


def parse_args():
    ap = argparse.ArgumentParser()
    ap.add_argument("--tier", default="quick")
    ap.add_argument("--seed", type=int, default=0)
    ap.add_argument("--out", required=True)
    ap.add_argument("--search", action="store_true")
    ap.add_argument("--replay", default=None)
    return ap.parse_args()


def frac_str(q) -> str:
    q = Fraction(q)
    return f"{q.numerator}/{q.denominator}"


def parse_frac(s: str) -> Fraction:
    n, d = s.split("/")
    return Fraction(int(n), int(d))


class Driver:
    """Batch interface to a Lean line-protocol driver (lean/drivers/<name>.lean)."""

    def __init__(self, name: str):
        self.path = os.path.join(LEAN, "drivers", name + ".lean")

    def ask(self, lines: list[str], timeout=1800) -> list[str] | None:
        """Returns one answer per line, or None if the driver cannot run
        (e.g. the generated model no longer builds)."""
        if not lines:
            return []
        p = subprocess.run(["lake", "env", "lean", "--run", self.path], cwd=LEAN, input="\n".join(lines) + "\n",
                           capture_output=True, text=True, timeout=timeout)
        out = p.stdout.splitlines()
        if p.returncode != 0 or len(out) != len(lines):
            self.error = (p.stdout[-2000:] + p.stderr[-2000:])
            return None
        return out


_LAST_RESULT = None


class Result:
    def __init__(self, args):
        global _LAST_RESULT
        _LAST_RESULT = self
        self.args = args
        self.t0 = time.time()
        self.property_failures = []
        self.disagreements = []
        self.evaluations = 0
        self.nontrivial = set()
        self.samples = []
        self.distribution = {}
        self.traces = 0
        self.notes = []
        self.search_note = ""

    def count(self, bucket: str, n=1):
        self.distribution[bucket] = self.distribution.get(bucket, 0) + n

    def case(self, ident, nontrivial=True):
        self.evaluations += 1
        if nontrivial:
            self.nontrivial.add(ident)

    def sample(self, s):
        if len(self.samples) < 6:
            self.samples.append(s)

    def fail(self, key: str, desc: str, input):
        """The PROPERTY fails on the real code for this concrete input."""
        self.property_failures.append(dict(key=key, desc=desc, input=input))

    def disagree(self, what: str, detail):
        """Model and implementation differ (not by itself a violation)."""
        self.disagreements.append(dict(what=what, detail=detail))

    def write(self, rule: str, extra_cov=None):
        if not self.samples:
            # the evidence must always show what was exercised: fall back on the identities of the first cases
            self.samples = [dict(case=str(i)) for i in list(self.nontrivial)[:6]] or [dict(case="none")]
        cov = dict(
            evaluations=self.evaluations,
            distinct_nontrivial=len(self.nontrivial),
            rule=rule,
            samples=self.samples,
            traces_validated_against_impl=self.traces,
            input_distribution=self.distribution,
            notes=self.notes,
            harness_wall_s=round(time.time() - self.t0, 2),
        )
        if extra_cov:
            cov.update(extra_cov)
        with open(self.args.out, "w") as fh:
            json.dump(dict(property_failures=self.property_failures, disagreements=self.disagreements,
                           coverage=cov, search_note=self.search_note), fh, indent=1, default=str)


def rng_for(args) -> random.Random:
    return random.Random(args.seed * 7919 + 13)


def run(main_fn):
    """Runs a harness. An exception escaping it is reported as a failure of the property on the input being processed (the
    library raised, or returned something the oracle could not even compare) instead of aborting the check: what was
    collected so far is kept. On a correct tree no call made by a harness raises."""
    import traceback

    try:
        main_fn()
    except Exception as ex:  # noqa: BLE001
        res = _LAST_RESULT
        if res is None:
            raise
        frames = traceback.extract_tb(ex.__traceback__)
        where = [f"{os.path.basename(f.filename)}:{f.lineno} {f.name}" for f in frames[-6:]]
        inlib = any("EasyFEA" in f.filename for f in frames)
        res.fail(f"check aborted by {type(ex).__name__}" + (" raised inside the library" if inlib else ""),
                 f"{type(ex).__name__}: {str(ex)[:300]}", dict(traceback=where))
        res.search_note = "the harness was aborted by an exception; failures collected before it are kept"
        res.write("aborted run: see the failure 'check aborted by ...'")
