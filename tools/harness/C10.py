"""C10 harness.
(a) correspondence: `Get_Pmat` of the real code vs the generated matrix evaluated exactly by the driver;
(b) the property on the real code: a problem and its image under a rotation (generic angle), a reflection
    and a translation (done with the repo's own Mesh.Rotate / Symmetry / Translate) have solutions related by the
    same transformation: elastic (isotropic and oriented laws with rotated axes; static and one Newmark step),
    thermal, hyperelastic (Newton solve), beams (Euler-Bernoulli / Timoshenko, 2D / 3D) at generic inclinations;
    rigid motions obtained as a sequence of movers (two reflections = a rotation, ...) with pressure loads; motions that map the
    coordinate axes onto themselves (half / quarter turns, coordinate mirrors) with anisotropic laws given in the global axes;
    rotations by a generic angle about a coordinate axis (one material axis stays on a global axis, the other turns) with oriented laws;
    straight runs of two beam members described towards each other, on the x-axis and inclined."""

from __future__ import annotations

import warnings
from fractions import Fraction

import numpy as np

from tools.harness._common import Driver, Result, frac_str, parse_args, parse_frac, rng_for
from tools.harness import _meshes as M

from EasyFEA import Models, Simulations, Mesher, ElemType
from EasyFEA.Models import Get_Pmat
from EasyFEA.Geoms import Domain, Point, Line

E_ = Models.Elastic


def fs(x):
    return frac_str(Fraction(float(x)))


def rodrigues(axis, theta):
    k = np.asarray(axis, float) / np.linalg.norm(axis)
    Kx = np.array([[0, -k[2], k[1]], [k[2], 0, -k[0]], [-k[1], k[0], 0]])
    return np.eye(3) + np.sin(theta) * Kx + (1 - np.cos(theta)) * Kx @ Kx


def reflection(n):
    n = np.asarray(n, float) / np.linalg.norm(n)
    return np.eye(3) - 2 * np.outer(n, n)


def draw_transform(rng, dim, kind):
    """(description, Q (3x3), apply(mesh), map point)"""
    c = np.array([rng.randint(-4, 4) / 4, rng.randint(-4, 4) / 4, rng.randint(-4, 4) / 4 if dim == 3 else 0.0])
    if kind == "rotation":
        th_deg = rng.choice([17.0, 33.5, 71.0, 128.0, 201.5, 305.0])
        axis = (0, 0, 1) if dim == 2 else (rng.randint(1, 3), rng.randint(-3, 3), rng.randint(-3, 3))
        Q = rodrigues(axis, np.deg2rad(th_deg))
        return dict(kind=kind, theta=th_deg, axis=list(axis), center=c.tolist()), Q, (lambda m: m.Rotate(th_deg, tuple(c), tuple(axis))), (lambda X: (X - c) @ Q.T + c)
    if kind == "reflection":
        n = (rng.randint(1, 3), rng.randint(-3, 3), 0) if dim == 2 else (rng.randint(1, 3), rng.randint(-3, 3), rng.randint(-3, 3))
        Q = reflection(n)
        return dict(kind=kind, normal=list(n), point=c.tolist()), Q, (lambda m: m.Symmetry(tuple(c), tuple(n))), (lambda X: (X - c) @ Q.T + c)
    t = c * 3
    return dict(kind=kind, t=t.tolist()), np.eye(3), (lambda m: m.Translate(*t)), (lambda X: X + t)


def make_law(rng, lk, dim, a1, a2, thickness):
    if lk == "iso":
        return E_.Isotropic(dim, E=12.0, v=0.3, planeStress=True, thickness=thickness)
    if lk == "ti":
        return E_.TransverselyIsotropic(dim, 14.0, 5.0, 3.0, 0.25, 0.3, axis_l=a1, axis_t=a2, planeStress=True, thickness=thickness)
    if lk == "ortho":
        return E_.Orthotropic(dim, 15.0, 8.0, 4.0, 2.0, 2.5, 3.0, 0.2, 0.1, 0.25, axis_1=a1, axis_2=a2, planeStress=True, thickness=thickness)
    base = E_.Orthotropic(dim, 15.0, 8.0, 4.0, 2.0, 2.5, 3.0, 0.2, 0.1, 0.25, planeStress=True).C
    n = base.shape[0]
    Pm = np.eye(n) + 0.05 * np.array([[((i * 7 + j * 3) % 5) - 2 for j in range(n)] for i in range(n)])
    law = E_.Anisotropic(dim, Pm @ base @ Pm.T, False, a1, a2)
    if dim == 2:
        law.thickness = thickness
    return law


def build_mesh(et, dim):
    return M.mesh_2d(et, 2.0, 1.0, 0.7 if et in M.TRI else 0.5) if dim == 2 else M.mesh_3d(et, 2.0, 1.0, 1.5, 1.0, 2)


def main():
    args = parse_args()
    rng = rng_for(args)
    res = Result(args)
    driver = Driver("C10")
    warnings.filterwarnings("ignore")
    thorough = args.tier == "thorough"
    lines, expect = [], []
    s2 = np.sqrt(2)

    # ---------------- (a) Get_Pmat vs the generated matrix ----------------
    for rep in range(6 if not thorough else 20):
        for dim in (2, 3):
            Q = rodrigues((0, 0, 1) if dim == 2 else (rng.randint(1, 3), rng.randint(-3, 3), rng.randint(-3, 3)), rng.random() * 6)
            a1, a2 = Q[:dim, 0].copy(), Q[:dim, 1].copy()
            P = np.asarray(Get_Pmat(a1, a2))
            a1n, a2n = a1 / np.linalg.norm(a1), a2 / np.linalg.norm(a2)
            if dim == 3:
                a3 = np.cross(a1n, a2n)
                q = list(a1n) + list(a2n) + list(a3)
            else:
                q = [a1n[0], a1n[1], 0.0, a2n[0], a2n[1], 0.0, 0.0, 0.0, 1.0]
            lines.append(f"pmat{dim} " + " ".join(fs(v) for v in q))
            expect.append((P, dim))

    # ---------------- (a') local frames of beam members vs the model of Model/BeamFrame.lean ----------------
    flines, fexpect = [], []
    sect_f = Mesher().Mesh_2D(Domain(Point(), Point(0.5, 0.25)))
    for rep in range(16 if not thorough else 80):
        bdim = 2 if rep % 4 == 0 else 3
        while True:
            d = np.array([rng.randint(-4, 4), rng.randint(-4, 4), rng.randint(-4, 4) if bdim == 3 else 0], float)
            val = np.array([rng.randint(-4, 4), rng.randint(-4, 4), rng.randint(-4, 4) if bdim == 3 else 0], float)
            if bdim == 2 and rep % 8 == 0:
                val = np.array([0.0, 1.0, 0.0])
            if np.linalg.norm(np.cross(d, val)) > 0.5:
                break
        val = val * rng.choice([0.125, 0.5, 1.0, 3.0, 16.0])         # the setter normalises: the length must not matter
        pA = np.array([rng.randint(-3, 3) / 2, rng.randint(-3, 3) / 2, rng.randint(-3, 3) / 2 if bdim == 3 else 0.0])
        identf = dict(beam_frame=True, dim=bdim, direction=d.tolist(), value=val.tolist(), start=pA.tolist())
        try:
            bm = Models.Beam.Isotropic(bdim, Line(Point(*pA), Point(*(pA + d))), sect_f, 1000.0, 0.25, tuple(val))
            Pf = np.asarray(bm._Calc_P(), float)
            if rep % 3 == 0:
                # a second assignment on the existing model, then back: the frame follows the last assignment
                bm.yAxis = tuple(np.cross(d, val))
                bm.yAxis = tuple(val)
                Pf = np.asarray(bm._Calc_P(), float)
        except Exception as ex:  # noqa: BLE001
            res.fail("beam frame raises", f"{type(ex).__name__}: {ex}"[:300], identf)
            continue
        flines.append("frame " + " ".join(fs(v) for v in list(d) + list(val)))
        fexpect.append((Pf, d, identf))
        res.case(("beam-frame", bdim, rep % 8 == 0, rep % 3 == 0))
        res.count(f"beam-frame:dim{bdim}")

    # ---------------- (a'') the geometric objects of a problem moved with their own movers (Line / Domain / Circle / Points . Translate / Rotate / Symmetry) ----------------
    # a beam problem is moved by moving its mesh AND the lines its members are defined on; the moved geometry must be where the same
    # transformation, written independently (Rodrigues / Householder), puts it, in place and as a copy, and the member built on the moved
    # line must answer like the original member
    from EasyFEA.Geoms import Circle as _Circle, Points as _Points
    for rep in range(6 if not thorough else 18):
        kindg = ["rotation", "reflection", "translation"][rep % 3]
        descg, Qg, moverg, pmapg = draw_transform(rng, 3, kindg)
        geoms = [("Line", lambda: Line(Point(0.5, -0.25, 0.75), Point(2.5, 1.0, -0.5), 0.5)), ("Domain", lambda: Domain(Point(-1.0, 0.5, 0.0), Point(1.5, 2.0, 0.0), 0.5)),
                 ("Circle", lambda: _Circle(Point(0.25, 0.5, 0.0), 1.5, 0.5)), ("Points", lambda: _Points([(0, 0, 0), (2, 0, 1), (2, 1, 0), (0.5, 1.5, -1)], 0.5))]
        for gname, make in geoms:
            res.case(("geometry mover", gname, kindg))
            identg = dict(geometry=gname, transform=descg)
            try:
                g0 = make()
                X0 = np.asarray(g0.coord, float).copy()
                gcopy = moverg_copy = None
                if kindg == "rotation":
                    gcopy = g0.Rotate(descg["theta"], tuple(descg["center"]), tuple(descg["axis"]), copy=True)
                elif kindg == "reflection":
                    gcopy = g0.Symmetry(tuple(descg["point"]), tuple(descg["normal"]), copy=True)
                else:
                    gcopy = g0.Translate(*descg["t"], copy=True)
                Xc = np.asarray(gcopy.coord, float)
                Xstill = np.asarray(g0.coord, float)
                moverg(g0)
                Xin = np.asarray(g0.coord, float)
                wantg = pmapg(X0)
            except Exception as ex:  # noqa: BLE001
                res.fail(f"geometry mover raises geometry={gname} move={kindg}", f"{type(ex).__name__}: {str(ex)[:150]}", identg)
                continue
            if not (np.abs(Xstill - X0).max() <= 1e-12):
                res.fail(f"geometry moved as a copy changes the original geometry={gname} move={kindg}", f"the points of the original moved by {np.abs(Xstill - X0).max():.2e}", identg)
            for label, Xm in (("copy=True", Xc), ("in place", Xin)):
                if not (np.abs(Xm - wantg).max() <= 1e-12 * (1 + np.abs(wantg).max())):
                    res.fail(f"geometric object not moved like the problem geometry={gname} move={kindg}",
                             f"{gname}.{ {'rotation': 'Rotate', 'reflection': 'Symmetry', 'translation': 'Translate'}[kindg] }(...) ({label}): points {Xm.tolist()} instead of {wantg.tolist()} "
                             f"(a member defined on this line keeps its old fiber while its mesh moves)", dict(identg, how=label))
                    break
        # a cantilever defined on a line, moved by moving the line itself: same response in its own axes
        res.case(("beam on a moved line", kindg))
        identb = dict(beam="SEG2", transform=descg, ops=["line = Line(A, B)", "line moved with its own mover", "Beam.Isotropic(3, line, ...)", "tip force"])
        try:
            tips = []
            for movedb in (False, True):
                lineb = Line(Point(0.5, -0.25, 0.75), Point(0.5 + 4.0 * 2 / 3, -0.25 + 4.0 / 3, 0.75 + 4.0 * 2 / 3), 4.0 / 3)
                yb = np.array([1.0, -2.0, 0.0])
                fb = np.array([0.25, 0.5, -0.75])
                if movedb:
                    moverg(lineb)
                    yb, fb = Qg @ yb, Qg @ fb
                bmb = Models.Beam.Isotropic(3, lineb, sect_f, 1000.0, 0.25, tuple(yb))
                mshb = Mesher().Mesh_Beams([bmb], elemType=ElemType("SEG2"))
                sb = Simulations.Beam(mshb, Models.Beam.BeamStructure([bmb]))
                pA_, pB_ = np.asarray(lineb.coord[0], float), np.asarray(lineb.coord[1], float)
                sb.add_dirichlet(mshb.Nodes_Point(Point(*pA_)), [0] * 6, sb.Get_unknowns())
                sb.add_neumann(mshb.Nodes_Point(Point(*pB_)), list(fb), ["x", "y", "z"])
                ub = np.asarray(sb.Solve()).reshape(-1, 6)
                tips.append(ub[mshb.Nodes_Point(Point(*pB_))[0], :3].copy())
            errb = np.abs(tips[1] - Qg @ tips[0]).max() / (1e-30 + np.abs(tips[0]).max())
            if not (errb <= 1e-8):
                res.fail(f"beam on a line moved with its own mover move={kindg}", f"tip displacement {tips[1].tolist()} instead of the moved one {(Qg @ tips[0]).tolist()} (relative {errb:.2e})", identb)
        except Exception as ex:  # noqa: BLE001
            res.fail(f"beam on a moved line raises move={kindg}", f"{type(ex).__name__}: {str(ex)[:200]}", identb)

    # ---------------- (b) continuum problems ----------------
    types = (M.ALL_2D + M.ALL_3D) if thorough else ["TRI3", "TRI6", "QUAD4", "QUAD8", "TETRA4", "TETRA10", "HEXA8", "PRISM6"]
    laws = ["iso", "ti", "ortho", "aniso"]
    for k, et in enumerate(types):
        dim = M.dim_of(et)
        for tk in (["rotation", "reflection", "translation"] if thorough or k % 2 == 0 else ["rotation", "reflection"]):
            lk = laws[(k + len(tk)) % 4]
            if tk == "reflection" and lk == "aniso":
                lk = "ortho"   # a mirrored fully anisotropic law is not a law the constructor can express (left-handed frame)
            desc, Q, mover, pmap = draw_transform(rng, dim, tk)
            th0 = 0.4
            a1 = np.array([np.cos(th0), np.sin(th0), 0.0])
            a2 = np.array([-np.sin(th0), np.cos(th0), 0.0])
            if dim == 3:
                R0 = rodrigues((1, 2, 3), 0.7)
                a1, a2 = R0[:, 0], R0[:, 1]
            thickness = rng.choice([1.0, 0.5]) if dim == 2 else 1.0
            simkind = ["static", "static", "dynamic", "thermal", "hyperelastic"][(k + len(tk)) % 5] if thorough else ["static", "dynamic", "thermal", "static", "hyperelastic"][k % 5]
            tvec = np.array([rng.randint(-4, 4) / 8, rng.randint(1, 4) / 8, rng.randint(-4, 4) / 8 if dim == 3 else 0.0])
            bvec = np.array([rng.randint(-4, 4) / 16, rng.randint(-4, 4) / 16, rng.randint(-4, 4) / 16 if dim == 3 else 0.0])
            out = []
            ident = dict(elemType=et, transform=desc, law=lk, sim=simkind, traction=tvec.tolist(), body=bvec.tolist(), thickness=thickness)
            try:
                for moved in (False, True):
                    mesh = build_mesh(et, dim)
                    clamp = mesh.Nodes_Conditions(lambda x, y, z: x == 0)
                    face = mesh.Nodes_Conditions(lambda x, y, z: x == 2.0)
                    Qm = Q if moved else np.eye(3)
                    if moved:
                        mover(mesh)
                    unk = ["x", "y", "z"][:dim]
                    if simkind == "thermal":
                        s = Simulations.Thermal(mesh, Models.Thermal(2.0, 1.0, thickness=thickness))
                        s.add_dirichlet(clamp, [1.5], ["t"])
                        s.add_surfLoad(face, [float(tvec[1])], ["t"])
                        s.add_volumeLoad(mesh.nodes, [float(bvec[0]) + 0.25], ["t"])
                        u = np.asarray(s.Solve()).ravel()
                        out.append((mesh, u, None, None))
                        continue
                    A1, A2 = Qm @ a1, Qm @ a2
                    if simkind == "hyperelastic":
                        if dim == 3:
                            # fibre and sheet directions out of every coordinate plane, moved with the problem
                            mat = Models.HyperElastic.HolzapfelOgden(3, 0.5, 4.0, 1.2, 5.0, 0.6, 3.0, 0.3, 2.0, 10.0, 0.2, 0.1, A1 / np.linalg.norm(A1), A2 / np.linalg.norm(A2))
                        else:
                            mat = Models.HyperElastic.SaintVenantKirchhoff(dim, 4.0, 4.0, thickness=thickness)
                        s = Simulations.HyperElastic(mesh, mat)
                    else:
                        s = Simulations.Elastic(mesh, make_law(rng, lk, dim, A1[:dim] if dim == 2 else A1, A2[:dim] if dim == 2 else A2, thickness))
                    if simkind == "dynamic":
                        s.rho = 2.0
                        s.Solver_Set_Hyperbolic_Algorithm(0.125)
                    tq, bq = Qm @ tvec, Qm @ bvec
                    scale = 0.02 if simkind == "hyperelastic" else 1.0
                    s.add_dirichlet(clamp, [0.0] * dim, unk)
                    s.add_surfLoad(face, [float(v) * scale for v in tq[:dim]], unk)
                    s.add_volumeLoad(mesh.nodes, [float(v) * scale for v in bq[:dim]], unk)
                    u = np.asarray(s.Solve()).reshape(mesh.Nn, dim)
                    W = float(s.Result("Wdef")) if simkind != "hyperelastic" else None
                    svm = np.asarray(s.Result("Svm", nodeValues=False), dtype=float) if simkind in ("static", "dynamic") else None
                    out.append((mesh, u, W, svm))
            except Exception as ex:  # noqa: BLE001
                res.fail(f"moved problem raises elem={et} sim={simkind}", f"{type(ex).__name__}: {str(ex)[:150]}", ident)
                continue
            (m0, u0, W0, s0), (m1, u1, W1, s1) = out
            res.case((et, tk, lk, simkind))
            res.count(f"transform:{tk}")
            res.count(f"sim:{simkind}")
            res.count(f"law:{lk}")
            # the repo's mover must have moved every node as the transformation says
            want_X = pmap(m0.coord)
            if not (np.abs(m1.coord - want_X).max() <= 1e-9):
                res.fail(f"mesh mover {tk}", f"Mesh.{ {'rotation': 'Rotate', 'reflection': 'Symmetry', 'translation': 'Translate'}[tk] } moved the nodes by up to {np.abs(m1.coord - want_X).max():.2e} away from the transformation", ident)
                continue
            if simkind == "thermal":
                err = np.abs(u1 - u0).max() / (1 + np.abs(u0).max())
                if not (err <= 1e-8):
                    res.fail(f"frame indifference sim=thermal transform={tk}", f"temperatures of the moved problem differ by {err:.2e} (relative)", ident)
                continue
            want = u0 @ Q[:dim, :dim].T
            err = np.abs(u1 - want).max() / (1e-30 + np.abs(want).max())
            tol = 1e-7 if simkind != "hyperelastic" else 1e-5
            if not (err <= tol):
                res.fail(f"frame indifference sim={simkind} transform={tk}", f"solution of the moved problem differs from the moved solution by {err:.2e} (relative, elem {et}, law {lk})", ident)
                continue
            if W0 is not None and not (abs(W1 - W0) <= 1e-7 * (1 + abs(W0))):
                res.fail(f"energy not invariant sim={simkind} transform={tk}", f"Wdef {W0} -> {W1}", ident)
            if s0 is not None and not (np.abs(s1 - s0).max() <= 1e-6 * (1 + np.abs(s0).max())):
                res.fail(f"von Mises not invariant sim={simkind} transform={tk}", f"max difference {np.abs(s1 - s0).max():.2e}", ident)

    # ---------------- 2D problems moved out of the plane z = 0 (a translation of the whole problem) ----------------
    # the library either refuses such a mesh (assertion on the dimensions: outside the domain of the property) or must return the same solution
    for et in (["TRI3", "QUAD4"] if not thorough else ["TRI3", "TRI6", "QUAD4", "QUAD8"]):
        for simk in ("elastic", "thermal"):
            sols_z = []
            identz = dict(elemType=et, sim=simk, move="translation along z by 0.75")
            try:
                for dz in (0.0, 0.75):
                    mz = build_mesh(et, 2)
                    if dz:
                        mz.Translate(0.0, 0.0, dz)
                    cl = mz.Nodes_Conditions(lambda x, y, z: x == 0)
                    fc = mz.Nodes_Conditions(lambda x, y, z: x == 2.0)
                    if simk == "elastic":
                        sz = Simulations.Elastic(mz, Models.Elastic.Isotropic(2, E=10.0, v=0.3, planeStress=True, thickness=0.5))
                        sz.add_dirichlet(cl, [0.0, 0.0], ["x", "y"])
                        sz.add_surfLoad(fc, [0.25, 0.5], ["x", "y"])
                    else:
                        sz = Simulations.Thermal(mz, Models.Thermal(2.0, 1.0, thickness=0.5))
                        sz.add_dirichlet(cl, [1.0], ["t"])
                        sz.add_surfLoad(fc, [0.5], ["t"])
                    sols_z.append(np.asarray(sz.Solve()).copy())
            except AssertionError:
                res.count("out-of-plane:refused")
                continue
            except Exception as ex:  # noqa: BLE001
                res.fail(f"out-of-plane translation raises sim={simk}", f"{type(ex).__name__}: {str(ex)[:150]}", identz)
                continue
            res.case(("out-of-plane", et, simk))
            res.count("out-of-plane:solved")
            errz = np.abs(sols_z[1] - sols_z[0]).max() / (1e-30 + np.abs(sols_z[0]).max())
            if not (errz <= 1e-8):
                res.fail(f"frame indifference sim={simk} dim=2 move=translation along z", f"the same 2D problem on the mesh translated by 0.75 along z is accepted and its solution differs by {errz:.2e} (relative)", identz)

    # ---------------- beams ----------------
    for et in (["SEG2", "SEG3"] if not thorough else ["SEG2", "SEG3", "SEG4"]):
        for timo in (False, True):
            for bdim, variant in ((2, "rotation"), (3, "rotation"), (2, "rotation, default yAxis"), (2, "reflection"), (3, "reflection"),
                                  (2, "half turn of a member lying on the x-axis"), (3, "half turn of a member lying on the x-axis"),
                                  (2, "rotation, one dynamic step"), (3, "rotation, one dynamic step"), (3, "translation far from the origin, fine mesh")):
                L = 4.0
                sect = Mesher().Mesh_2D(Domain(Point(), Point(0.5, 0.25)))
                far = np.array([1.0e4, 2.0e4, 3.0e4]) if variant.startswith("translation far") else np.zeros(3)
                if variant.startswith("translation far"):
                    Q = np.eye(3)                        # a pure translation, large with respect to the member (the node selections must still find its nodes)
                elif variant.startswith("half turn"):
                    Q = np.diag([-1.0, -1.0, 1.0])       # exactly: the moved member runs from the origin towards -x, on the axis
                elif variant == "reflection":
                    nrm = (rng.randint(1, 3), rng.randint(-3, 3), 0) if bdim == 2 else (rng.randint(1, 3), rng.randint(-3, 3), rng.randint(-3, 3))
                    Q = reflection(nrm)
                elif bdim == 2:
                    ang = rng.random() * 5 + 0.3
                    if variant.endswith("default yAxis"):
                        # any inclination, also members drawn right to left; keep away from the vertical (yAxis collinear with the member)
                        ang = rng.choice([0.6, 2.3, 2.6, 3.14159, 3.8, 4.2, 5.6])
                    Q = rodrigues((0, 0, 1), ang)
                else:
                    Q = rodrigues((rng.randint(1, 3), rng.randint(-3, 3), rng.randint(-3, 3)), rng.random() * 5 + 0.3)
                detQ = float(np.sign(np.linalg.det(Q)))
                off = np.array([0.5, -0.25, 0.75 if bdim == 3 else 0.0]) if not variant.startswith("half turn") else np.zeros(3)
                f = np.array([rng.randint(-4, 4) / 4, rng.randint(1, 4) / 4, rng.randint(-4, 4) / 4 if bdim == 3 else 0.0])
                mom = np.array([rng.randint(-4, 4) / 8 if bdim == 3 else 0.0, rng.randint(-4, 4) / 8 if bdim == 3 else 0.0, rng.randint(1, 4) / 8])
                sols, own = [], []
                ident = dict(beam=et, timoshenko=timo, dim=bdim, variant=variant, Q=Q.tolist(), force=f.tolist(), moment=mom.tolist())
                try:
                    for moved in (False, True):
                        Qm = Q if moved else np.eye(3)
                        dm = detQ if moved else 1.0
                        pA = off if not moved else Q @ off + far
                        axis0 = np.array([2.0, 1.0, 2.0]) / 3.0 if variant.startswith("translation far") else np.array([1.0, 0, 0])
                        pB = pA + Qm @ (L * axis0)
                        yAxis = (0.0, 1.0, 0.0) if variant.endswith("default yAxis") else tuple(Qm @ np.array([0.0, 1.0, 0.0]))
                        beams = [Models.Beam.Isotropic(bdim, Line(Point(*pA), Point(*pB), L / (40 if variant.startswith("translation far") else 3)), sect, 1000.0, 0.25, yAxis)]
                        mesh = Mesher().Mesh_Beams(beams, elemType=ElemType(et))
                        s = Simulations.Beam(mesh, Models.Beam.BeamStructure(beams), useTimoshenko=timo)
                        if variant.endswith("dynamic step"):
                            s.rho = 2.0
                            s.Solver_Set_Hyperbolic_Algorithm(0.125)      # the consistent mass of the inclined member enters the step
                        nA, nB = mesh.Nodes_Point(Point(*pA)), mesh.Nodes_Point(Point(*pB))
                        fq, mq = Qm @ f, dm * (Qm @ mom)          # a moment is a pseudo-vector
                        if bdim == 2:
                            s.add_dirichlet(nA, [0, 0, 0], ["x", "y", "rz"])
                            s.add_neumann(nB, [fq[0], fq[1], dm * mom[2]], ["x", "y", "rz"])
                            s.add_lineLoad(mesh.nodes, [float(0.5 * fq[0]), float(0.5 * fq[1])], ["x", "y"])
                        else:
                            s.add_dirichlet(nA, [0] * 6, ["x", "y", "z", "rx", "ry", "rz"])
                            s.add_neumann(nB, list(fq) + list(mq), ["x", "y", "z", "rx", "ry", "rz"])
                            s.add_lineLoad(mesh.nodes, [float(0.5 * v) for v in fq], ["x", "y", "z"])
                        u = np.asarray(s.Solve()).reshape(mesh.Nn, -1)
                        order = np.argsort((mesh.coord - pA) @ (Qm @ axis0))
                        sols.append(u[order])
                        # internal forces in the member's own axes, element by element along the member
                        eorder = np.argsort((mesh.coord[np.asarray(mesh.groupElem.connect)].mean(1) - pA) @ (Qm @ axis0))
                        own.append({nm: np.asarray(s.Result(nm, nodeValues=False)).ravel()[eorder] for nm in (["N", "Ty", "Mz"] if bdim == 2 else ["N", "Mx", "My", "Mz"])})
                except Exception as ex:  # noqa: BLE001
                    res.fail(f"moved beam raises timo={timo} dim={bdim}", f"{type(ex).__name__}: {str(ex)[:150]}", ident)
                    continue
                if bdim == 3 and variant == "rotation":
                    # in place: the member is turned about its own line on the existing model (only the section axes change,
                    # no node moves): the response must turn with it
                    try:
                        pA0 = off
                        ax0 = np.array([1.0, 0, 0])
                        ang0 = rng.choice([0.6, 1.1, 2.0])
                        Q0 = rodrigues(tuple(ax0), ang0)
                        beams0 = [Models.Beam.Isotropic(3, Line(Point(*pA0), Point(*(pA0 + ax0 * L)), L / 3), sect, 1000.0, 0.25, (0.0, 1.0, 0.0))]
                        mesh0 = Mesher().Mesh_Beams(beams0, elemType=ElemType(et))
                        s0_ = Simulations.Beam(mesh0, Models.Beam.BeamStructure(beams0), useTimoshenko=timo)
                        nA0, nB0 = mesh0.Nodes_Point(Point(*pA0)), mesh0.Nodes_Point(Point(*(pA0 + ax0 * L)))
                        both = []
                        for turned in (False, True):
                            Qt = Q0 if turned else np.eye(3)
                            if turned:
                                beams0[0].yAxis = tuple(Q0 @ np.array([0.0, 1.0, 0.0]))
                            s0_.Bc_Init()
                            s0_.add_dirichlet(nA0, [0] * 6, ["x", "y", "z", "rx", "ry", "rz"])
                            s0_.add_neumann(nB0, list(Qt @ f) + list(Qt @ mom), ["x", "y", "z", "rx", "ry", "rz"])
                            both.append(np.asarray(s0_.Solve()).reshape(mesh0.Nn, -1).copy())
                        ua, ub = both
                        want_b = np.c_[ua[:, :3] @ Q0.T, ua[:, 3:] @ Q0.T]
                        res.case(("beam", et, timo, "in-place turn about the member"))
                        res.count("beam:in-place turn")
                        err0 = np.abs(ub - want_b).max() / (1e-30 + np.abs(want_b).max())
                        if not (err0 <= 1e-7):
                            res.fail(f"beam frame indifference timo={timo} dim=3 elem={et} section axes changed in place", f"after beam.yAxis was turned by {ang0} rad about the member on the existing model, the response differs from the turned response by {err0:.2e} (relative)",
                                     dict(ident, variant="in-place turn about the member", angle=ang0))
                    except Exception as ex:  # noqa: BLE001
                        res.fail(f"in-place beam turn raises timo={timo}", f"{type(ex).__name__}: {str(ex)[:150]}", ident)
                u0, u1 = sols
                res.case(("beam", et, timo, bdim, variant))
                res.count("beam:" + variant)
                if bdim == 2:
                    want = np.c_[u0[:, :2] @ Q[:2, :2].T, detQ * u0[:, 2]]
                else:
                    want = np.c_[u0[:, :3] @ Q.T, detQ * (u0[:, 3:] @ Q.T)]
                err = np.abs(u1 - want).max() / (1e-30 + np.abs(want).max())
                if not (err <= 1e-7):
                    res.fail(f"beam frame indifference timo={timo} dim={bdim} elem={et} {variant}", f"response of the moved member ({variant}) differs from the transformed response by {err:.2e} (relative)", ident)
                elif detQ > 0 and not variant.endswith("default yAxis"):
                    # "the same response in its own axes whatever its inclination": internal forces of the rotated member
                    # (with the default yAxis the section axes do not turn with the member: its own axes are other ones)
                    badf = [nm for nm in own[0] if not (np.abs(own[1][nm] - own[0][nm]).max() <= 1e-6 * (1e-30 + max(np.abs(v).max() for v in own[0].values())))]
                    if badf:
                        res.fail(f"beam internal forces not frame indifferent timo={timo} dim={bdim} elem={et} {variant}",
                                 f"internal forces {badf} of the moved member ({variant}) differ from those of the original member in its own axes: "
                                 f"{badf[0]} = {own[1][badf[0]][:3].tolist()} instead of {own[0][badf[0]][:3].tolist()}", ident)

    # ---------------- rigid motions obtained as a sequence of movers; loads that follow the normal ----------------
    # a rigid motion is a rigid motion however it was obtained: two reflections through parallel planes are a translation,
    # through secant planes a rotation, ... A pressure (a scalar along the normal of the loaded face) moves with the problem.
    # NOTE: the pressure is applied for proper motions only (det Q = +1); see the report of the harness author: after ONE
    # reflection the unchanged library pushes the other way (the normals do not follow the matter).
    sequences = [("reflection", "reflection"), ("rotation", "translation"), ("reflection", "translation", "reflection"),
                 ("rotation", "reflection"), ("reflection", "rotation", "reflection")]
    for k, et in enumerate(["TRI6", "QUAD4", "TETRA4", "HEXA8"] if not thorough else ["TRI3", "TRI6", "QUAD4", "QUAD8", "TETRA4", "TETRA10", "HEXA8", "PRISM6"]):
        dim = M.dim_of(et)
        for seq in (sequences if thorough else [sequences[0], sequences[(k % 4) + 1]]):
            steps = [draw_transform(rng, dim, tk) for tk in seq]
            Q = np.eye(3)
            for st in steps:
                Q = st[1] @ Q
            proper = float(np.linalg.det(Q)) > 0
            pres = [rng.randint(1, 4) / 8, -rng.randint(1, 4) / 16]
            tvec = np.array([rng.randint(-4, 4) / 8, rng.randint(1, 4) / 8, rng.randint(-4, 4) / 8 if dim == 3 else 0.0])
            thickness = 0.5 if dim == 2 else 1.0
            # improper sequences (odd number of reflections): once with the traction only, once with the pressure as well (known finding: the
            # normals do not follow a reflection, see known_findings.txt)
            for with_pressure in ([True] if proper else [False, True]):
                ident = dict(elemType=et, sequence=[st[0] for st in steps], pressure=pres if with_pressure else None, traction=tvec.tolist(), thickness=thickness,
                             bc="clamp x==0; pressure[0] on x==2, pressure[1] on y==1 (improper sequences: with and without); traction on x==2")
                out = []
                try:
                    for moved in (False, True):
                        mesh = build_mesh(et, dim)
                        clamp = mesh.Nodes_Conditions(lambda x, y, z: x == 0)
                        face = mesh.Nodes_Conditions(lambda x, y, z: x == 2.0)
                        top = mesh.Nodes_Conditions(lambda x, y, z: y == 1.0)
                        X0 = mesh.coord.copy()
                        if moved:
                            for st in steps:
                                st[2](mesh)
                        Qm = Q if moved else np.eye(3)
                        unk = ["x", "y", "z"][:dim]
                        s = Simulations.Elastic(mesh, make_law(rng, "iso", dim, None, None, thickness))
                        s.add_dirichlet(clamp, [0.0] * dim, unk)
                        if with_pressure:
                            s.add_pressureLoad(face, pres[0])
                            s.add_pressureLoad(top, pres[1])
                        s.add_surfLoad(face, [float(v) for v in (Qm @ tvec)[:dim]], unk)
                        u = np.asarray(s.Solve()).reshape(mesh.Nn, dim)
                        out.append((X0, mesh.coord.copy(), u, float(s.Result("Wdef"))))
                except Exception as ex:  # noqa: BLE001
                    res.fail(f"problem moved by a sequence of movers raises elem={et}", f"{type(ex).__name__}: {str(ex)[:150]}", ident)
                    continue
                (X0, _, u0, W0), (_, X1, u1, W1) = out
                res.case(("sequence", et, seq))
                res.count("sequence:" + "+".join(seq))
                want_X = X0
                for st in steps:
                    want_X = st[3](want_X)
                if not (np.abs(X1 - want_X).max() <= 1e-9):
                    res.fail("mesh movers in sequence", f"after {'+'.join(seq)} the nodes are up to {np.abs(X1 - want_X).max():.2e} away from the composed transformation", ident)
                    continue
                want = u0 @ Q[:dim, :dim].T
                err = np.abs(u1 - want).max() / (1e-30 + np.abs(want).max())
                if not (err <= 1e-7):
                    res.fail("frame indifference sim=static motion=sequence of movers" + (" load=pressure" if proper else (" load=pressure after an odd number of reflections" if with_pressure else "")),
                             f"after {'+'.join(seq)} (det = {'+1' if proper else '-1'}) the solution of the moved problem differs from the moved solution by {err:.2e} (relative, elem {et})", ident)
                    continue
                if not (abs(W1 - W0) <= 1e-7 * (1 + abs(W0))):
                    res.fail("energy not invariant motion=sequence of movers", f"Wdef {W0} -> {W1} after {'+'.join(seq)}", ident)

    # ---------------- motions that map the coordinate axes onto themselves (half / quarter turns, coordinate mirrors) ----------------
    # "for all rotations" includes the ones after which the material axes lie along the global axes again, possibly reversed:
    # the law given in its own axes (here the global ones) must still be carried by the motion (extension-shear couplings change sign).
    # In 2D a mirrored anisotropic law is expressible (axis_1, axis_2 mirrored in the plane: the third axis flips, which the in-plane law does not see);
    # in 3D only proper motions are used for the fully anisotropic law.
    special = {2: [("half turn", lambda c: np.diag([-1.0, -1.0, 1.0]), lambda m, c: m.Rotate(180.0, tuple(c), (0, 0, 1))),
                   ("quarter turn", lambda c: rodrigues((0, 0, 1), np.pi / 2), lambda m, c: m.Rotate(90.0, tuple(c), (0, 0, 1))),
                   ("mirror x", lambda c: np.diag([-1.0, 1.0, 1.0]), lambda m, c: m.Symmetry(tuple(c), (1, 0, 0))),
                   ("mirror y", lambda c: np.diag([1.0, -1.0, 1.0]), lambda m, c: m.Symmetry(tuple(c), (0, 1, 0)))],
               3: [("half turn on x", lambda c: np.diag([1.0, -1.0, -1.0]), lambda m, c: m.Rotate(180.0, tuple(c), (1, 0, 0))),
                   ("half turn on y", lambda c: np.diag([-1.0, 1.0, -1.0]), lambda m, c: m.Rotate(180.0, tuple(c), (0, 1, 0))),
                   ("half turn on z", lambda c: np.diag([-1.0, -1.0, 1.0]), lambda m, c: m.Rotate(180.0, tuple(c), (0, 0, 1))),
                   ("quarter turn on z", lambda c: rodrigues((0, 0, 1), np.pi / 2), lambda m, c: m.Rotate(90.0, tuple(c), (0, 0, 1))),
                   ("mirror x", lambda c: np.diag([-1.0, 1.0, 1.0]), lambda m, c: m.Symmetry(tuple(c), (1, 0, 0))),
                   ("mirror z", lambda c: np.diag([1.0, 1.0, -1.0]), lambda m, c: m.Symmetry(tuple(c), (0, 0, 1)))]}
    for et in (["TRI3", "QUAD8", "TETRA4", "PRISM6"] if not thorough else ["TRI3", "TRI6", "QUAD4", "QUAD8", "TETRA4", "HEXA8", "PRISM6"]):
        dim = M.dim_of(et)
        for name, Qf, mv in special[dim]:
            c = np.array([0.75, -0.5, 0.25 if dim == 3 else 0.0])
            Q = Qf(c)
            mirror = float(np.linalg.det(Q)) < 0
            for lk in (["aniso", "ortho"] if not thorough else ["aniso", "ortho", "ti"]):
                if lk == "aniso" and mirror and dim == 3:
                    continue    # left-handed frame: not a law the constructor can express
                tvec = np.array([rng.randint(1, 4) / 8, rng.randint(-4, 4) / 8, rng.randint(1, 4) / 8 if dim == 3 else 0.0])
                thickness = 0.5 if dim == 2 else 1.0
                ident = dict(elemType=et, motion=name, center=c.tolist(), law=lk, axes="material axes of the original problem = global x, y", traction=tvec.tolist(), thickness=thickness)
                out = []
                try:
                    for moved in (False, True):
                        mesh = build_mesh(et, dim)
                        clamp = mesh.Nodes_Conditions(lambda x, y, z: x == 0)
                        face = mesh.Nodes_Conditions(lambda x, y, z: x == 2.0)
                        if moved:
                            mv(mesh, c)
                        Qm = Q if moved else np.eye(3)
                        A1, A2 = Qm @ np.array([1.0, 0, 0]), Qm @ np.array([0, 1.0, 0])
                        s = Simulations.Elastic(mesh, make_law(rng, lk, dim, A1[:dim], A2[:dim], thickness))
                        unk = ["x", "y", "z"][:dim]
                        s.add_dirichlet(clamp, [0.0] * dim, unk)
                        s.add_surfLoad(face, [float(v) for v in (Qm @ tvec)[:dim]], unk)
                        u = np.asarray(s.Solve()).reshape(mesh.Nn, dim)
                        out.append((mesh.coord.copy(), u, float(s.Result("Wdef"))))
                except Exception as ex:  # noqa: BLE001
                    res.fail(f"problem moved onto the coordinate axes raises elem={et} law={lk}", f"{type(ex).__name__}: {str(ex)[:150]}", ident)
                    continue
                (X0, u0, W0), (X1, u1, W1) = out
                res.case(("axes onto axes", et, name, lk))
                res.count("axes onto axes:" + name)
                if not (np.abs(X1 - ((X0 - c) @ Q.T + c)).max() <= 1e-9):
                    res.fail(f"mesh mover {name}", f"the nodes are up to {np.abs(X1 - ((X0 - c) @ Q.T + c)).max():.2e} away from the transformation", ident)
                    continue
                want = u0 @ Q[:dim, :dim].T
                err = np.abs(u1 - want).max() / (1e-30 + np.abs(want).max())
                if not (err <= 1e-7):
                    res.fail(f"frame indifference sim=static law={lk} motion maps the coordinate axes onto themselves",
                             f"after a {name} (material axes along the global axes before and after, up to their sense) the solution of the moved problem differs from the moved solution by {err:.2e} (relative, elem {et})", ident)
                    continue
                if not (abs(W1 - W0) <= 1e-7 * (1 + abs(W0))):
                    res.fail(f"energy not invariant law={lk} motion maps the coordinate axes onto themselves", f"Wdef {W0} -> {W1} after a {name}", ident)

    # ---------------- rotations by a generic angle about a coordinate axis, laws given along the coordinate axes ----------------
    # "for all rotations (not only multiples of 90 degrees)", "anisotropic materials with rotated axes": also the rotations that leave
    # ONE material axis on a global axis while the other one turns (block with material axes along x, y, z turned about x, about y,
    # about z), from material axes that are any pair of coordinate axes. 3D only (in the plane both axes turn together).
    E3 = np.eye(3)
    pairs = [(0, 1), (1, 2), (2, 0)] if not thorough else [(0, 1), (1, 2), (2, 0), (1, 0), (2, 1), (0, 2)]
    for k, et in enumerate(["TETRA4", "HEXA8"] if not thorough else ["TETRA4", "TETRA10", "HEXA8", "PRISM6"]):
        for lk in ("ortho", "ti", "aniso"):
            for ip, (i1, i2) in enumerate(pairs):
                a1, a2 = E3[i1].copy(), E3[i2].copy()
                tvec = np.array([rng.randint(1, 4) / 8, rng.randint(-4, 4) / 8, rng.randint(1, 4) / 8])
                bvec = np.array([rng.randint(-4, 4) / 16, rng.randint(-4, 4) / 16, rng.randint(1, 4) / 16])
                ref = None
                for iax in range(3):
                    if not thorough and lk == "aniso" and iax != (k + ip) % 3:
                        continue
                    th_deg = rng.choice([17.0, 33.5, 71.0, 128.0, 201.5, 305.0])
                    c = np.array([rng.randint(-4, 4) / 4, rng.randint(-4, 4) / 4, rng.randint(-4, 4) / 4])
                    Q = rodrigues(E3[iax], np.deg2rad(th_deg))
                    ident = dict(elemType=et, law=lk, axis_1=a1.tolist(), axis_2=a2.tolist(), motion=f"Mesh.Rotate({th_deg}, center, {'xyz'[iax]}-axis)", center=c.tolist(),
                                 traction=tvec.tolist(), body=bvec.tolist(), bc="clamp x==0; traction on x==2; body force; axes, loads moved with the mesh")
                    try:
                        sols3 = [ref] if ref is not None else []
                        for moved in ((False, True) if ref is None else (True,)):
                            mesh = build_mesh(et, 3)
                            clamp = mesh.Nodes_Conditions(lambda x, y, z: x == 0)
                            face = mesh.Nodes_Conditions(lambda x, y, z: x == 2.0)
                            X0 = mesh.coord.copy()
                            if moved:
                                mesh.Rotate(th_deg, tuple(c), tuple(E3[iax]))
                            Qm = Q if moved else np.eye(3)
                            s = Simulations.Elastic(mesh, make_law(rng, lk, 3, Qm @ a1, Qm @ a2, 1.0))
                            s.add_dirichlet(clamp, [0.0] * 3, ["x", "y", "z"])
                            s.add_surfLoad(face, [float(v) for v in Qm @ tvec], ["x", "y", "z"])
                            s.add_volumeLoad(mesh.nodes, [float(v) for v in Qm @ bvec], ["x", "y", "z"])
                            u = np.asarray(s.Solve()).reshape(mesh.Nn, 3).copy()
                            sols3.append((X0, mesh.coord.copy(), u, float(s.Result("Wdef")), np.asarray(s.Result("Svm", nodeValues=False), dtype=float).copy()))
                    except Exception as ex:  # noqa: BLE001
                        res.fail(f"problem turned about a coordinate axis raises elem={et} law={lk}", f"{type(ex).__name__}: {str(ex)[:150]}", ident)
                        continue
                    ref = sols3[0]
                    (X0, _, u0, W0, s0), (_, X1, u1, W1, s1) = sols3
                    res.case(("turn about a coordinate axis", et, lk, (i1, i2), iax))
                    res.count("turn about a coordinate axis:" + "xyz"[iax])
                    if not (np.abs(X1 - ((X0 - c) @ Q.T + c)).max() <= 1e-9):
                        res.fail("mesh mover rotation about a coordinate axis", f"the nodes are up to {np.abs(X1 - ((X0 - c) @ Q.T + c)).max():.2e} away from the transformation", ident)
                        continue
                    want = u0 @ Q.T
                    err = np.abs(u1 - want).max() / (1e-30 + np.abs(want).max())
                    if not (err <= 1e-7):
                        res.fail(f"frame indifference sim=static law={lk} rotation about a coordinate axis, material axes along the coordinate axes",
                                 f"block with material axes ({'xyz'[i1]}, {'xyz'[i2]}) turned by {th_deg} deg about the {'xyz'[iax]}-axis (axes and loads turned with it): "
                                 f"the solution of the moved problem differs from the moved solution by {err:.2e} (relative, elem {et})", ident)
                        continue
                    if not (abs(W1 - W0) <= 1e-7 * (1 + abs(W0))):
                        res.fail(f"energy not invariant law={lk} rotation about a coordinate axis", f"Wdef {W0} -> {W1} after {th_deg} deg about the {'xyz'[iax]}-axis", ident)
                    if not (np.abs(s1 - s0).max() <= 1e-6 * (1 + np.abs(s0).max())):
                        res.fail(f"von Mises not invariant law={lk} rotation about a coordinate axis", f"max difference {np.abs(s1 - s0).max():.2e} after {th_deg} deg about the {'xyz'[iax]}-axis", ident)

    # ---------------- a straight run made of two members described towards each other ----------------
    # "a beam or frame member gives the same response in its own axes whatever its inclination": also when the run lies on the
    # x-axis and its members do not have the same sense (each one described from its support towards the loaded joint).
    for et in (["SEG2", "SEG3"] if not thorough else ["SEG2", "SEG3", "SEG4"]):
        for timo in (False, True):
            for bdim in (2, 3):
                L1, L2 = 2.5, 3.5
                sect = Mesher().Mesh_2D(Domain(Point(), Point(0.5, 0.25)))
                Q = rodrigues((0, 0, 1), rng.random() * 5 + 0.3) if bdim == 2 else rodrigues((rng.randint(1, 3), rng.randint(-3, 3), rng.randint(-3, 3)), rng.random() * 5 + 0.3)
                f = np.array([rng.randint(1, 4) / 4, -rng.randint(1, 4) / 4, rng.randint(-4, 4) / 4 if bdim == 3 else 0.0])
                mom = np.array([rng.randint(-4, 4) / 8 if bdim == 3 else 0.0, rng.randint(-4, 4) / 8 if bdim == 3 else 0.0, rng.randint(1, 4) / 8])
                ident = dict(beam=et, timoshenko=timo, dim=bdim, Q=Q.tolist(), force=f.tolist(), moment=mom.tolist(),
                             structure="run on the x-axis from 0 to 6: members (0 -> 2.5) and (6 -> 2.5), clamped at 0, pinned at 6, loaded at the joint, line load on both; compared with the run turned by Q")
                sols = []
                try:
                    for moved in (False, True):
                        Qm = Q if moved else np.eye(3)
                        ex = Qm @ np.array([1.0, 0, 0])
                        pA, pJ, pB = 0.0 * ex, L1 * ex, (L1 + L2) * ex
                        yAxis = tuple(Qm @ np.array([0.0, 1.0, 0.0]))
                        beams = [Models.Beam.Isotropic(bdim, Line(Point(*pA), Point(*pJ), L1 / 3), sect, 1000.0, 0.25, yAxis),
                                 Models.Beam.Isotropic(bdim, Line(Point(*pB), Point(*pJ), L2 / 3), sect.copy(), 1000.0, 0.25, yAxis)]
                        mesh = Mesher().Mesh_Beams(beams, elemType=ElemType(et))
                        s = Simulations.Beam(mesh, Models.Beam.BeamStructure(beams), useTimoshenko=timo)
                        nA, nJ, nB = mesh.Nodes_Point(Point(*pA)), mesh.Nodes_Point(Point(*pJ)), mesh.Nodes_Point(Point(*pB))
                        if nJ.size > 1:
                            s.add_connection_fixed(nJ)
                        fq, mq = Qm @ f, Qm @ mom
                        if bdim == 2:
                            s.add_dirichlet(nA, [0, 0, 0], ["x", "y", "rz"])
                            s.add_dirichlet(nB, [0, 0], ["x", "y"])
                            s.add_neumann(nJ[:1], [fq[0], fq[1], mom[2]], ["x", "y", "rz"])
                            s.add_lineLoad(mesh.nodes, [float(0.5 * fq[0]), float(0.5 * fq[1])], ["x", "y"])
                        else:
                            s.add_dirichlet(nA, [0] * 6, ["x", "y", "z", "rx", "ry", "rz"])
                            s.add_dirichlet(nB, [0] * 3, ["x", "y", "z"])
                            s.add_neumann(nJ[:1], list(fq) + list(mq), ["x", "y", "z", "rx", "ry", "rz"])
                            s.add_lineLoad(mesh.nodes, [float(0.5 * v) for v in fq], ["x", "y", "z"])
                        u = np.asarray(s.Solve()).reshape(mesh.Nn, -1)
                        absc = np.round(mesh.coord @ ex, 9)
                        order = np.lexsort((np.arange(absc.size), absc))
                        sols.append((absc[order], u[order]))
                except Exception as ex_:  # noqa: BLE001
                    res.fail(f"two-member run raises timo={timo} dim={bdim}", f"{type(ex_).__name__}: {str(ex_)[:150]}", ident)
                    continue
                (a0, u0), (a1_, u1) = sols
                res.case(("beam run", et, timo, bdim))
                res.count("beam:two members towards each other")
                if a0.shape != a1_.shape or not (np.abs(a0 - a1_).max() <= 1e-8):
                    res.fail("two-member run: the turned run is not meshed like the original", f"{a0.size} / {a1_.size} nodes", ident)
                    continue
                want = np.c_[u0[:, :2] @ Q[:2, :2].T, u0[:, 2]] if bdim == 2 else np.c_[u0[:, :3] @ Q.T, u0[:, 3:] @ Q.T]
                err = np.abs(u1 - want).max() / (1e-30 + np.abs(want).max())
                if not (err <= 1e-7):
                    res.fail(f"beam frame indifference timo={timo} dim={bdim} elem={et} run of two members described towards each other",
                             f"the run lying on the x-axis and the same run turned by a generic rotation have responses that differ by {err:.2e} (relative) once brought back in the same axes", ident)

    # ---------------- distributed moments on a member described in either direction, on and off the x-axis ----------------
    # The same cantilever under a line load on its rotation (rz in 2D, ry / rz in 3D): described from the clamp to the tip or from the
    # tip to the clamp, lying on the x-axis or translated off it. The response must not depend on the description.
    sect_m = Mesher().Mesh_2D(Domain(Point(), Point(0.1, 0.2)))
    for bdim, unk_m in ((2, "rz"), (3, "ry"), (3, "rz")):
        for timo in (False, True):
            for etb in (["SEG2", "SEG3"] if not thorough else ["SEG2", "SEG3", "SEG4"]):
                if timo and etb == "SEG2":
                    continue
                q_m = rng.randint(1, 8) * 250.0
                ident = dict(sim="beam", dim=bdim, timoshenko=timo, elemType=etb, load=f"line load {q_m} on {unk_m}", clamp="x = 0")
                tips = {}
                try:
                    for name_m, (p0_, p1_, off_) in (("clamp -> tip on the x-axis", ((0, 0, 0), (1, 0, 0), (0, 0, 0))),
                                                     ("tip -> clamp on the x-axis", ((1, 0, 0), (0, 0, 0), (0, 0, 0))),
                                                     ("tip -> clamp at y = 2", ((1, 2, 0), (0, 2, 0), (0, 2, 0)))):
                        bm_ = Models.Beam.Isotropic(bdim, Line(Point(*p0_), Point(*p1_), 0.25), sect_m, 210e9, 0.3)
                        mm_ = Mesher().Mesh_Beams([bm_], elemType=ElemType(etb))
                        sm_ = Simulations.Beam(mm_, Models.Beam.BeamStructure([bm_]), useTimoshenko=timo)
                        unks_ = sm_.Get_unknowns()
                        sm_.add_dirichlet(mm_.Nodes_Point(Point(*off_)), [0.0] * len(unks_), unks_)
                        sm_.add_lineLoad(mm_.nodes, [q_m], [unk_m])
                        um_ = np.asarray(sm_.Solve()).reshape(mm_.Nn, -1)
                        tip_ = int(np.argmax(np.linalg.norm(mm_.coord - np.array(off_, dtype=float), axis=1)))
                        tips[name_m] = um_[tip_].copy()
                except Exception as ex:  # noqa: BLE001
                    res.fail(f"distributed moment on a beam raises dim={bdim} timo={timo}", f"{type(ex).__name__}: {str(ex)[:150]}", ident)
                    continue
                res.case(("beam-moment", bdim, unk_m, timo, etb))
                res.count("beam-distributed-moments")
                ref_m = tips["clamp -> tip on the x-axis"]
                if not (np.abs(ref_m).max() > 0):
                    res.disagree("vacuous", dict(ident, note="the distributed moment does not move the tip"))
                for name_m, val_m in tips.items():
                    err_m = np.abs(val_m - ref_m).max() / (1e-30 + np.abs(ref_m).max())
                    if not (err_m <= 1e-8):
                        res.fail(f"beam frame indifference timo={timo} dim={bdim} distributed moment, member described {name_m}",
                                 f"tip response {val_m.tolist()} differs from the one of the member described from the clamp to the tip {ref_m.tolist()} (relative {err_m:.2e})", ident)

    answers = driver.ask(lines)
    if answers is None:
        res.disagree("driver", "model driver does not run: " + getattr(driver, "error", "")[:400])
    else:
        for (P, dim), ans in zip(expect, answers):
            res.traces += 1
            try:
                vals = [float(parse_frac(x)) for x in ans.split()]
                n = 3 if dim == 2 else 6
                model = np.array([vals[2 * i] + vals[2 * i + 1] * s2 for i in range(n * n)]).reshape(n, n)
            except Exception:  # noqa: BLE001
                res.disagree("Get_Pmat", dict(dim=dim, model=ans[:80]))
                continue
            if not (np.abs(model - P).max() <= 1e-12):
                res.disagree("Get_Pmat", dict(dim=dim, maxdiff=float(np.abs(model - P).max())))
    fans = driver.ask(flines)
    if fans is None:
        res.disagree("driver", "model driver does not run (frame): " + getattr(driver, "error", "")[:400])
    else:
        for (Pf, d, identf), ans in zip(fexpect, fans):
            res.traces += 1
            try:
                vals = np.array([float(parse_frac(x)) for x in ans.split()])
                ym, zm = vals[:3], vals[3:6]
            except Exception:  # noqa: BLE001
                res.disagree("beam frame", dict(identf, model=ans[:80]))
                continue
            cols = [d / np.linalg.norm(d), ym / np.linalg.norm(ym), zm / np.linalg.norm(zm)]
            errf = max(np.abs(Pf[:, k] - cols[k]).max() for k in range(3))
            if not (errf <= 1e-12):
                res.disagree("beam frame", dict(identf, maxdiff=float(errf), real=Pf.tolist(), model=[c.tolist() for c in cols]))
                # the property-level oracle: P must be a right-handed orthonormal frame whose first column is the fiber
                orth = np.abs(Pf.T @ Pf - np.eye(3)).max()
                if not (orth <= 1e-12 and abs(np.linalg.det(Pf) - 1) <= 1e-12 and np.abs(Pf[:, 0] - cols[0]).max() <= 1e-12):
                    res.fail(f"beam frame not a right-handed orthonormal frame on the fiber dim={identf['dim']}",
                             f"_Calc_P() = {Pf.tolist()} for the fiber direction {identf['direction']} and yAxis value {identf['value']}: |P^T P - 1| = {orth:.2e}, det = {np.linalg.det(Pf):.6f}", identf)
                elif not (np.abs(Pf[:, 1] - cols[1]).max() <= 1e-12):
                    res.fail(f"beam frame: the section axis is not the part of the given vector orthogonal to the fiber dim={identf['dim']}",
                             f"yAxis = {Pf[:, 1].tolist()} instead of {cols[1].tolist()} for the fiber direction {identf['direction']} and the value {identf['value']}: the section is turned about the member, its response in its own axes changes with the inclination", identf)
    res.search_note = "every moved problem has the moved solution on the sampled meshes, laws and transformations"
    res.write("problems moved with Mesh.Rotate (generic angles, generic axes in 3D) / Mesh.Symmetry / Mesh.Translate: clamp + surface traction + body force on meshes of 2D / 3D element types, "
              "isotropic / transversely isotropic / orthotropic / anisotropic laws with axes moved with the problem, static and one Newmark step, heat conduction, hyperelastic Newton solve; "
              "cantilever beams (Euler-Bernoulli / Timoshenko, 2D / 3D) at generic inclinations with tip force, tip moment and line load; sequences of movers with pressure loads; "
              "half / quarter turns and coordinate mirrors with laws given in the global axes; generic turns about x, y, z of 3D blocks with material axes along the coordinate axes; two-member beam runs described towards each other; distinct = distinct (element type, transformation, law, simulation)")


if __name__ == "__main__":
    from tools.harness._common import run

    run(main)
