"""C15 harness: random histories of solve / save-iteration / change-folder / restore / query / replace-mesh /
Save+Load on real simulations. The harness keeps its own deep copies of what was current at each
Save_Iter and compares: Get_results(i), the live fields after Set_Iter(i), Result(name, iter=i),
purity of reads, immutability of earlier iterations, Save / Load_Simu round trip. The same histories
(snapshots numbered) are replayed on the Lean store model."""

from __future__ import annotations

import os
import shutil
import tempfile
import warnings

import numpy as np

from tools.harness._common import Driver, Result, parse_args, rng_for
from tools.harness import _meshes as M

from EasyFEA import Models, Simulations, AlgoType
from EasyFEA.Simulations import Load_Simu


def dy(rng, lo, hi, den=16):
    return rng.randint(int(lo * den), int(hi * den)) / den


def build(kind, rng, et="QUAD4", h=1.0):
    mesh = M.mesh_2d(et, a=2.0, b=1.0, h=h)
    if kind == "elastic":
        s = Simulations.Elastic(mesh, Models.Elastic.Isotropic(2, E=8.0, v=0.25, planeStress=True, thickness=1.0))
        s.Solver_Set_Hyperbolic_Algorithm(0.25)
        names = ["displacement", "speed", "accel", "Svm", "Wdef"]
    elif kind == "thermal":
        s = Simulations.Thermal(mesh, Models.Thermal(2.0, 1.0))
        s.Solver_Set_Parabolic_Algorithm(0.25, 0.5)
        names = ["thermal", "thermalDot"]
    elif kind == "inelastic":
        beh = Models.InElastic.Behavior(2, Models.Elastic.Isotropic(3, E=100.0, v=0.3), hardening=Models.InElastic.IsotropicHardening.Linear(20.0),
                                        yieldSurface=Models.InElastic.Yield.VonMises(1.0), thickness=1.0)
        s = Simulations.InElastic(mesh, beh)
        names = ["displacement", "Svm", "p"]      # p: accumulated plastic strain (internal variable)
    elif kind.startswith("phasefield"):
        solver, split = kind.split(":")[1:3]
        mat = Models.Elastic.Isotropic(2, E=210.0, v=0.3, planeStress=True, thickness=1.0)
        s = Simulations.PhaseField(mesh, Models.PhaseField(mat, split, "AT2", 0.5, 0.4, solver=solver))
        names = ["displacement", "damage", "Wdef"]
    elif kind == "hyperelastic":
        s = Simulations.HyperElastic(mesh, Models.HyperElastic.NeoHookean(2, 2.0))
        s.Solver_Set_Hyperbolic_Algorithm(0.25)
        names = ["displacement", "speed", "accel", "Svm", "W"]
    elif kind == "beam":
        from EasyFEA import Mesher as _Mesher, ElemType as _ET
        from EasyFEA.Geoms import Domain as _Dom, Point as _Pt, Line as _Ln
        beam_ = Models.Beam.Isotropic(2, _Ln(_Pt(0, 0), _Pt(2.0, 0), 0.5), _Mesher().Mesh_2D(_Dom(_Pt(), _Pt(0.1, 0.1))), 1000.0, 0.3)
        mesh = _Mesher().Mesh_Beams([beam_], elemType=_ET.SEG3)
        s = Simulations.Beam(mesh, Models.Beam.BeamStructure([beam_]))
        s.rho = 2.0
        s.Solver_Set_Hyperbolic_Algorithm(0.25)      # a dynamic run: speed and acceleration belong to the state of an iteration
        names = ["displacement", "Mz", "Stress"]
    else:
        raise ValueError(kind)
    return s, mesh, names


def apply_load(s, mesh, kind, val):
    left = mesh.Nodes_Conditions(lambda x, y, z: x == 0)
    right = mesh.Nodes_Conditions(lambda x, y, z: x == 2.0)
    s.Bc_Init()
    if kind == "thermal":
        s.add_dirichlet(left, [0.0], ["t"])
        s.add_dirichlet(right, [val * 10], ["t"])
    elif kind == "beam":
        s.add_dirichlet(left, [0.0, 0.0, 0.0], ["x", "y", "rz"])
        s.add_dirichlet(right, [val], ["y"])
    else:
        s.add_dirichlet(left, [0.0, 0.0], ["x", "y"])
        s.add_dirichlet(right, [val], ["x"])


def snapshot(s, names):
    snap = {}
    for n in names:
        try:
            v = s.Result(n, nodeValues=False) if n == "p" else (s.Result(n, nodeValues=True) if n not in ("Wdef",) else s.Result(n))
        except Exception as ex:  # noqa: BLE001
            v = "error:" + type(ex).__name__
        snap[n] = np.array(v, dtype=float).copy() if not isinstance(v, str) else v
    snap["__Nn"] = int(s.mesh.Nn)
    snap["__Ne"] = int(s.mesh.Ne)
    # the rate fields a transient step starts from (zero for static runs), whatever the simulation advertises as results
    for key, getter in (("__v", "_Get_v_n"), ("__a", "_Get_a_n")):
        try:
            snap[key] = np.array(getattr(s, getter)(s.problemType), dtype=float).copy()
        except Exception as ex:  # noqa: BLE001
            snap[key] = "error:" + type(ex).__name__
    return snap


def snapshot_of_iter(s, names, i):
    """results of stored iteration i read back through Result(name, iter=i) (restores i as a side effect)"""
    s.Set_Iter(i)
    return snapshot(s, names)


def same(a, b, tol=1e-9):
    if isinstance(a, str) or isinstance(b, str):
        return a == b
    a, b = np.asarray(a, float), np.asarray(b, float)
    return a.shape == b.shape and (a.size == 0 or np.abs(a - b).max() <= tol * (1 + np.abs(b).max()))


def mesh_diffs(mesh, m2):
    """what differs between a mesh and the mesh read back from its file: coordinates, groups, connectivities, tags"""
    diffs = []
    if not same(m2.coord, mesh.coord, 0) or m2.dim != mesh.dim:
        diffs.append("coordinates")
    if list(m2.dict_groupElem) != list(mesh.dict_groupElem):
        diffs.append("element groups")
        return diffs
    for t, g in mesh.dict_groupElem.items():
        t = getattr(t, "value", t)
        g2 = m2.dict_groupElem[g.elemType]
        if not np.array_equal(g.connect, g2.connect):
            diffs.append(f"{t} connectivity")
        if sorted(g.nodeTags) != sorted(g2.nodeTags) or sorted(g.elementTags) != sorted(g2.elementTags):
            diffs.append(f"{t} tag names")
            continue
        for tag in g.nodeTags:
            if not np.array_equal(np.sort(g.Get_Nodes_Tag(tag)), np.sort(g2.Get_Nodes_Tag(tag))):
                diffs.append(f"{t} nodes of tag {tag}")
        for tag in g.elementTags:
            if not np.array_equal(np.sort(g.Get_Elements_Tag(tag)), np.sort(g2.Get_Elements_Tag(tag))):
                diffs.append(f"{t} elements of tag {tag}")
    return diffs


def mesh_record(mesh):
    """private copy of what defines a mesh: coordinates and the connectivity of every group"""
    return dict(coord=np.array(mesh.coord, dtype=float).copy(),
                connect={getattr(t, "value", str(t)): np.array(g.connect).copy() for t, g in mesh.dict_groupElem.items()})


def mesh_record_diffs(rec, mesh):
    got = mesh_record(mesh)
    diffs = []
    if got["coord"].shape != rec["coord"].shape:
        diffs.append(f"Nn={got['coord'].shape[0]} (saved {rec['coord'].shape[0]})")
    elif not np.array_equal(got["coord"], rec["coord"]):
        diffs.append("coordinates")
    if list(got["connect"]) != list(rec["connect"]):
        diffs.append("element groups")
    else:
        diffs += [f"{t} connectivity" for t, c in rec["connect"].items() if not np.array_equal(c, got["connect"][t])]
    return diffs


def run_study(kind, specs, folder, val):
    """A static study solved on each mesh of `specs` in turn ((elemType, length a, divisions n): rectangle [0,a]x[0,1], mesh size a/n;
    fixed at x=0, `val` prescribed at x=a), one Save_Iter per mesh, then Save(folder).
    Returns the simulation, the field names and the harness-side record of every saved iteration."""
    s, names, records = None, None, []
    for et, a, n in specs:
        mesh = M.mesh_2d(et, a=a, b=1.0, h=a / n)
        if s is None:
            if kind == "elastic":
                s = Simulations.Elastic(mesh, Models.Elastic.Isotropic(2, E=8.0, v=0.25, planeStress=True, thickness=1.0))
                names = ["displacement", "Svm", "Wdef"]
            else:
                s = Simulations.Thermal(mesh, Models.Thermal(2.0, 1.0))
                names = ["thermal"]
        else:
            s.mesh = mesh
        left = mesh.Nodes_Conditions(lambda x, y, z: x == 0)
        right = mesh.Nodes_Conditions(lambda x, y, z: x == a)
        s.Bc_Init()
        if kind == "elastic":
            s.add_dirichlet(left, [0.0, 0.0], ["x", "y"])
            s.add_dirichlet(right, [val], ["x"])
        else:
            s.add_dirichlet(left, [0.0], ["t"])
            s.add_dirichlet(right, [val * 10], ["t"])
        s.Solve()
        s.Save_Iter()
        records.append(dict(mesh=mesh_record(mesh), snap=snapshot(s, names)))
    s.Save(folder)
    return s, names, records


def loaded_diffs(s2, names, records):
    """(iteration, what differs) for the first iteration of a loaded simulation that is not what the records say, else None"""
    if s2.Niter != len(records):
        return -1, [f"Niter={s2.Niter} (saved {len(records)})"]
    for i in list(range(len(records))) + list(reversed(range(len(records)))):
        s2.Set_Iter(i)
        bad = ["mesh " + d for d in mesh_record_diffs(records[i]["mesh"], s2.mesh)]
        if not bad:
            now = snapshot(s2, names)
            bad = [n for n in list(names) + ["__Nn", "__Ne"] if not same(now[n], records[i]["snap"][n], 1e-7)]
        if bad:
            return i, bad
    return None


def main():
    args = parse_args()
    rng = rng_for(args)
    res = Result(args)
    driver = Driver("C15")
    warnings.filterwarnings("ignore")
    scratch = tempfile.mkdtemp(prefix="verif-c15-")
    kinds = ["elastic", "thermal", "inelastic", "phasefield:HistoryDamage:Miehe", "phasefield:BoundConstrain:Amor", "phasefield:History:Amor",
             "elastic", "thermal", "inelastic", "phasefield:HistoryDamage:Amor", "phasefield:BoundConstrain:Miehe", "phasefield:History:Miehe"]
    # every simulation type: the remaining ones take turns at the end of each run
    extra_kinds = ["hyperelastic", "beam"]
    nhist = 6 if args.tier == "quick" else 18
    nops = 10 if args.tier == "quick" else 16
    lines, expect = [], []
    ms_lines, ms_expect = [], []
    try:
        nextra = 1 if args.tier == "quick" else 4
        for h in range(nhist + nextra):
            kind = kinds[(h + 6 * (args.seed % 2)) % len(kinds)] if h < nhist else extra_kinds[(h - nhist + args.seed) % len(extra_kinds)]
            s, mesh, names = build(kind, rng)
            meshes = [mesh]
            mesh_variants = [("QUAD4", 2.0, 1.0, 0.5), ("TRI3", 2.0, 1.0, 1.0)]  # finer mesh / other elements on the same nodes
            snaps = []          # harness-side record of what was current at each Save_Iter
            stored = []         # private copies of every array of the stored iteration, taken right after Save_Iter
            registry = []       # distinct live states -> id for the Lean model
            model_ops, ops_txt = [], []
            folders = ["-"]
            load = 0.0
            live_id = 0
            lineage = []        # how the live state was produced: ('load', L) / ('save',) / ('mesh',)
            restored = None     # index of the saved iteration the live state is a restore of (None after a solve)
            snap_lineage = []

            def register():
                snap = snapshot(s, names)
                registry.append(snap)
                return len(registry)

            ident = lambda: dict(history=h, sim=kind, ops=list(ops_txt))  # noqa: E731
            if kind == "elastic":
                prefix = ["solve", "save", "mesh", "solve", "save", "set0", "solve", "save", "set1", "query"]
            elif kind.startswith("phasefield"):
                # tension (damage grows), then compression twice: same irreversible damage, other displacement
                prefix = ["solve+", "save", "solve-", "save", "solve-", "save", "set1", "set2", "set1", "set0", "set2"]
            elif kind == "inelastic":
                # iteration 0 is saved before the first solve (virgin state, no internal variable yet), the next two are past yield
                prefix = ["save", "solve+", "save", "solve++", "save", "set0", "set2", "set1", "save", "set0", "save", "set2"]
            else:
                prefix = ["solve", "save"]
            plan = prefix + [rng.choice(["solve", "solve", "save", "save", "folder", "set", "query", "result", "mesh"]) for _ in range(nops)] + ["save", "set", "query"]
            for op in plan:
                if op == "mesh" and (kind != "elastic" or len(meshes) > 2):
                    op = "solve"
                if op in ("solve+", "solve-", "solve++"):
                    load = (0.04 if kind != "inelastic" else 0.05) if op == "solve+" else (load + 0.04 if op == "solve++" else -(abs(load) * 0.75 + 0.005))
                    op = "solve*"
                if op in ("solve", "solve*"):
                    if op == "solve":
                        load += dy(rng, 0.0, 0.02, 256) if kind != "inelastic" else dy(rng, 0.0, 0.03, 256)
                        if not (rng.random() >= 0.25):
                            load = max(0.0, load - 0.02)  # unloading
                    apply_load(s, s.mesh, kind, load)
                    try:
                        s.Solve()
                    except Exception as ex:  # noqa: BLE001
                        res.notes.append(f"{kind}: solve failed ({type(ex).__name__}); history cut")
                        break
                    live_id = register()
                    restored = None
                    lineage.append(("load", load))
                    model_ops += ["solve", str(live_id)]
                    ops_txt.append(f"solve(load={load})")
                elif op == "save":
                    s.Save_Iter()
                    snaps.append(snapshot(s, names))
                    try:
                        stored.append({k: np.array(v, dtype=float).copy() for k, v in s.Get_results(len(snaps) - 1).items()
                                       if isinstance(v, (np.ndarray, float, int)) and not isinstance(v, bool)})
                    except Exception:  # noqa: BLE001
                        stored.append({})
                    if restored is not None:
                        # saving a restored iteration again stores that iteration (spec: setIter j; save appends log[j])
                        res.case((h, len(ops_txt), "re-save"))
                        bad = [n for n in names if not same(snaps[-1][n], snaps[restored][n], 1e-7)]
                        if not bad:
                            back = snapshot_of_iter(s, names, len(snaps) - 1)
                            bad = [n for n in names if not same(back[n], snaps[restored][n], 1e-7)]
                        if bad:
                            res.fail(f"re-save of a restored iteration sim={kind} fields={','.join(bad)}",
                                     f"Set_Iter({restored}) followed by Save_Iter() stored an iteration whose {bad} differ from those of iteration {restored}", ident())
                    lineage.append(("save",))
                    snap_lineage.append((list(lineage), load))
                    model_ops.append("save")
                    ops_txt.append("Save_Iter")
                elif op == "folder":
                    f = rng.choice(["-", "fa", "fb"])
                    s.folder = "" if f == "-" else os.path.join(scratch, f"h{h}", f)
                    model_ops += ["folder", f]
                    ops_txt.append(f"folder={f}")
                elif op == "mesh":
                    newm = M.mesh_2d(*mesh_variants[len(meshes) % 2])
                    meshes.append(newm)
                    s.mesh = newm
                    s.Solver_Set_Hyperbolic_Algorithm(0.25)
                    load = 0.0
                    live_id = register()
                    restored = None
                    lineage.append(("mesh", len(meshes) - 1))
                    model_ops += ["solve", str(live_id)]
                    ops_txt.append("simu.mesh = finer mesh")
                elif snaps and op in ("set", "query", "result", "set0", "set1", "set2"):
                    i = rng.randrange(len(snaps))
                    if op in ("set0", "set1", "set2"):
                        i, op = min(int(op[3]), len(snaps) - 1), "set"
                    want = snaps[i]
                    if op == "query":
                        before = snapshot(s, names)
                        r = s.Get_results(i)
                        after = snapshot(s, names)
                        res.case((h, len(ops_txt), "query-pure"))
                        if any(not same(before[n], after[n]) for n in names):
                            res.fail(f"Get_results alters the simulation sim={kind}", f"Get_results({i}) changed the live state", ident())
                        key = dict(elastic="displacement", thermal="thermal", inelastic="displacement").get(kind, "displacement")
                        res.case((h, len(ops_txt), "query-value"))
                        if key in r and not same(r[key], want[key if key != "thermal" else "thermal"]):
                            res.fail(f"Get_results wrong snapshot sim={kind}", f"Get_results({i})['{key}'] is not the field that was current when iteration {i} was saved", ident())
                        model_ops += ["query", str(i)]
                        ops_txt.append(f"Get_results({i})")
                    else:
                        if op == "set" and kind.startswith("phasefield") and not (rng.random() >= 0.5):
                            # restart variant of the public call: the history field is rebuilt from the restored state,
                            # the restored results are those of iteration i and the stored iterations stay what they were
                            s.Set_Iter(i, resetAll=True)
                            ops_txt.append(f"Set_Iter({i}, resetAll=True)")
                        elif op == "set":
                            s.Set_Iter(i)
                        else:
                            s.Result(names[0], iter=i)  # Result(..., iter=i) restores as a side effect
                        now = snapshot(s, names)
                        res.case((h, len(ops_txt), "restore"))
                        bad = [n for n in list(names) + ["__Nn", "__Ne", "__v", "__a"] if not same(now[n], want[n], 1e-7)]
                        if bad:
                            key = f"restore sim={kind} fields={','.join(bad)}"
                            res.fail(key, f"after {'Set_Iter' if op == 'set' else 'Result(iter=)'}({i}) the results {bad} differ from those current when iteration {i} was saved", ident())
                        # the restored state becomes the live state
                        registry.append(now)
                        live_id = len(registry)
                        restored = i
                        lineage = list(snap_lineage[i][0])
                        load = snap_lineage[i][1]
                        model_ops += ["set", str(i)]
                        ops_txt.append(f"Set_Iter({i})")
                        # continuing from a restored state: a solve from here must equal a solve from the original state
                # immutability of earlier iterations after every operation
                for i, want in enumerate(snaps):
                    r = s.Get_results(i)
                    key = "thermal" if kind == "thermal" else "displacement"
                    res.case((h, len(ops_txt), "immutable", i), nontrivial=False)
                    if key in r and not same(r[key], want[key]):
                        res.fail(f"stored iteration altered sim={kind}", f"iteration {i} changed after '{ops_txt[-1] if ops_txt else ''}'", ident())
                        break
                    changed = [k for k, v in stored[i].items() if k in r and not same(np.array(r[k], dtype=float), v)]
                    if changed:
                        res.fail(f"stored iteration altered sim={kind} entries={','.join(sorted(changed))}",
                                 f"the stored arrays {sorted(changed)} of iteration {i} changed after '{ops_txt[-1] if ops_txt else ''}'", ident())
                        break
            # final sweep: every saved iteration is restored once, in a shuffled order
            order = list(range(len(snaps)))
            rng.shuffle(order)
            for i in order:
                try:
                    s.Set_Iter(i)
                    now = snapshot(s, names)
                except Exception as ex:  # noqa: BLE001
                    res.fail(f"restore raises sim={kind} {type(ex).__name__}", f"Set_Iter({i}) raised {type(ex).__name__}: {str(ex)[:150]}", ident())
                    break
                ops_txt.append(f"Set_Iter({i})")
                model_ops += ["set", str(i)]
                res.case((h, "sweep", i))
                bad = [n for n in list(names) + ["__Nn", "__Ne", "__v", "__a"] if not same(now[n], snaps[i][n], 1e-7)]
                if bad:
                    res.fail(f"restore sim={kind} fields={','.join(bad)}", f"after Set_Iter({i}) the results {bad} differ from those current when iteration {i} was saved", ident())
                    break
            # continuing from a restored iteration equals continuing from the original state
            if snaps:
                i = rng.randrange(len(snaps))
                Ltest = snap_lineage[i][1] + (0.01 if rng.random() < 0.5 else -0.01)
                try:
                    ref, _, _ = build(kind, rng)
                    for step in snap_lineage[i][0]:
                        if step[0] == "load":
                            apply_load(ref, ref.mesh, kind, step[1])
                            ref.Solve()
                        elif step[0] == "save":
                            ref.Save_Iter()
                        else:
                            ref.mesh = M.mesh_2d(*mesh_variants[step[1] % 2])
                            ref.Solver_Set_Hyperbolic_Algorithm(0.25)
                    apply_load(ref, ref.mesh, kind, Ltest)
                    ref.Solve()
                    want = snapshot(ref, names)
                    s.Set_Iter(i)
                    apply_load(s, s.mesh, kind, Ltest)
                    s.Solve()
                    now = snapshot(s, names)
                    ops_txt.append(f"Set_Iter({i}); solve(load={Ltest})")
                    res.case((h, "continue"))
                    bad = [n for n in list(names) + ["__Nn"] if not same(now[n], want[n], 1e-6)]
                    if bad:
                        res.fail(f"continue-after-restore sim={kind} fields={','.join(bad)}",
                                 f"a solve after Set_Iter({i}) gives different {bad} than the same solve from the state that was current when iteration {i} was saved "
                                 "(an internal variable is not restored)", ident())
                except Exception as ex:  # noqa: BLE001
                    res.fail(f"continuation after a restore raises sim={kind}", f"{type(ex).__name__}: {str(ex)[:120]}", ident())
            # Save / Load round trip
            if snaps and h % 2 == 0:
                folder = os.path.join(scratch, f"save{h}")
                try:
                    s.Save(folder)
                    s2 = Load_Simu(folder)
                    res.case((h, "save-load"))
                    if s2.Niter != s.Niter or s2.mesh.Nn != s.mesh.Nn:
                        res.fail(f"save-load sim={kind}", f"loaded simulation has Niter={s2.Niter}, Nn={s2.mesh.Nn}; saved {s.Niter}, {s.mesh.Nn}", ident())
                    else:
                        i = len(snaps) - 1
                        s2.Set_Iter(i)
                        now = snapshot(s2, names)
                        bad = [n for n in names if not same(now[n], snaps[i][n], 1e-7)]
                        if bad:
                            res.fail(f"save-load restore sim={kind} fields={','.join(bad)}", f"after Save/Load_Simu, Set_Iter({i}) gives different {bad}", ident())
                    # the saved simulation goes on living: every iteration is restored (the meshes of the history now live in the
                    # save folder), the folder is changed, every iteration is restored again, and the simulation is saved elsewhere
                    stage = "restore after Save"
                    for rnd in (0, 1):
                        for i2 in (range(len(snaps)) if rnd == 0 else reversed(range(len(snaps)))):
                            s.Set_Iter(i2)
                            now = snapshot(s, names)
                            res.case((h, "after-save", rnd, i2))
                            bad = [n for n in list(names) + ["__Nn", "__Ne", "__v", "__a"] if not same(now[n], snaps[i2][n], 1e-7)]
                            if bad:
                                res.fail(f"restore after Save sim={kind} fields={','.join(bad)}", f"Save(folder), {'folder changed, ' if rnd else ''}Set_Iter({i2}): {bad} differ from those current when iteration {i2} was saved", ident())
                                break
                        s.folder = os.path.join(scratch, f"elsewhere{h}")
                        stage = "restore after Save and a change of folder"
                    stage = "second Save in another folder"
                    folder2 = os.path.join(scratch, f"save{h}b")
                    s.Save(folder2)
                    stage = "Load_Simu of the second Save"
                    s3 = Load_Simu(folder2)
                    res.case((h, "save-save-load"))
                    if s3.Niter != s.Niter:
                        res.fail(f"second save-load sim={kind}", f"simulation saved a second time in another folder: loaded Niter={s3.Niter}, saved {s.Niter}", ident())
                    else:
                        # mesh-store model (Model/MeshStore.lean): which mesh of the history each entry reads back as after
                        # [meshes assigned, Save(A), folder changed, Save(B)], seen through the iterations saved on each mesh
                        sig = [(int(m_.Nn), int(m_.Ne)) for m_ in meshes]
                        seen_ = {}
                        for i2, (lin_, _) in enumerate(snap_lineage):
                            mk_ = max([st_[1] for st_ in lin_ if st_[0] == "mesh"], default=0)
                            if mk_ not in seen_ and len(set(sig)) == len(sig):
                                s3.Set_Iter(i2)
                                got_ = (int(s3.mesh.Nn), int(s3.mesh.Ne))
                                seen_[mk_] = sig.index(got_) if got_ in sig else -1
                        ms_lines.append("ms " + " ".join(f"mesh {k}" for k in range(1, len(meshes))) + " save 1 folder 2 save 3")
                        ms_expect.append((h, kind, dict(seen_)))
                        for i2 in range(len(snaps)):
                            s3.Set_Iter(i2)
                            now = snapshot(s3, names)
                            bad = [n for n in list(names) + ["__Nn", "__Ne", "__v", "__a"] if not same(now[n], snaps[i2][n], 1e-7)]
                            if bad:
                                res.fail(f"second save-load restore sim={kind} fields={','.join(bad)}", f"Save(A), Save(B), Load_Simu(B), Set_Iter({i2}): {bad} differ from those current when iteration {i2} was saved", ident())
                                break
                except AssertionError as ex:
                    res.fail(f"save-load raises sim={kind} stage={locals().get('stage', 'first Save / Load_Simu')}", f"{locals().get('stage', 'first Save / Load_Simu')} raised {type(ex).__name__}: {str(ex)[:150]}", ident())
                except Exception as ex:  # noqa: BLE001
                    res.fail(f"save-load raises sim={kind} {type(ex).__name__}: {str(ex)[:40]}", f"Save/Load_Simu raised {type(ex).__name__}: {str(ex)[:150]}", ident())
            # model correspondence: map each saved snapshot to the id of the live state at save time
            lines.append(" ".join(model_ops))
            expect.append((h, kind, list(ops_txt), len(snaps)))
            res.count("history:" + kind)
            res.sample(dict(history=h, sim=kind, ops=ops_txt[:10]))
        # a save folder that is used again: the simulation read from a folder is the one saved there LAST, whatever the folder held before
        #  - a study (several meshes in its history) is saved in a folder, a second study with other dimensions / meshes / number of
        #    meshes is saved in the same folder (a script run again after a parameter was changed), Load_Simu gives the second one;
        #  - one simulation saved in the same folder before and after its history grew by a mesh (a checkpoint) is read back complete.
        # Expectation: the harness-side records (coordinates, connectivities, fields) taken when each iteration was saved.
        for k in range(3 if args.tier == "quick" else 8):
            kind = ["elastic", "thermal"][(k + args.seed) % 2]
            ets = ["QUAD4", "TRI3", "QUAD8", "TRI6"]

            def specs_(a, count):
                return [(rng.choice(ets), a, rng.choice([2, 3, 4])) for _ in range(count)]

            a1, a2 = rng.sample([1.0, 1.5, 2.0, 3.0], 2)
            first = specs_(a1, rng.choice([1, 2, 3]))
            if k % 3 == 0:
                # same element types and divisions as the first study, other dimensions; the history may be longer
                second = [(et, a2, n) for et, _, n in first] + specs_(a2, rng.choice([0, 1]))
            else:
                second = specs_(a2, rng.choice([1, 2, 3]))
            folder = os.path.join(scratch, f"again{k}")
            ident_ = dict(scenario="two studies saved one after the other in the same folder, then Load_Simu", sim=kind,
                          first=first, second=second, spec="(elemType, length a, divisions n): rectangle [0,a]x[0,1], mesh size a/n")
            res.case(("folder-used-again", k))
            res.count("folder-used-again:" + kind)
            try:
                run_study(kind, first, folder, 0.01)
                _, names2, records = run_study(kind, second, folder, 0.02)
                bad = loaded_diffs(Load_Simu(folder), names2, records)
                if bad:
                    res.fail(f"save-load in a folder used before sim={kind}",
                             f"Save(folder) of a study in a folder that held the Save of another study, Load_Simu(folder), Set_Iter({bad[0]}): {bad[1][:4]} differ from what was saved last", ident_)
                    continue
                # checkpoints: the simulation saved above goes on (one more mesh), and is saved in the same folder again
                ident_ = dict(ident_, scenario="one simulation saved in the same folder before and after a new mesh and iteration, then Load_Simu")
                s_, names2, records = run_study(kind, second, os.path.join(scratch, f"ckpt{k}"), 0.02)
                et, a, n = rng.choice(ets), a2, rng.choice([3, 5])
                ident_["added"] = (et, a, n)
                newm = M.mesh_2d(et, a=a, b=1.0, h=a / n)
                s_.mesh = newm
                s_.Bc_Init()
                s_.add_dirichlet(newm.Nodes_Conditions(lambda x, y, z: x == 0), [0.0, 0.0] if kind == "elastic" else [0.0], ["x", "y"] if kind == "elastic" else ["t"])
                s_.add_dirichlet(newm.Nodes_Conditions(lambda x, y, z: x == a), [0.03] if kind == "elastic" else [0.3], ["x"] if kind == "elastic" else ["t"])
                s_.Solve()
                s_.Save_Iter()
                records.append(dict(mesh=mesh_record(newm), snap=snapshot(s_, names2)))
                s_.Save(os.path.join(scratch, f"ckpt{k}"))
                res.case(("checkpoint", k))
                bad = loaded_diffs(Load_Simu(os.path.join(scratch, f"ckpt{k}")), names2, records)
                if bad:
                    res.fail(f"save-load after a second Save in the same folder sim={kind}",
                             f"Save(folder), new mesh, Solve, Save_Iter, Save(folder), Load_Simu(folder), Set_Iter({bad[0]}): {bad[1][:4]} differ from what was saved", ident_)
            except Exception as ex:  # noqa: BLE001
                res.fail(f"save-load in a folder used before raises sim={kind} {type(ex).__name__}", f"{type(ex).__name__}: {str(ex)[:150]}", ident_)
        # Mesh.Save / Load_Mesh round trip on every element type, with an extra user tag
        from EasyFEA.FEM import Load_Mesh
        types = M.ALL if args.tier == "thorough" else ["SEG3", "TRI6", "QUAD8", "TETRA10", "HEXA8", "PRISM6"]
        for et in types:
            mesh = M.mesh_of(et)
            sel = mesh.Nodes_Conditions(lambda x, y, z: x <= np.median(mesh.coord[:, 0]))
            mesh.Set_Tag(sel, "verifTag")
            path = mesh.Save(os.path.join(scratch, "meshes"), et)
            m2 = Load_Mesh(path)
            res.case(("mesh", et))
            res.count("mesh:" + et)
            diffs = mesh_diffs(mesh, m2)
            if diffs:
                res.fail(f"mesh save-load elem={et} {diffs[0]}", f"Load_Mesh(Mesh.Save(...)) differs from the saved mesh in: {diffs[:4]}", dict(elemType=et))
        # large meshes: an assembly meshed part by part and merged, with more nodes than a 16-bit index holds; its boundary groups
        # (segments, points) use few nodes, some of them with the largest ids. Read back alone and as the second mesh of a history.
        nbig = 256 + rng.choice([0, 1, 3])
        et_big, et_small = rng.choice(["TRI3", "QUAD4"]), rng.choice(["TRI3", "QUAD4"])
        ident_ = dict(scenario="Mesh.Merge of two plates", big=(et_big, "[0,1]x[0,1]", f"h=1/{nbig}"), small=(et_small, "[1,1.5]x[0,1]", "h=1/8"))
        res.case(("mesh", "large-merged"))
        res.count("mesh:large-merged")
        try:
            from EasyFEA import Mesher as _Mesher, ElemType as _ET, Mesh as _Mesh
            from EasyFEA.Geoms import Domain as _Dom, Point as _Pt
            big = _Mesher().Mesh_2D(_Dom(_Pt(0, 0), _Pt(1, 1), 1 / nbig), [], _ET(et_big), isOrganised=True)
            small = _Mesher().Mesh_2D(_Dom(_Pt(1, 0), _Pt(1.5, 1), 1 / 8), [], _ET(et_small), isOrganised=True)
            for name, mesh in (("big+small", _Mesh.Merge([big, small])), ("small+big", _Mesh.Merge([small, big]))):
                ident_["order"] = name
                rec = mesh_record(mesh)
                m2 = Load_Mesh(mesh.Save(os.path.join(scratch, "meshes"), "large-" + name))
                diffs = mesh_diffs(mesh, m2) or mesh_record_diffs(rec, mesh)
                if diffs:
                    res.fail(f"mesh save-load large merged mesh {diffs[0]}", f"Load_Mesh(Mesh.Save(...)) of a merged mesh with {mesh.Nn} nodes differs from the saved mesh in: {diffs[:4]}", ident_)
                    break
                if name == "big+small":
                    s_ = Simulations.Elastic(small, Models.Elastic.Isotropic(2, E=8.0, v=0.25, planeStress=True, thickness=1.0))
                    s_.Save_Iter()
                    s_.mesh = mesh
                    s_.Save_Iter()
                    s_.Save(os.path.join(scratch, "large-simu"))
                    s2 = Load_Simu(os.path.join(scratch, "large-simu"))
                    s2.Set_Iter(0)
                    s2.Set_Iter(1)
                    diffs = mesh_record_diffs(rec, s2.mesh)
                    if diffs:
                        res.fail(f"save-load large merged mesh in the history {diffs[0]}",
                                 f"Save / Load_Simu / Set_Iter(1): the mesh of iteration 1 (a merged mesh with {mesh.Nn} nodes) differs from the saved one in: {diffs[:4]}", ident_)
                        break
        except Exception as ex:  # noqa: BLE001
            res.fail(f"mesh save-load large merged mesh raises {type(ex).__name__}", f"{type(ex).__name__}: {str(ex)[:150]}", ident_)
    finally:
        shutil.rmtree(scratch, ignore_errors=True)

    # ---------------- the time scheme changes between the save and the restore: what was stored with an iteration comes back all the same ----------------
    for kind_ in ("elastic", "hyperelastic"):
        ident_ = dict(sim=kind_, history="two dynamic steps saved, Solver_Set_Elliptic_Algorithm(), Set_Iter(0), Set_Iter(1)")
        res.case(("scheme-changed-before-restore", kind_))
        res.count("scheme-changed-before-restore")
        try:
            msh_ = M.mesh_2d("QUAD4", 2.0, 1.0, 0.5)
            if kind_ == "elastic":
                sd_ = Simulations.Elastic(msh_, Models.Elastic.Isotropic(2, E=10.0, v=0.25, planeStress=True, thickness=1.0))
            else:
                sd_ = Simulations.HyperElastic(msh_, Models.HyperElastic.NeoHookean(2, 2.0))
            sd_.rho = 2.0
            sd_.Solver_Set_Hyperbolic_Algorithm(dt=0.05)
            kept_ = []
            for k_ in range(2):
                sd_.Bc_Init()
                sd_.add_dirichlet(msh_.Nodes_Conditions(lambda x, y, z: x == 0), [0.0, 0.0], ["x", "y"])
                sd_.add_surfLoad(msh_.Nodes_Conditions(lambda x, y, z: x == 2.0), [0.01 * (k_ + 1)], ["x"])
                sd_.Solve()
                sd_.Save_Iter()
                kept_.append({n_: np.asarray(getattr(sd_, n_), dtype=float).copy() for n_ in ("displacement", "speed", "accel")})
            if not (max(np.abs(kept_[0]["speed"]).max(), np.abs(kept_[0]["accel"]).max()) > 0):
                res.disagree("vacuous", dict(ident_, note="the dynamic steps produced no velocity"))
            sd_.Solver_Set_Elliptic_Algorithm()
            for i_ in (0, 1):
                sd_.Set_Iter(i_)
                for n_ in ("displacement", "speed", "accel"):
                    got_ = np.asarray(getattr(sd_, n_), dtype=float)     # the state of the simulation (HyperElastic only advertises speed / accel as results under a time scheme)
                    if got_.shape != kept_[i_][n_].shape or not (np.abs(got_ - kept_[i_][n_]).max() <= 1e-12 * (1 + np.abs(kept_[i_][n_]).max())):
                        res.fail(f"restore after a change of time scheme sim={kind_} field={n_}",
                                 f"Set_Iter({i_}) after Solver_Set_Elliptic_Algorithm(): {n_} differs from the value stored with the iteration by {np.abs(got_ - kept_[i_][n_]).max() if got_.shape == kept_[i_][n_].shape else 'shape'} "
                                 f"(stored max {np.abs(kept_[i_][n_]).max():.3e})", ident_)
        except Exception as ex:  # noqa: BLE001
            res.fail(f"restore after a change of time scheme raises sim={kind_}", f"{type(ex).__name__}: {str(ex)[:150]}", ident_)

    # ... the same for the first-order problems: Thermal (thermal / thermalDot) and WeakForms (u / v), in both directions
    for kind_ in ("thermal", "weakforms"):
        ident_ = dict(sim=kind_, history="two parabolic steps saved, Solver_Set_Elliptic_Algorithm(), one static solve saved, Set_Iter(0), Set_Iter(1), Solver_Set_Parabolic_Algorithm(), Set_Iter(2), Set_Iter(0)")
        res.case(("scheme-changed-before-restore", kind_))
        res.count("scheme-changed-before-restore")
        try:
            from EasyFEA.FEM import Field as _Field, BiLinearForm as _BLF, MatrixType as _MT
            msh_ = M.mesh_2d("QUAD4", 2.0, 1.0, 0.5)
            if kind_ == "thermal":
                sd_ = Simulations.Thermal(msh_, Models.Thermal(2.0, 3.0))
                unk_, names_ = "t", ("thermal", "thermalDot")
            else:
                sd_ = Simulations.WeakForms(msh_, Models.WeakForms(_Field(msh_.groupElem, 1, _MT.mass), _BLF(lambda u, v: 2.0 * u.grad.dot(v.grad)), computeC=_BLF(lambda u, v: 3.0 * u * v)))
                unk_, names_ = "u", ("u", "v")
            sd_.rho = 1.5
            sd_.Solver_Set_Parabolic_Algorithm(0.25, 0.5)
            kept_ = []

            def step_(k_):
                sd_.Bc_Init()
                sd_.add_dirichlet(msh_.Nodes_Conditions(lambda x, y, z: x == 0), [0.0], [unk_])
                sd_.add_dirichlet(msh_.Nodes_Conditions(lambda x, y, z: x == 2.0), [1.0 + k_], [unk_])
                sd_.Solve()
                sd_.Save_Iter()
                kept_.append({n_: np.asarray(getattr(sd_, n_), dtype=float).copy() for n_ in names_})
            step_(0)
            step_(1)
            if not (np.abs(kept_[0][names_[1]]).max() > 0):
                res.disagree("vacuous", dict(ident_, note="the parabolic steps produced no rate"))
            sd_.Solver_Set_Elliptic_Algorithm()
            step_(2)

            def compare_(i_, fields_, after_):
                sd_.Set_Iter(i_)
                for n_ in fields_:
                    got_ = np.asarray(getattr(sd_, n_), dtype=float)
                    if got_.shape != kept_[i_][n_].shape or not (np.abs(got_ - kept_[i_][n_]).max() <= 1e-12 * (1 + np.abs(kept_[i_][n_]).max())):
                        res.fail(f"restore after a change of time scheme sim={kind_} field={n_}",
                                 f"Set_Iter({i_}) after {after_}: {n_} differs from the value stored with the iteration by "
                                 f"{np.abs(got_ - kept_[i_][n_]).max() if got_.shape == kept_[i_][n_].shape else 'shape'} (stored max {np.abs(kept_[i_][n_]).max():.3e})", ident_)
            compare_(0, names_, "Solver_Set_Elliptic_Algorithm()")
            compare_(1, names_, "Solver_Set_Elliptic_Algorithm()")
            sd_.Solver_Set_Parabolic_Algorithm(0.25, 0.5)
            compare_(2, names_[:1], "Solver_Set_Parabolic_Algorithm() (iteration saved by a static solve)")
            compare_(0, names_, "Solver_Set_Parabolic_Algorithm()")
        except Exception as ex:  # noqa: BLE001
            res.fail(f"restore after a change of time scheme raises sim={kind_}", f"{type(ex).__name__}: {str(ex)[:150]}", ident_)

    answers = driver.ask(lines)
    if answers is None:
        res.disagree("driver", "model driver does not run: " + getattr(driver, "error", "")[:400])
    else:
        for (h, kind, ops_txt, nsaved), ans in zip(expect, answers):
            res.traces += 1
            parts = [p.strip() for p in ans.split("|")]
            if len(parts) != 3 or int(parts[0]) != nsaved or "none" in parts[1]:
                res.disagree("iteration-store", dict(history=h, sim=kind, model=ans, saved=nsaved))
    ms_ans = driver.ask(ms_lines)
    if ms_ans is None:
        res.disagree("driver", "model driver does not run (mesh store): " + getattr(driver, "error", "")[:300])
    else:
        for (h, kind, seen_), a in zip(ms_expect, ms_ans):
            res.traces += 1
            model_ = a.split()
            if a == "fail" or any(k >= len(model_) or model_[k] != str(v) for k, v in seen_.items()):
                res.disagree("mesh-store", dict(history=h, sim=kind, model=a, read_back={str(k): v for k, v in seen_.items()}))
    res.search_note = "random save/restore histories found no iteration that comes back different from what was saved"
    res.write("seeded histories (solve with loading/unloading, Save_Iter in memory or in one of two folders, folder changes, Set_Iter, Result(iter=), Get_results, mesh replacement, "
              "Save/Load_Simu) on Elastic (dynamic), Thermal (parabolic), InElastic (von Mises plasticity) and PhaseField (three irreversibility solvers); "
              "non-trivial = restore / query / round-trip checks; distinct = distinct (history, position, check)")


if __name__ == "__main__":
    from tools.harness._common import run

    run(main)
