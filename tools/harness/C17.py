"""C17 harness.
(a) correspondence: numpy's sign / heaviside switches and the history update vs the model;
(b) the property on the real code: for all 14 splits x AT1 / AT2, isotropic and anisotropic materials, 2D and 3D, generic and
    degenerate strain states (zero, hydrostatic, uniaxial, two equal principal values, pure shear, near-degenerate, principal
    values equal up to rounding), mixed within one element: finite parts, sigma+ + sigma- = C eps, psi+ + psi- = 1/2 eps.C eps,
    sigma+ / psi+ / cP eps of Miehe, Zhang, He and the projectors vs an independent eigen-decomposition; whole strain fields of any
    size (1 ... 65537 elements, 1 - 4 points per element, generic states; 2D also fields of equi-biaxial states perturbed at the
    level of the rounding errors): every point against numpy.linalg.eigh (Miehe, Zhang, He) or against the same points evaluated
    in small batches in another order;
    along load / unload histories of a simulation with the three irreversibility solvers: history energy
    and damage never decrease between saved steps, zero loading keeps zero damage."""

from __future__ import annotations

import warnings
from fractions import Fraction

import numpy as np

from tools.harness._common import Driver, Result, frac_str, parse_args, parse_frac, rng_for
from tools.harness import _meshes as M

from EasyFEA import Models, Simulations
from EasyFEA.Models import PhaseField
from EasyFEA.FEM import FeArray

E_ = Models.Elastic
ISOT_ONLY = {"Amor", "Miehe", "Stress"}


def fs(x):
    return frac_str(Fraction(float(x)))


def kelvin(T):
    s = np.sqrt(2)
    if T.shape[0] == 2:
        return np.array([T[0, 0], T[1, 1], s * T[0, 1]])
    return np.array([T[0, 0], T[1, 1], T[2, 2], s * T[1, 2], s * T[0, 2], s * T[0, 1]])


def unkelvin(v):
    s = np.sqrt(2)
    if len(v) == 3:
        return np.array([[v[0], v[2] / s], [v[2] / s, v[1]]])
    return np.array([[v[0], v[5] / s, v[4] / s], [v[5] / s, v[1], v[3] / s], [v[4] / s, v[3] / s, v[2]]])


def rot(rng, dim):
    A = np.array([[rng.gauss(0, 1) for _ in range(dim)] for _ in range(dim)])
    Q, _ = np.linalg.qr(A)
    return Q


def strain_states(rng, dim):
    """(name, tensor) — generic and degenerate states, in random principal frames"""
    out = []
    Q = rot(rng, dim)
    diag = lambda vals: Q @ np.diag(vals) @ Q.T  # noqa: E731
    g = [rng.randint(-8, 8) / 64 for _ in range(dim)]
    out.append(("generic", diag(g) + 0.01 * np.ones((dim, dim)) * (rng.random() - 0.5) * 0))
    out.append(("zero", np.zeros((dim, dim))))
    out.append(("hydrostatic+", 0.02 * np.eye(dim)))
    out.append(("hydrostatic-", -0.03 * np.eye(dim)))
    out.append(("uniaxial+", diag([0.04] + [0.0] * (dim - 1))))
    out.append(("uniaxial-", diag([-0.04] + [0.0] * (dim - 1))))
    out.append(("pure shear", diag([0.03, -0.03] + [0.0] * (dim - 2))))
    out.append(("trace zero", diag([0.05, -0.02] + ([-0.03] if dim == 3 else [])) if dim == 3 else diag([0.02, -0.02])))
    if dim == 3:
        out.append(("two equal +", diag([0.03, 0.03, -0.01])))
        out.append(("two equal -", diag([-0.02, 0.04, -0.02])))
        out.append(("two equal, axis-aligned", np.diag([0.02, 0.02, 0.05])))
    out.append(("axis-aligned", np.diag(([0.03, -0.01, 0.02])[:dim])))
    S01 = np.zeros((dim, dim))
    S01[0, 1] = S01[1, 0] = 1.0
    # principal values that coincide up to rounding, as a finite element computation produces them (equi-biaxial stretch with a shear
    # component / a difference of the normal components at the level of the rounding errors, or below it)
    out.append(("equal up to rounding, shear 1e-18 of the stretch", 0.001 * np.eye(dim) + 1e-21 * S01))
    out.append(("equal up to rounding, compression", -0.001 * np.eye(dim) - 3e-22 * S01))
    out.append(("equal up to rounding, one ulp apart", np.diag([0.02, 0.02 * (1 + 2.0 ** -52)] + [0.02] * (dim - 2)) + 2e-22 * S01))
    out.append(("equal up to rounding, rotated frame", diag([0.02] * dim) + diag([0.0, 0.02 * 2.0 ** -51] + [0.0] * (dim - 2))))
    out.append(("near-degenerate", diag([0.02, 0.02 * (1 + 1e-9)] + ([0.01] if dim == 3 else []))))
    out.append(("tiny", 1e-12 * diag(g)))
    return out


KNOWN3D = "3D spectral decomposition at repeated principal values"


def degenerate(T):
    """two (numerically) equal principal values, zero tensor included"""
    w = np.linalg.eigvalsh(T)
    scale = np.abs(w).max()
    if scale == 0:
        return True
    gaps = np.diff(np.sort(w))
    return bool(gaps.min() < 1e-6 * scale)


def make_material(rng, dim, isot):
    if isot:
        return E_.Isotropic(dim, E=rng.choice([10.0, 210.0]), v=rng.choice([0.0, 0.25, 0.3]), planeStress=bool(rng.getrandbits(1)))
    th = rng.random()
    a1 = (np.cos(th), np.sin(th), 0.0)
    a2 = (-np.sin(th), np.cos(th), 0.0)
    return rng.choice([lambda: E_.Orthotropic(dim, 15.0, 8.0, 4.0, 2.0, 2.5, 3.0, 0.2, 0.1, 0.25, axis_1=a1, axis_2=a2, planeStress=True),
                       lambda: E_.TransverselyIsotropic(dim, 14.0, 5.0, 3.0, 0.25, 0.3, axis_l=a1, axis_t=a2, planeStress=True)])()


def kelvin_v(T):
    """symmetric tensors (..., d, d) -> Kelvin-Mandel vectors"""
    s = np.sqrt(2)
    if T.shape[-1] == 2:
        return np.stack([T[..., 0, 0], T[..., 1, 1], s * T[..., 0, 1]], axis=-1)
    return np.stack([T[..., 0, 0], T[..., 1, 1], T[..., 2, 2], s * T[..., 1, 2], s * T[..., 0, 2], s * T[..., 0, 1]], axis=-1)


def unkelvin_v(v):
    s = np.sqrt(2)
    d = 2 if v.shape[-1] == 3 else 3
    T = np.zeros(v.shape[:-1] + (d, d))
    for i in range(d):
        T[..., i, i] = v[..., i]
    if d == 2:
        T[..., 0, 1] = T[..., 1, 0] = v[..., 2] / s
    else:
        T[..., 1, 2] = T[..., 2, 1] = v[..., 3] / s
        T[..., 0, 2] = T[..., 2, 0] = v[..., 4] / s
        T[..., 0, 1] = T[..., 1, 0] = v[..., 5] / s
    return T


def positive_part_v(vec):
    """(positive part as Kelvin-Mandel vectors, smallest relative gap between principal values) with numpy.linalg.eigh, point by point"""
    w, Q = np.linalg.eigh(unkelvin_v(vec))
    pos = kelvin_v((Q * np.maximum(w, 0)[..., None, :]) @ np.swapaxes(Q, -1, -2))
    gap = np.diff(w, axis=-1).min(axis=-1) / (1e-300 + np.abs(w).max(axis=-1))
    return pos, gap


def generic_field(nrng, dim, Ne, nPg, scale):
    """strain field (Ne, nPg, 3 or 6): well separated principal values of mixed signs, an independent random principal frame at
    every integration point"""
    a = nrng.uniform(-1.5, 0.5, size=(Ne, nPg, 1))
    w = a + np.concatenate([np.zeros((Ne, nPg, 1)), np.cumsum(nrng.uniform(0.2, 1.0, size=(Ne, nPg, dim - 1)), axis=-1)], axis=-1)
    Q, _ = np.linalg.qr(nrng.normal(size=(Ne, nPg, dim, dim)))
    return kelvin_v((Q * (scale * w)[..., None, :]) @ np.swapaxes(Q, -1, -2))


def rounding_field(nrng, dim, Ne, nPg, scale):
    """strain field (Ne, nPg, 3 or 6) of a (nearly) equi-biaxial / hydrostatic stretch or compression as a computation produces it: at
    every point eps = s I + perturbation, s of either sign, the perturbation of all components at the level of the rounding errors
    of the stretch or below (2^-52 ... 2^-75 of the scale); one point in ten is exactly s I, one in twenty exactly zero"""
    sI = nrng.uniform(-1.0, 1.0, size=(Ne, nPg, 1)) * np.array([1.0] * dim + [0.0] * (3 * dim - 3 - dim))
    k = nrng.integers(52, 76, size=(Ne, nPg, 1))
    pert = nrng.normal(size=(Ne, nPg, 3 * dim - 3)) * 2.0 ** (-k)
    u = nrng.random(size=(Ne, nPg, 1))
    return scale * np.where(u < 0.05, 0.0, np.where(u < 0.15, sI, sI + pert))


FIELDS = {"generic_field": generic_field, "rounding_field": rounding_field}


def large_fields(res, rng, splits, thorough):
    """The splits are functions of the strain at ONE integration point: on a field of any size (one element ... several ten
    thousand elements, one or several points per element) every point carries the split of its own strain.
    Miehe / Zhang / He: sigma+ and psi+ of every point against numpy.linalg.eigh; all parts add up to the undamaged stress and
    energy at every point; the other splits: the field evaluated at once against the same points evaluated in another order
    and in small batches."""
    ref_splits = ("Miehe", "Zhang", "He")
    others = [s for s in splits if s not in ref_splits and s != "Bourdin"]
    for dim in (2, 3):
        big = rng.choice([30011, 50021, 65537])
        fields = [(rng.choice([1, 2, 7]), 1), (rng.choice([1021, 2053]), 4), (big, 1)]
        if thorough:
            fields += [(b, 1) for b in (30011, 50021, 65537) if b != big] + [(16411, 3)]
        jobs = [(s, f, "generic_field") for s in ref_splits for f in fields]
        big2 = rng.choice([25013, 30011])
        jobs += [(s, (big2, 1), "generic_field") for s in (others if thorough else rng.sample(others, 3 if dim == 3 else 6))]
        if dim == 2:
            # principal values equal up to rounding at every point (3D: known finding, reported by (b))
            jobs += [(s, f, "rounding_field") for s in ref_splits for f in [(rng.choice([1, 3]), rng.choice([1, 4])), (rng.choice([257, 4099]), 3)]]
        for split, (Ne, nPg), kind in jobs:
            mat = make_material(rng, dim, split in ISOT_ONLY or bool(rng.getrandbits(1)))
            fseed = rng.randint(0, 2 ** 31 - 1)
            scale = rng.choice([1e-5, 1e-3, 5e-2])
            ident = dict(scenario="whole strain field", split=split, dim=dim, material=type(mat).__name__, Ne=Ne, nPg=nPg, field_seed=fseed, strain_scale=scale,
                         field=kind + "(numpy.random.default_rng(field_seed), dim, Ne, nPg, strain_scale)")
            knd = "" if kind == "generic_field" else " principal values equal up to rounding"
            if isinstance(mat, E_.Isotropic):
                ident.update(E=mat.E, v=mat.v, planeStress=bool(mat.planeStress))
            eps = FIELDS[kind](np.random.default_rng(fseed), dim, Ne, nPg, scale)
            FE = lambda a: FeArray.asfearray(np.array(a, dtype=float))  # noqa: E731
            res.count(f"field:{split}")
            res.case(("field", split, dim, Ne, nPg, type(mat).__name__, kind))
            try:
                pfm = Models.PhaseField(mat, split, "AT2", 0.5, 0.1)
                sP, sM = (np.asarray(a, dtype=float) for a in pfm.Calc_Sigma_e_pg(FE(eps)))
                if split in ref_splits:
                    pP, pM = (np.asarray(a, dtype=float) for a in pfm.Calc_psi_e_pg(FE(eps)))
                else:
                    # the same points in another order, a few hundred elements at a time
                    perm = np.random.default_rng(fseed + 1).permutation(Ne)
                    step = 1500
                    parts = [pfm.Calc_Sigma_e_pg(FE(eps[perm[i:i + step]])) for i in range(0, Ne, step)]
                    rP, rM = np.empty_like(sP), np.empty_like(sM)
                    rP[perm] = np.concatenate([np.asarray(a, dtype=float) for a, _ in parts])
                    rM[perm] = np.concatenate([np.asarray(b, dtype=float) for _, b in parts])
            except Exception as ex:  # noqa: BLE001
                res.fail(f"field raises split={split} dim={dim}{knd}", f"{type(ex).__name__}: {str(ex)[:150]} on a strain field of {Ne} elements x {nPg} points", ident)
                continue
            C = np.asarray(mat.C, dtype=float)
            sig = eps @ C.T
            psi = 0.5 * np.sum(sig * eps, axis=-1)
            ssc, psc = max(np.abs(sig).max(), 1e-300), max(np.abs(psi).max(), 1e-300)

            def first_bad(err_e, what):
                """err_e: one relative error per element"""
                bad = np.where(~(err_e <= 1e-7))[0]
                if bad.size == 0:
                    return None
                e = int(bad[0])
                return f"{what}: {bad.size} of {Ne} elements are wrong, e.g. elements {bad[:4].tolist()} (relative error {err_e[e]:.2e})", dict(ident, element=e, strain=eps[e].tolist())

            if sP.shape != eps.shape or sM.shape != eps.shape:
                res.fail(f"field shape split={split} dim={dim}{knd}", f"sigma+ has shape {sP.shape} for a strain field of shape {eps.shape}", ident)
                continue
            # the tensor whose spectral decomposition the split uses; in 3D the closed-form decomposition near repeated principal
            # values is a known finding (reported by (b)): elements with such a point are not compared here
            if split == "Amor":
                pre = None
            elif split == "He":
                lamC, QC = np.linalg.eigh(C)
                pre = rootC = (QC * np.sqrt(lamC)) @ QC.T
            elif split in ("Stress", "Zhang") or split.startswith("AnisotStress"):
                pre = C
            else:
                pre = np.eye(C.shape[0])
            well = np.ones(Ne, dtype=bool)
            if pre is not None:
                tpos, gap = positive_part_v(eps @ pre.T)
                if dim == 3:
                    well = (gap >= 1e-3).all(axis=1)
                    if well.sum() < 0.9 * Ne:
                        res.notes.append(f"field {split} dim={dim} Ne={Ne}: only {int(well.sum())} elements with separated principal values")
            out = first_bad(np.where(well, np.where(np.isfinite(sP + sM), np.abs(sP + sM - sig), np.inf).max(axis=(1, 2)) / ssc, 0.0), "sigma+ + sigma- != C eps")
            if out:
                res.fail(f"field: stress not partitioned split={split} dim={dim}{knd}", f"split {split}, field of {Ne} elements x {nPg} points: " + out[0], out[1])
                continue
            if split not in ref_splits:
                err = np.maximum(np.abs(sP - rP), np.abs(sM - rM)).max(axis=(1, 2)) / ssc
                out = first_bad(np.where(well, err, 0.0), "sigma+ / sigma- of the field evaluated at once differ from the same points evaluated in small batches")
                if out:
                    res.fail(f"field: split depends on the field size split={split} dim={dim}{knd}", f"split {split}, field of {Ne} elements x {nPg} points: " + out[0], out[1])
                continue
            out = first_bad(np.where(well, np.where(np.isfinite(pP + pM), np.abs(pP + pM - psi), np.inf).max(axis=1) / psc, 0.0), "psi+ + psi- != 1/2 eps.C eps")
            if out:
                res.fail(f"field: energy not partitioned split={split} dim={dim}{knd}", f"split {split}, field of {Ne} elements x {nPg} points: " + out[0], out[1])
                continue
            # independent positive parts, point by point (tpos: positive part of the strain / the stress / C^1/2 eps)
            if split == "Miehe":
                lamb, mu = float(mat.get_lambda()), float(mat.get_mu())
                tr = eps[..., :dim].sum(axis=-1)
                one = np.array([1.0] * dim + [0.0] * (eps.shape[-1] - dim))
                refS = lamb * np.maximum(tr, 0)[..., None] * one + 2 * mu * tpos
                refP = 0.5 * lamb * np.maximum(tr, 0) ** 2 + mu * np.sum(tpos * tpos, axis=-1)
            elif split == "Zhang":
                refS = tpos
                refP = 0.5 * np.sum(refS * eps, axis=-1)
            else:
                refS, refP = tpos @ rootC.T, 0.5 * np.sum(tpos * tpos, axis=-1)
            err = np.maximum(np.abs(sP - refS).max(axis=(1, 2)) / ssc, np.abs(pP - refP).max(axis=1) / psc)
            out = first_bad(np.where(well, err, 0.0), "sigma+ / psi+ differ from the positive part computed with numpy.linalg.eigh")
            if out:
                res.fail(f"field: positive part vs eigen-decomposition split={split} dim={dim}{knd}", f"split {split}, field of {Ne} elements x {nPg} points: " + out[0], out[1])


def main():
    args = parse_args()
    rng = rng_for(args)
    res = Result(args)
    driver = Driver("C17")
    warnings.filterwarnings("ignore")
    np.seterr(all="ignore")
    thorough = args.tier == "thorough"
    lines, expect = [], []

    # ---------------- (a) switches ----------------
    for t in [0.0, -0.0, 1e-300, -1e-300, 0.5, -2.25, 3.0]:
        lines.append("sw " + fs(t))
        expect.append(("sw", np.array([(1 + np.sign(t)) / 2, (1 + np.sign(-t)) / 2, np.heaviside(t, 0.5), (t + abs(t)) / 2])))
    hs = [rng.randint(0, 16) / 8 for _ in range(8)]
    H, outH = 0.25, []
    for p in hs:
        H = H if p - H < 0 else p
        outH.append(H)
    lines.append("hist 1/4 " + " ".join(fs(v) for v in hs))
    expect.append(("hist", np.array(outH)))

    # ---------------- (b) splits on strain states ----------------
    splits = [str(s) for s in PhaseField.Get_splits()]
    for dim in (2, 3):
        states = strain_states(rng, dim)
        nPg = 2
        names = [n for n, _ in states]
        # element 0..k: one state per element (both Gauss points); last elements: two different states in one element
        pairs = [(i, i) for i in range(len(states))] + [(0, 1), (2, 4), (len(states) - 2, 1), (3, 0)]
        Eps = np.array([[kelvin(states[a][1]), kelvin(states[b][1])] for a, b in pairs])
        FE = lambda: FeArray.asfearray(Eps.copy())  # noqa: E731
        for split in splits:
            for regu in (["AT2"] if not thorough else ["AT1", "AT2"]):
                mats = [True] if split in ISOT_ONLY else ([False] if not thorough else [False, True])
                if split not in ISOT_ONLY and (split in ("He", "Zhang", "AnisotStress") or thorough):
                    mats = mats + ["aniso"]
                for isot in mats:
                    if isot == "aniso":
                        # a fully anisotropic law given by its matrix (Kelvin-Mandel), symmetric positive definite
                        nA = 3 if dim == 2 else 6
                        RA = np.array([[rng.randint(-2, 2) / 4 for _ in range(nA)] for _ in range(nA)])
                        CA0 = 10.0 * (np.eye(nA) + 0.25 * (RA @ RA.T))
                        mat = E_.Anisotropic(dim, CA0, False)
                    else:
                        mat = make_material(rng, dim, isot)
                    for phase in (0, 1):
                        if phase == 1:
                            # the same model object after a material parameter was assigned: every derived quantity follows the new stiffness
                            if isinstance(mat, E_.Anisotropic):
                                # the stiffness alone is replaced (documented option update_S=False, or the C setter): the splits read C and its roots
                                RB = np.array([[rng.randint(-2, 2) / 4 for _ in range(nA)] for _ in range(nA)])
                                CA1 = 7.0 * (np.eye(nA) + 0.5 * (RB @ RB.T))
                                if split != "He":
                                    mat.Set_C(CA1, False)          # the stress-based splits read S as well: both are replaced
                                elif rng.random() < 0.5:
                                    mat.Set_C(CA1, False, update_S=False)
                                else:
                                    mat.C = CA1
                            elif isinstance(mat, E_.Isotropic):
                                mat.E = mat.E * 1.75
                                mat.v = 0.125
                            elif isinstance(mat, E_.TransverselyIsotropic):
                                mat.El = mat.El * 1.5
                                mat.Gl = mat.Gl * 0.75
                            else:
                                mat.E1 = mat.E1 * 1.5
                                mat.G12 = mat.G12 * 0.75
                        ident = dict(split=split, regularization=regu, dim=dim, material=type(mat).__name__, after_parameter_change=bool(phase))
                        try:
                            pfm = Models.PhaseField(mat, split, regu, 0.5, 0.1)
                            cP, cM = pfm.Calc_C(FE())
                            sP, sM = pfm.Calc_Sigma_e_pg(FE())
                            pP, pM = pfm.Calc_psi_e_pg(FE())
                        except Exception as ex:  # noqa: BLE001
                            res.fail(f"split raises split={split} dim={dim}", f"{type(ex).__name__}: {str(ex)[:150]}", ident)
                            continue
                        cP, cM, sP, sM, pP, pM = (np.asarray(a, dtype=float) for a in (cP, cM, sP, sM, pP, pM))
                        C = np.asarray(mat.C)
                        if split in ("Bourdin", "Amor"):
                            pre = None
                        elif split == "He":
                            pre = np.asarray(mat.Get_sqrt_C_S()[0])
                        elif split in ("Stress", "Zhang") or split.startswith("AnisotStress"):
                            pre = C
                        else:
                            pre = np.eye(C.shape[0])
                        # the 3D closed-form decomposition treats an element as a whole: it is degenerate if one of its points is
                        deg_elem = [dim == 3 and pre is not None and any(degenerate(unkelvin(pre @ Eps[e_, p_])) for p_ in range(nPg)) for e_ in range(len(pairs))]
                        res.count(f"split:{split}")
                        for e, (a, b) in enumerate(pairs):
                            for p, st in enumerate((a, b)):
                                nm = names[st] if a == b else f"mixed({names[a]},{names[b]})[{p}]"
                                res.case((split, regu, dim, isot, nm, phase))
                                idn = dict(ident, state=nm, strain=Eps[e, p].tolist())
                                eps = Eps[e, p]
                                cPe = cP[e, p] if cP.ndim == 4 and cP.shape[0] > 1 else np.broadcast_to(cP, (len(pairs), nPg) + cP.shape[-2:])[e, p]
                                cMe = cM[e, p] if cM.ndim == 4 and cM.shape[0] > 1 else np.broadcast_to(cM, (len(pairs), nPg) + cM.shape[-2:])[e, p]
                                vals = np.concatenate([cPe.ravel(), cMe.ravel(), sP[e, p], sM[e, p], [pP[e, p], pM[e, p]]])
                                if not np.all(np.isfinite(vals)):
                                    res.fail(KNOWN3D if deg_elem[e] else f"non-finite split={split} dim={dim} state={names[st]}", f"split {split}: positive / negative parts contain NaN or inf for the strain state '{nm}'", idn)
                                    continue
                                scaleC = np.abs(C).max()
                                if not (np.abs(cPe + cMe - C).max() <= 1e-8 * scaleC):
                                    res.fail(KNOWN3D if deg_elem[e] else f"cP + cM != C split={split} dim={dim} state={names[st]}", f"split {split}: max |cP + cM - C| / |C| = {np.abs(cPe + cMe - C).max() / scaleC:.2e} for '{nm}'", idn)
                                    continue
                                sig = C @ eps
                                ssc = 1e-30 + np.abs(sig).max()
                                if not (np.abs(sP[e, p] + sM[e, p] - sig).max() <= 1e-8 * max(ssc, 1e-12 * scaleC)):
                                    res.fail(KNOWN3D if deg_elem[e] else f"stress not partitioned split={split} dim={dim} state={names[st]}", f"split {split}: |sigma+ + sigma- - C eps| = {np.abs(sP[e, p] + sM[e, p] - sig).max():.2e} for '{nm}'", idn)
                                psi = 0.5 * eps @ sig
                                if not (abs(pP[e, p] + pM[e, p] - psi) <= 1e-8 * max(abs(psi), 1e-24 * scaleC)):
                                    res.fail(KNOWN3D if deg_elem[e] else f"energy not partitioned split={split} dim={dim} state={names[st]}", f"split {split}: psi+ + psi- = {pP[e, p] + pM[e, p]} but 1/2 eps.C eps = {psi} for '{nm}'", idn)
                                if split in ("He", "Miehe", "Zhang") and not deg_elem[e]:
                                    # independent references with numpy.linalg.eigh, <T>+ the positive principal part of a tensor:
                                    # He:    eps~ = C^1/2 eps, sigma+ = C^1/2 <eps~>+, psi+ = 1/2 |<eps~>+|^2
                                    # Miehe: sigma+ = lambda <tr eps>+ I + 2 mu <eps>+, psi+ = lambda/2 <tr eps>+^2 + mu |<eps>+|^2
                                    # Zhang: sigma+ = <C eps>+, psi+ = 1/2 sigma+ . eps
                                    def pos_(vec):
                                        wt, Vt = np.linalg.eigh(unkelvin(vec))
                                        return kelvin((Vt * np.maximum(wt, 0)) @ Vt.T)
                                    if split == "He":
                                        lamC, QC = np.linalg.eigh(C)
                                        rootC = (QC * np.sqrt(lamC)) @ QC.T
                                        ep_ = pos_(rootC @ eps)
                                        refS, refP, what = rootC @ ep_, 0.5 * ep_ @ ep_, "C^1/2 <C^1/2 eps>+"
                                    elif split == "Miehe":
                                        lamb_, mu_ = float(mat.get_lambda()), float(mat.get_mu())
                                        ep_, trp = pos_(eps), max(float(eps[:dim].sum()), 0.0)
                                        refS = lamb_ * trp * np.array([1.0] * dim + [0.0] * (len(eps) - dim)) + 2 * mu_ * ep_
                                        refP, what = 0.5 * lamb_ * trp ** 2 + mu_ * ep_ @ ep_, "lambda <tr eps>+ I + 2 mu <eps>+"
                                    else:
                                        refS = pos_(sig)
                                        refP, what = 0.5 * refS @ eps, "<C eps>+"
                                    if not (np.abs(sP[e, p] - refS).max() <= 1e-7 * max(ssc, 1e-12 * scaleC)) or not (abs(pP[e, p] - refP) <= 1e-7 * max(abs(psi), 1e-24 * scaleC)) \
                                            or not (np.abs(cPe @ eps - refS).max() <= 1e-7 * max(ssc, 1e-12 * scaleC)):
                                        res.fail(f"{split} positive part split={split} dim={dim} state={names[st]}",
                                                 f"split {split}: sigma+ / psi+ / cP eps differ from {what} computed with numpy.linalg.eigh (|d sigma+| = {np.abs(sP[e, p] - refS).max():.2e}, "
                                                 f"|d cP eps| = {np.abs(cPe @ eps - refS).max():.2e}, d psi+ = {abs(pP[e, p] - refP):.2e}, psi = {psi:.2e}) for '{nm}'", idn)
        # projectors vs an independent eigen-decomposition (Miehe machinery on the strain itself)
        mat = E_.Isotropic(dim, E=10.0, v=0.25, planeStress=False)
        pfm = Models.PhaseField(mat, "Miehe", "AT2", 0.5, 0.1)
        try:
            vals_, list_m, list_M = pfm._Eigen_values_vectors_projectors(FE())
            vals_ = np.asarray(vals_)
        except Exception as ex:  # noqa: BLE001
            res.fail(f"eigen decomposition raises dim={dim}", f"{type(ex).__name__}: {str(ex)[:150]}", dict(dim=dim))
            vals_ = None
        if vals_ is not None:
            deg3 = [dim == 3 and any(degenerate(unkelvin(Eps[e_, p_])) for p_ in range(nPg)) for e_ in range(len(pairs))]
            for e, (a, b) in enumerate(pairs):
                for p, st in enumerate((a, b)):
                    T = unkelvin(Eps[e, p])
                    w, V = np.linalg.eigh(T)
                    res.case(("eigen", dim, names[st], e, p))
                    idn = dict(dim=dim, state=names[st], strain=Eps[e, p].tolist())
                    got = np.sort(vals_[e, p])
                    if not np.all(np.isfinite(got)) or not (np.abs(got - w).max() <= 1e-8 * (1e-300 + np.abs(w).max()) + 1e-18):
                        res.fail(KNOWN3D if deg3[e] else f"eigenvalues dim={dim} state={names[st]}", f"eigenvalues {got.tolist()} differ from numpy.linalg.eigh {w.tolist()}", idn)
                        continue
                    # reconstruct: sum_i v_i M_i = T and sum_i M_i = I, M_i M_j = delta_ij M_i
                    Ms = [np.asarray(Mi)[e, p] for Mi in list_M]
                    if not all(np.all(np.isfinite(Mi)) for Mi in Ms):
                        res.fail(KNOWN3D if deg3[e] else f"eigen projectors non-finite dim={dim} state={names[st]}", "an eigen projector contains NaN or inf", idn)
                        continue
                    recon = sum(v * Mi for v, Mi in zip(vals_[e, p], Ms))
                    if not (np.abs(recon - T).max() <= 1e-9 * (1e-300 + np.abs(T).max()) + 1e-18) or not (np.abs(sum(Ms) - np.eye(dim)).max() <= 1e-9):
                        res.fail(KNOWN3D if deg3[e] else f"eigen projectors dim={dim} state={names[st]}", "the eigen projectors do not resolve the identity / do not rebuild the tensor", idn)
            # positive part of the strain through the spectral projector (Miehe, lambda = 0 would isolate it: use the code's own decomposition)
            try:
                projP, projM = pfm._PhaseField__Spectral_Decomposition(FE())
                projP = np.asarray(projP)
                for e, (a, b) in enumerate(pairs):
                    for p, st in enumerate((a, b)):
                        T = unkelvin(Eps[e, p])
                        w, V = np.linalg.eigh(T)
                        Tp = (V * np.maximum(w, 0)) @ V.T
                        got = projP[e, p] @ Eps[e, p]
                        res.case(("projP", dim, names[st], e, p))
                        if not np.all(np.isfinite(got)) or not (np.abs(got - kelvin(Tp)).max() <= 1e-7 * (1e-300 + np.abs(T).max()) + 1e-18):
                            res.fail(KNOWN3D if deg3[e] else f"positive part dim={dim} state={names[st]}", f"projP · eps = {got.tolist()} but the positive part of the strain is {kelvin(Tp).tolist()}", dict(dim=dim, state=names[st], strain=Eps[e, p].tolist()))
                            continue
                        # the whole projector, not only its action on eps: projP is the derivative of the positive part with respect to
                        # the strain (central differences of the eigh-based positive part), away from repeated or vanishing principal values
                        gaps_ = np.diff(np.sort(w))
                        if a == b and not (np.abs(w).min() <= 1e-3 * np.abs(w).max()) and not (gaps_.min() <= 1e-2 * np.abs(w).max()):
                            hfd = 1e-6 * np.abs(w).max()
                            Pfd = np.zeros((len(Eps[e, p]), len(Eps[e, p])))
                            for jj in range(len(Eps[e, p])):
                                cols = []
                                for sg in (+1, -1):
                                    ev = Eps[e, p].copy()
                                    ev[jj] += sg * hfd
                                    wv, Vv = np.linalg.eigh(unkelvin(ev))
                                    cols.append(kelvin((Vv * np.maximum(wv, 0)) @ Vv.T))
                                Pfd[:, jj] = (cols[0] - cols[1]) / (2 * hfd)
                            res.case(("projP-derivative", dim, names[st], e, p))
                            errP = np.abs(projP[e, p] - Pfd).max()
                            if not (errP <= 1e-5):
                                res.fail(f"positive projector is not the derivative of the positive part dim={dim} state={names[st]}",
                                         f"max |projP - d eps+/d eps| = {errP:.2e} (central differences of the eigen-decomposition of numpy)", dict(dim=dim, state=names[st], strain=Eps[e, p].tolist()))
            except Exception as ex:  # noqa: BLE001
                res.fail(f"spectral decomposition raises dim={dim}", f"{type(ex).__name__}: {str(ex)[:150]}", dict(dim=dim))

    # ---------------- (c) whole strain fields: every integration point of a field, whatever its number of elements ----------------
    large_fields(res, rng, splits, thorough)

    # ---------------- histories ----------------
    for solver in ("History", "HistoryDamage", "BoundConstrain"):
        for split, meshname in [(sp_, "QUAD4") for sp_ in (["Amor", "Miehe"] if not thorough else ["Bourdin", "Amor", "Miehe", "AnisotStress", "He", "Zhang"])] + [("Miehe", "TRI3+QUAD4")] \
                + [("Amor", "TRI3")] + ([("Miehe", "TRI6"), ("Amor", "QUAD8")] if thorough else []):
            # "TRI3+QUAD4": a mesh with two element groups of the main dimension (triangles glued to quadrangles);
            # TRI3 / TRI6 / QUAD8: elements whose 'rigi' and 'mass' rules have different numbers of points
            mesh = M.mesh_mixed_2d(h=1 / 2) if meshname == "TRI3+QUAD4" else M.mesh_2d(meshname, 2.0, 1.0, 0.5)
            xmax = 3.0 if meshname == "TRI3+QUAD4" else 2.0
            sfx = "" if meshname == "QUAD4" else f" mesh={meshname}"
            mat = E_.Isotropic(2, E=210.0, v=0.3, planeStress=True, thickness=1.0)
            pfm = Models.PhaseField(mat, split, "AT2", 0.5, 0.4, solver=solver)
            s = Simulations.PhaseField(mesh, pfm)
            left = mesh.Nodes_Conditions(lambda x, y, z: x == 0)
            right = mesh.Nodes_Conditions(lambda x, y, z: x == xmax)
            loads = [0.0, 0.0] + [rng.choice([0.02, 0.04, 0.06, -0.03, 0.01, 0.0, 0.08, -0.05]) for _ in range(5 if not thorough else 8)]
            ident = dict(solver=solver, split=split, loads=loads, mesh=meshname)
            prevd, prevH = None, None
            ok = True
            for k, ld in enumerate(loads):
                s.Bc_Init()
                s.add_dirichlet(left, [0.0, 0.0], ["x", "y"])
                s.add_dirichlet(right, [ld], ["x"])
                try:
                    s.Solve(tolConv=rng.choice([1.0, 1e-2, 1e-4]), maxIter=6)   # several staggered iterations inside one step
                    if k % 2 == 1:
                        # post-processing between the solve and the save (the usual place for it in a loading loop) reads, it does not write
                        for rn_ in ("psiP", "Stress", "Wdef", "damage"):
                            s.Result(rn_, nodeValues=bool(k % 4 == 1))
                    s.Save_Iter()
                except Exception as ex:  # noqa: BLE001
                    res.fail(f"history solve raises solver={solver} split={split}{sfx}", f"{type(ex).__name__} at step {k}: {str(ex)[:120]}", ident)
                    ok = False
                    break
                d = np.asarray(s.damage).copy()
                Hn = np.asarray(s.Result("psiP", nodeValues=False), dtype=float).copy()
                res.case((solver, split, meshname, k))
                if not np.all(np.isfinite(d)):
                    res.fail(f"damage non-finite solver={solver} split={split}{sfx}", f"damage contains NaN / inf at step {k}", ident)
                    break
                if all(l == 0.0 for l in loads[:k + 1]) and not (np.abs(d).max() <= 1e-12):
                    res.fail(f"damage without loading solver={solver} split={split}{sfx}", f"max damage {np.abs(d).max():.2e} after {k + 1} steps without loading", ident)
                    break
                # the property states nodal irreversibility for the damage-based solvers only (History drives the damage
                # through the monotone history energy; its discrete damage is not monotone node by node)
                if solver != "History" and prevd is not None and not ((d - prevd).min() >= -1e-9):
                    res.fail(f"damage decreases solver={solver}{sfx}", f"damage decreases by {-(d - prevd).min():.2e} between saved steps {k - 1} and {k} (split {split})", ident)
                    break
                if solver == "History" and prevH is not None and not ((Hn - prevH).min() >= -1e-9 * (1 + np.abs(prevH).max())):
                    res.fail("history energy decreases" + sfx, f"the driving energy decreases by {-(Hn - prevH).min():.2e} between saved steps {k - 1} and {k} (split {split})", ident)
                    break
                prevd, prevH = d, Hn
            res.count(f"history:{solver}")

    answers = driver.ask(lines)
    if answers is None:
        res.disagree("driver", "model driver does not run: " + getattr(driver, "error", "")[:400])
    else:
        for (kind, real), ans in zip(expect, answers):
            res.traces += 1
            try:
                model = np.array([float(parse_frac(x)) for x in ans.split()])
            except Exception:  # noqa: BLE001
                res.disagree(kind, dict(model=ans[:80]))
                continue
            if model.shape != real.shape or not (np.abs(model - real).max() <= 1e-15):
                res.disagree(kind, dict(model=model.tolist(), real=real.tolist()))
    res.search_note = "all splits partition stress and energy on the sampled states and the histories are monotone"
    res.write("14 splits x (AT2, AT1 in thorough) x isotropic / orthotropic / transversely isotropic materials x 2D / 3D x strain states in random principal frames: generic, zero, hydrostatic ±, uniaxial ±, pure shear, "
              "zero trace, two equal principal values (also axis-aligned), near-degenerate (1e-9), equal up to rounding (shear / difference of the normal strains at 1e-18 ... 1e-16 of the stretch), tiny (1e-12), "
              "and elements mixing two different states; eigenvalues / projectors / positive parts of Miehe, Zhang, He vs numpy.linalg.eigh; "
              "whole strain fields of 1 ... 65537 elements x 1 - 4 points with generic states, 2D fields of equi-biaxial states perturbed at rounding level, every point checked; "
              "load / unload / zero-load histories with the three irreversibility solvers; distinct = distinct (split, regularisation, dimension, material, state)")


if __name__ == "__main__":
    from tools.harness._common import run

    run(main)
