"""C16 harness.
(B) property oracle: arbitrary (non-equilibrium) states on real simulations; every advertised result name
    in nodal and element form; components vs vector/tensor results; Svm vs an independent von Mises of the
    Gauss-point stresses; Wdef vs 1/2 u'Ku; constant fields through node<->element conversion; reactions.
(A) correspondence: dispatch tables and von Mises expressions of the Lean model vs the real Result()."""

from __future__ import annotations

import warnings

import numpy as np

from tools.harness._common import Driver, Result, parse_args, parse_frac, rng_for
from tools.harness import _meshes as M

from EasyFEA import Models, Simulations, MatrixType
from EasyFEA.FEM import Field, BiLinearForm, Sym_Grad, Trace

AX = {"x": 0, "y": 1, "z": 2}
K2 = {"xx": 0, "yy": 1, "xy": 2}
K3 = {"xx": 0, "yy": 1, "zz": 2, "yz": 3, "xz": 4, "xy": 5}


def dy(rng, lo=-1, hi=1, den=8):
    return rng.randint(int(lo * den), int(hi * den)) / den


def gauss_stress(simu, mesh, u, strain=False):
    """independent per-Gauss stress (or strain), unscaled tensor components [xx,yy,(zz,yz,xz),xy] per group"""
    out = []
    C = simu.material.C
    for g in mesh.Get_list_groupElem():
        B = np.asarray(g.Get_B_e_pg(MatrixType.rigi))
        ue = u[np.asarray(g.Get_assembly_e(mesh.dim))] if hasattr(g, "Get_assembly_e") else None
        eps = np.einsum("epij,ej->epi", B, ue)
        val = eps if strain else np.einsum("ij,epj->epi", C, eps)
        n = 2 if mesh.dim == 2 else 3
        val = val.copy()
        val[..., n:] /= np.sqrt(2)
        out.append(val)
    return out


def vm(t, dim):
    if dim == 2:
        xx, yy, xy = t[..., 0], t[..., 1], t[..., 2]
        return np.sqrt(xx**2 + yy**2 - xx * yy + 3 * xy**2)
    xx, yy, zz, yz, xz, xy = [t[..., i] for i in range(6)]
    return np.sqrt(0.5 * ((xx - yy) ** 2 + (yy - zz) ** 2 + (zz - xx) ** 2 + 6 * (xy**2 + yz**2 + xz**2)))


def main():
    args = parse_args()
    rng = rng_for(args)
    res = Result(args)
    driver = Driver("C16")
    warnings.filterwarnings("ignore")
    types2 = ["TRI3", "QUAD4", "TRI6", "QUAD8"] if args.tier == "quick" else M.ALL_2D
    types3 = ["TETRA4", "HEXA8"] if args.tier == "quick" else ["TETRA4", "HEXA8", "PRISM6", "TETRA10"]

    # ---------------- Elastic (2D / 3D): every advertised name ----------------
    mixed_ = {"TRI3+QUAD4": (2, lambda: M.mesh_mixed_2d()), "PRISM6+HEXA8": (3, lambda: M.mesh_mixed_3d())}
    for et in types2 + types3 + list(mixed_):
        dim = mixed_[et][0] if et in mixed_ else M.dim_of(et)
        mesh = mixed_[et][1]() if et in mixed_ else M.mesh_of(et)
        # the thickness belongs to 2D models; a 3D model may carry one too (constructor argument) and then nothing may depend on it
        th = [0.5, 1.5, 2.0, 1.0][((types2 + types3 + list(mixed_)).index(et) + args.seed) % (4 if dim == 2 else 3)]
        mat = Models.Elastic.Isotropic(dim, E=8.0, v=0.25, planeStress=True, thickness=th) if dim == 2 else Models.Elastic.Isotropic(3, E=8.0, v=0.25, thickness=th)
        simu = Simulations.Elastic(mesh, mat)
        simu.Solver_Set_Hyperbolic_Algorithm(0.1)
        Nn, n = mesh.Nn, mesh.Nn * dim
        u = np.array([dy(rng) for _ in range(n)])
        v = np.array([dy(rng) for _ in range(n)])
        a = np.array([dy(rng) for _ in range(n)])
        simu._Set_solutions(simu.problemType, u.copy(), v.copy(), a.copy())
        ident = dict(sim="Elastic", elemType=et, Nn=int(Nn), Ne=int(mesh.Ne), thickness=th)
        res.count("elastic:" + et)
        names = simu.Results_Available()
        for name in names:
            for nodal in (True, False):
                res.case((et, name, nodal))
                try:
                    val = simu.Result(name, nodeValues=nodal)
                except Exception as ex:  # noqa: BLE001
                    res.fail(f"Elastic result={name} raises", f"Result('{name}', nodeValues={nodal}) raised {type(ex).__name__}: {ex}", ident)
                    continue
                if val is None:
                    res.fail(f"Elastic result={name} none", f"advertised result '{name}' returns None", ident)
        for fld, arr, pre in (("displacement", u, "u"), ("speed", v, "v"), ("accel", a, "a")):
            for axn, k in AX.items():
                if not (k < dim):
                    continue
                got = simu.Result(pre + axn, nodeValues=True)
                res.case((et, "kin", pre + axn))
                if not (np.abs(np.asarray(got).ravel() - arr.reshape(Nn, dim)[:, k]).max() <= 1e-12):
                    res.fail(f"sim=Elastic component={pre}{axn}", f"Result('{pre}{axn}') is not component {k} of the {fld}", ident)
        # tensor components vs tensor result, element form; and vs the independent Gauss-point values
        KK = K2 if dim == 2 else K3
        for letter, tname, strain in (("S", "Stress", False), ("E", "Strain", True)):
            T = np.asarray(simu.Result(tname, nodeValues=False))
            indep = np.concatenate([gp.mean(1) for gp in gauss_stress(simu, mesh, u, strain)])
            res.case((et, tname))
            if T.shape != indep.shape or not (np.abs(T - indep).max() <= 1e-9 * (1 + np.abs(indep).max())):
                res.fail(f"sim=Elastic tensor={tname}", f"Result('{tname}') differs from the Gauss-point mean of {'B u' if strain else 'C B u'} by {np.abs(T - indep).max() if T.shape == indep.shape else 'shape'}", ident)
                continue
            for cn, k in KK.items():
                got = np.asarray(simu.Result(letter + cn, nodeValues=False)).ravel()
                res.case((et, letter + cn))
                if not (np.abs(got - T[:, k]).max() <= 1e-10 * (1 + np.abs(T).max())):
                    res.fail(f"sim=Elastic component={letter}{cn}", f"Result('{letter}{cn}') differs from column {k} of Result('{tname}')", ident)
            gvm = np.concatenate([vm(gp, dim).mean(1) for gp in gauss_stress(simu, mesh, u, strain)])
            got = np.asarray(simu.Result(letter + "vm", nodeValues=False)).ravel()
            res.case((et, letter + "vm"))
            if not (np.abs(got - gvm).max() <= 1e-9 * (1 + np.abs(gvm).max())):
                res.fail(f"sim=Elastic result={letter}vm", f"Result('{letter}vm') is not the per-element mean of the von Mises norm at the integration points (max dev {np.abs(got - gvm).max():.3e})", ident)
        # energy
        K = simu.Get_K_C_M_F()[0]
        W = simu.Result("Wdef")
        res.case((et, "Wdef"))
        if not (abs(W - 0.5 * u @ (K @ u)) <= 1e-9 * (1 + abs(W))):
            res.fail("sim=Elastic Wdef", f"Wdef = {W!r} but 1/2 u'Ku = {0.5 * u @ (K @ u)!r}", ident)
        # constant field through node <-> element conversion: uniform strain state
        G = np.array([[dy(rng) for _ in range(dim)] for _ in range(dim)])
        ulin = (mesh.coord[:, :dim] @ G.T).ravel()
        simu._Set_solutions(simu.problemType, ulin.copy(), v.copy(), a.copy())
        exx_e = np.asarray(simu.Result("Exx", nodeValues=False)).ravel()
        exx_n = np.asarray(simu.Result("Exx", nodeValues=True)).ravel()
        res.case((et, "const-conversion"))
        if not (np.abs(exx_e - G[0, 0]).max() <= 1e-9) or exx_n.size != Nn or not (np.abs(exx_n - G[0, 0]).max() <= 1e-9):
            res.fail("sim=Elastic node-element conversion", f"uniform strain Exx = {G[0, 0]}: element values in [{exx_e.min()}, {exx_e.max()}], nodal values (size {exx_n.size}, Nn = {Nn}) in [{exx_n.min()}, {exx_n.max()}]", ident)
        res.sample(dict(ident, names=len(names)))

    # ---------------- Svm / Evm on (nearly) spherical states: the deviator is many orders below the pressure ----------------
    # u = a X + c (+ a perturbation of relative size pert): stress = -p I (+ small deviator), engineering units, body far from the origin.
    # The equivalent stress is the norm of the DEVIATOR: it must come out at the deviator's scale, whatever the pressure is.
    for et in ["TRI3", "QUAD4"] + types3 + ["PRISM6+HEXA8"]:
        dim = mixed_[et][0] if et in mixed_ else M.dim_of(et)
        for shift, pert in ((0.0, 0.0), (1000.0, 0.0), (0.0, 1e-7), (1000.0, 1e-6)):
            mesh = mixed_[et][1]() if et in mixed_ else M.mesh_of(et)
            if shift:
                mesh.Translate(shift, shift, shift if dim == 3 else 0.0)
            Eh = 210e9
            mat = Models.Elastic.Isotropic(dim, E=Eh, v=0.3, planeStress=True, thickness=1.0) if dim == 2 else Models.Elastic.Isotropic(3, E=Eh, v=0.3)
            simu = Simulations.Elastic(mesh, mat)
            dil = -(1 + rng.randint(0, 7)) / 1024
            cvec = np.array([dy(rng) for _ in range(dim)])
            noise = np.array([dy(rng) for _ in range(mesh.Nn * dim)])
            u = (dil * mesh.coord[:, :dim] + cvec).ravel() + pert * abs(dil) * noise
            ident = dict(sim="Elastic", elemType=et, state="u = dil*X + c + pert*|dil|*noise", dil=dil, c=cvec.tolist(), pert=pert, translate=shift, E=Eh, v=0.3, Nn=int(mesh.Nn))
            res.case((et, "spherical", shift, pert))
            try:
                simu._Set_solutions(simu.problemType, u.copy(), 0 * u, 0 * u)
                for letter, tname, strain in (("S", "Stress", False), ("E", "Strain", True)):
                    gps = gauss_stress(simu, mesh, u, strain)
                    scale = max(np.abs(gp).max() for gp in gps)
                    gvm = np.concatenate([vm(gp, dim).mean(1) for gp in gps])
                    got = np.asarray(simu.Result(letter + "vm", nodeValues=False)).ravel()
                    gotn = np.asarray(simu.Result(letter + "vm", nodeValues=True)).ravel()
                    dev = np.abs(got - gvm).max() if got.shape == gvm.shape else np.inf
                    if not np.all(np.isfinite(got)) or not (dev <= 1e-11 * scale):
                        res.fail(f"sim=Elastic result={letter}vm nearly spherical state", f"Result('{letter}vm') is not the per-element mean of the von Mises norm at the integration points on a nearly spherical state: "
                                 f"{int((~np.isfinite(got)).sum())} non-finite values, max deviation {dev:.3e} for components of size {scale:.3e} (independent value max {gvm.max():.3e})", ident)
                        break
                    if gotn.shape != (mesh.Nn,) or not np.all(np.isfinite(gotn)) or not (gotn.max() <= gvm.max() + 1e-11 * scale) or not (gotn.min() >= gvm.min() - 1e-11 * scale):
                        res.fail(f"sim=Elastic result={letter}vm nodal nearly spherical state", f"nodal Result('{letter}vm') leaves the range [{gvm.min():.3e}, {gvm.max():.3e}] of the element values: [{np.nanmin(gotn):.3e}, {np.nanmax(gotn):.3e}], "
                                 f"{int((~np.isfinite(gotn)).sum())} non-finite", ident)
                        break
            except Exception as ex:  # noqa: BLE001
                res.fail("sim=Elastic nearly spherical state raises", f"{type(ex).__name__}: {str(ex)[:150]}", ident)
    # the same from a solve: cube with sliding supports under the same pressure on its three free faces (exact stress -p I, Svm = 0 at the scale of p)
    for et in types3:
        mesh = M.mesh_3d(et, 1.0, 1.0, 1.0, 0.5)
        simu = Simulations.Elastic(mesh, Models.Elastic.Isotropic(3, E=210e9, v=0.3))
        p = 1e8 * (1 + rng.randint(0, 7))
        ident = dict(sim="Elastic", elemType=et, case="unit cube, sliding supports x=0 y=0 z=0, pressure p on x=1 y=1 z=1", p=p)
        res.case((et, "hydrostatic solve"))
        try:
            for k, ax in enumerate("xyz"):
                simu.add_dirichlet(mesh.Nodes_Conditions(lambda x, y, z, k=k: (x, y, z)[k] == 0), [0], [ax])
                simu.add_surfLoad(mesh.Nodes_Conditions(lambda x, y, z, k=k: (x, y, z)[k] == 1), [-p], [ax])
            simu.Solve()
            usol = np.asarray(simu.displacement).copy()
            gps = gauss_stress(simu, mesh, usol)
            gvm = np.concatenate([vm(gp, 3).mean(1) for gp in gps])
            got = np.asarray(simu.Result("Svm", nodeValues=False)).ravel()
            dev = np.abs(got - gvm).max() if got.shape == gvm.shape else np.inf
            if not np.all(np.isfinite(got)) or not (dev <= 1e-11 * p) or not (np.abs(got).max() <= 1e-9 * p):
                res.fail("sim=Elastic result=Svm hydrostatic compression", f"solved hydrostatic compression p = {p:.3e}: Result('Svm') has {int((~np.isfinite(got)).sum())} non-finite values, max {np.nanmax(np.abs(got)):.3e}, "
                         f"deviation {dev:.3e} from the von Mises norm at the integration points (max {gvm.max():.3e})", ident)
        except Exception as ex:  # noqa: BLE001
            res.fail("sim=Elastic hydrostatic compression raises", f"{type(ex).__name__}: {str(ex)[:150]}", ident)

    # ---------------- node/element layout when Ne is a multiple of Nn ----------------
    from EasyFEA import Mesher, ElemType
    from EasyFEA.Geoms import Domain, Point
    meshA = Mesher().Mesh_2D(Domain(Point(), Point(3, 2), 1.0), elemType=ElemType.TRI3, isOrganised=True)
    if meshA.Ne % meshA.Nn == 0:
        sA = Simulations.Elastic(meshA, Models.Elastic.Isotropic(2, E=8.0, v=0.25))
        uA = np.array([dy(rng) for _ in range(meshA.Nn * 2)])
        sA._Set_solutions(sA.problemType, uA.copy(), uA * 0, uA * 0)
        e_ = np.asarray(sA.Result("Sxx", nodeValues=False)).ravel()
        n_ = np.asarray(sA.Result("Sxx", nodeValues=True)).ravel()
        want = np.asarray(meshA.Get_Node_Values(e_.reshape(-1, 1))).ravel()
        res.case(("reshape-ambiguity",))
        if n_.shape != want.shape or not (np.abs(n_ - want).max() <= 1e-9 * (1 + np.abs(want).max())):
            res.fail("Results_Reshape_values Ne-multiple-of-Nn", f"mesh with Ne = {meshA.Ne}, Nn = {meshA.Nn}: Result('Sxx', nodeValues=True) returns the element values verbatim instead of their nodal projection",
                     dict(Nn=int(meshA.Nn), Ne=int(meshA.Ne), elemType="TRI3 structured 3x2"))

    # ---------------- reactions balance loads ----------------
    for et in ["TRI3", "QUAD4", "HEXA8"]:
        dim = M.dim_of(et)
        mesh = M.mesh_of(et)
        mat = Models.Elastic.Isotropic(dim, E=8.0, v=0.25, planeStress=True, thickness=1.0) if dim == 2 else Models.Elastic.Isotropic(3, E=8.0, v=0.25)
        simu = Simulations.Elastic(mesh, mat)
        unk = simu.Get_unknowns()
        left = mesh.Nodes_Conditions(lambda x, y, z: x == 0)
        right = mesh.Nodes_Conditions(lambda x, y, z: x == 2.0)
        simu.add_dirichlet(left, [0.0] * dim, unk)
        load = [dy(rng, -2, 2) for _ in range(dim)]
        if dim == 2:
            simu.add_lineLoad(right, load, unk)
        else:
            simu.add_surfLoad(right, load, unk)
        simu.Solve()
        total = simu.Bc_vector_Neumann().reshape(-1, dim).sum(0)
        dofs = simu.Bc_dofs_nodes(left, unk)
        R = np.asarray(simu.Calc_Reaction(dofs))
        Rsum = np.array([R[np.where(dofs % dim == k)[0]].sum() for k in range(dim)])
        res.case((et, "reactions"))
        if not (np.abs(Rsum + total).max() <= 1e-8 * (1 + np.abs(total).max())):
            res.fail("reactions balance", f"{et}: reactions on the clamped boundary sum to {Rsum.tolist()}, applied load {total.tolist()}", dict(elemType=et))

    # ---------------- reactions of every problem of the simulation types that solve several or another kind of problem ----------------
    for simk in ("PhaseField", "Thermal"):      # Calc_Reaction states NotImplementedError for Newton simulations
        for et in ["TRI3", "QUAD4"]:
            mesh = M.mesh_2d(et, 2.0, 1.0, 1.0)        # coarse: the displacement dofs of the clamped nodes lie beyond Nn
            left = mesh.Nodes_Conditions(lambda x, y, z: x == 0)
            right = mesh.Nodes_Conditions(lambda x, y, z: x == 2.0)
            identr = dict(sim=simk, elemType=et, Nn=int(mesh.Nn))
            res.case((simk, et, "reactions"))
            try:
                if simk == "PhaseField":
                    sr = Simulations.PhaseField(mesh, Models.PhaseField(Models.Elastic.Isotropic(2, E=8.0, v=0.25, planeStress=True, thickness=1.0), "Bourdin", "AT2", 50.0, 0.5))
                    pt, unk, ncomp = sr.ProblemTypes.elastic, ["x", "y"], 2
                elif simk == "Thermal":
                    sr = Simulations.Thermal(mesh, Models.Thermal(2.0, 1.0))
                    pt, unk, ncomp = sr.problemType, ["t"], 1
                else:
                    sr = Simulations.HyperElastic(mesh, Models.HyperElastic.SaintVenantKirchhoff(2, 4.0, 4.0))
                    pt, unk, ncomp = sr.problemType, ["x", "y"], 2
                sr.add_dirichlet(left, [0.0] * ncomp, unk, pt)
                loadr = [dy(rng, 1, 2) / (100 if simk == "HyperElastic" else 1) for _ in range(ncomp)]
                sr.add_lineLoad(right, loadr, unk, pt)
                sr.Solve()
                totalr = np.asarray(sr.Bc_vector_Neumann(pt)).reshape(-1, ncomp).sum(0)
                dofsr = sr.Bc_dofs_nodes(left, unk, pt)
                Rr = np.asarray(sr.Calc_Reaction(dofsr, pt))
                if Rr.shape != np.asarray(dofsr).shape:
                    res.fail(f"reactions sim={simk}", f"Calc_Reaction returns {Rr.shape[0]} values for {len(dofsr)} requested dofs", identr)
                    continue
                Rs = np.array([Rr[np.where(np.asarray(dofsr) % ncomp == k)[0]].sum() for k in range(ncomp)])
                tolr = 1e-8 if simk != "HyperElastic" else 1e-6
                if not (np.abs(Rs + totalr).max() <= tolr * (1 + np.abs(totalr).max())):
                    res.fail(f"reactions sim={simk}", f"reactions on the clamped boundary sum to {Rs.tolist()}, applied load {totalr.tolist()}", identr)
            except Exception as ex:  # noqa: BLE001
                res.fail(f"reactions raise sim={simk}", f"{type(ex).__name__}: {str(ex)[:150]}", identr)

    # ---------------- reactions under every time scheme: K u + C v + M a on the constrained rows, arbitrary (u, v, a) ----------------
    from EasyFEA import AlgoType as _Algo
    for et in (["QUAD4"] if args.tier == "quick" else ["TRI3", "QUAD4", "HEXA8"]):
        dim = M.dim_of(et)
        mesh = M.mesh_of(et)
        mat = Models.Elastic.Isotropic(dim, E=8.0, v=0.25, planeStress=True, thickness=1.0) if dim == 2 else Models.Elastic.Isotropic(3, E=8.0, v=0.25)
        n = mesh.Nn * dim
        left = mesh.Nodes_Conditions(lambda x, y, z: x == 0)
        for algo in list(_Algo.Get_Hyperbolic_Types()):
            simu = Simulations.Elastic(mesh, mat)
            simu.rho = 1.5
            simu.Set_Rayleigh_Damping_Coefs(0.25, 0.125)
            simu.Solver_Set_Hyperbolic_Algorithm(0.1, algo=algo, alpha=0.25 if algo != _Algo.midpoint else 0.5)
            u, v, a = (np.array([dy(rng) for _ in range(n)]) for _ in range(3))
            simu._Set_solutions(simu.problemType, u.copy(), v.copy(), a.copy())
            dofs = simu.Bc_dofs_nodes(left, simu.Get_unknowns())
            K_, C_, M_, _ = simu.Get_K_C_M_F()
            want = (K_ @ u + C_ @ v + M_ @ a)[dofs]
            res.case((et, "dynamic reactions", str(algo)))
            try:
                R = np.asarray(simu.Calc_Reaction(dofs))
            except Exception as ex:  # noqa: BLE001
                res.fail(f"Calc_Reaction raises algo={algo}", f"{type(ex).__name__}: {str(ex)[:150]}", dict(elemType=et, algo=str(algo)))
                continue
            if R.shape != want.shape or not (np.abs(R - want).max() <= 1e-9 * (1 + np.abs(want).max())):
                res.fail(f"dynamic reactions algo={algo}", f"Calc_Reaction differs from (K u + C v + M a) on the constrained rows by {np.abs(R - want).max() if R.shape == want.shape else 'shape'}: inertia and damping forces are part of the balance",
                         dict(elemType=et, algo=str(algo)))
    th_ = Simulations.Thermal(M.mesh_of("QUAD4"), Models.Thermal(2.0, 1.0))
    th_.rho = 1.5
    th_.Solver_Set_Parabolic_Algorithm(0.1)
    nt_ = th_.mesh.Nn
    tu, tv = (np.array([dy(rng) for _ in range(nt_)]) for _ in range(2))
    th_._Set_solutions(th_.problemType, tu.copy(), tv.copy())
    dofs_t = th_.Bc_dofs_nodes(th_.mesh.Nodes_Conditions(lambda x, y, z: x == 0), ["t"])
    Kt, Ct, _, _ = th_.Get_K_C_M_F()
    res.case(("thermal", "parabolic reactions"))
    Rt = np.asarray(th_.Calc_Reaction(dofs_t))
    if not (np.abs(Rt - (Kt @ tu + Ct @ tv)[dofs_t]).max() <= 1e-9 * (1 + np.abs(Kt @ tu).max())):
        res.fail("parabolic reactions", "Calc_Reaction differs from (K u + C v) on the constrained rows", dict(sim="Thermal"))

    # ---------------- energy / reactions after the caller worked IN PLACE on the matrices Get_K_C_M_F() handed out ----------------
    # (scaling, springs on the diagonal for an eigen-analysis of his own, ...). The simulation was not touched: its named results, the
    # matrices it hands out next and the applied loads must still be consistent with each other and with what they were.
    def handed_out(simu, tag, pt, state, dofs, total, ncomp, ident, extra=()):
        res.case((tag, "handed-out matrices modified in place"))
        try:
            get = (lambda: simu.Get_K_C_M_F(pt)) if pt is not None else (lambda: simu.Get_K_C_M_F())
            react = (lambda: np.asarray(simu.Calc_Reaction(dofs, pt))) if pt is not None else (lambda: np.asarray(simu.Calc_Reaction(dofs)))
            names = simu.Results_Available()
            snap = [np.asarray(A.toarray()).copy() for A in get()]      # dense copies: what the matrices were
            W0 = float(simu.Result("Wdef")) if "Wdef" in names else None
            R0 = react().copy() if dofs is not None else None
            X0 = {nm: np.asarray(simu.Result(nm)).copy() for nm in extra if nm in names}
            for _ in range(2):                                          # the caller, twice (the second time on what he is handed after the first)
                for A in get():
                    A.data *= -3.0
                    if A.shape[0] == A.shape[1] and A.shape[0] > 0:
                        A.setdiag(A.diagonal() + 7.0)
            now = [np.asarray(A.toarray()) for A in get()]
            x = state[0]
            Kx = snap[0] @ x
            if W0 is not None:
                W1 = float(simu.Result("Wdef"))
                wref = 0.5 * x @ Kx
                w1 = 0.5 * x @ (now[0] @ x)
                if not (abs(W1 - wref) <= 1e-9 * (1 + abs(wref))) or not (abs(W1 - w1) <= 1e-9 * (1 + abs(W1))) or not (abs(W1 - W0) <= 1e-12 * (1 + abs(W0))):
                    res.fail(f"sim={tag} Wdef after handed-out K modified in place", f"after the caller modified (in place) the matrices Get_K_C_M_F() returned to him: Wdef = {W1!r} (was {W0!r}), 1/2 u'Ku with the K handed out now = {w1!r}, "
                             f"with the K handed out before = {wref!r}", ident)
                    return
            if dofs is not None:
                want = Kx + sum(snap[i] @ state[i] for i in range(1, len(state)))
                R1 = react()
                devR = np.abs(R1 - want[dofs]).max() if R1.shape == want[dofs].shape else np.inf
                if not (devR <= 1e-9 * (1 + np.abs(want).max())) or not (np.abs(R1 - R0).max() <= 1e-12 * (1 + np.abs(R0).max())):
                    res.fail(f"sim={tag} reactions after handed-out K modified in place", f"after the caller modified (in place) the matrices Get_K_C_M_F() returned to him, Calc_Reaction differs from the internal forces of the unchanged "
                             f"simulation by {devR:.3e} (values up to {np.abs(want[dofs]).max():.3e}), from its own earlier answer by {np.abs(R1 - R0).max() if R1.shape == R0.shape else 'shape'}", ident)
                    return
                if total is not None:
                    Rs = np.array([R1[np.where(np.asarray(dofs) % ncomp == k)[0]].sum() for k in range(ncomp)])
                    if not (np.abs(Rs + total).max() <= 1e-8 * (1 + np.abs(total).max())):
                        res.fail(f"sim={tag} reactions balance after handed-out K modified in place", f"reactions on the clamped boundary sum to {Rs.tolist()}, applied load {np.asarray(total).tolist()}", ident)
                        return
            for nm, x0 in X0.items():
                x1 = np.asarray(simu.Result(nm))
                if x1.shape != x0.shape or not (np.abs(x1 - x0).max() <= 1e-12 * (1 + np.abs(x0).max())):
                    res.fail(f"sim={tag} result={nm} after handed-out K modified in place", f"Result('{nm}') changed by {np.abs(x1 - x0).max() if x1.shape == x0.shape else 'shape'} although the simulation was not touched", ident)
                    return
            for i, nmA in enumerate("KCMF"):
                if now[i].shape != snap[i].shape or not (np.abs(now[i] - snap[i]).max() <= 1e-12 * (1 + np.abs(snap[i]).max())):
                    res.fail(f"sim={tag} {nmA} handed out after the caller modified the previous one", f"Get_K_C_M_F()[{i}] differs by {np.abs(now[i] - snap[i]).max() if now[i].shape == snap[i].shape else 'shape'} "
                             "from what it was, nothing in the simulation changed: 1/2 u'Ku and K u + C v + M a computed with it are not those of the simulation", ident)
                    return
        except Exception as ex:  # noqa: BLE001
            res.fail(f"sim={tag} handed-out matrices scenario raises", f"{type(ex).__name__}: {str(ex)[:150]}", ident)

    for et in ["TRI3", "QUAD8", "HEXA8"]:
        dim = M.dim_of(et)
        mesh = M.mesh_of(et)
        mat = Models.Elastic.Isotropic(dim, E=210e9, v=0.3, planeStress=True, thickness=0.5) if dim == 2 else Models.Elastic.Isotropic(3, E=210e9, v=0.3)
        left = mesh.Nodes_Conditions(lambda x, y, z: x == 0)
        right = mesh.Nodes_Conditions(lambda x, y, z: x == 2.0)
        # static, solved: Wdef, reactions balance the load
        try:
            simu = Simulations.Elastic(mesh, mat)
            unk = simu.Get_unknowns()
            simu.add_dirichlet(left, [0.0] * dim, unk)
            load = [1e4 * dy(rng, 1, 3) for _ in range(dim)]
            (simu.add_lineLoad if dim == 2 else simu.add_surfLoad)(right, load, unk)
            simu.Solve()
            total = simu.Bc_vector_Neumann().reshape(-1, dim).sum(0)
            handed_out(simu, "Elastic", None, [np.asarray(simu.displacement).copy()], simu.Bc_dofs_nodes(left, unk), total, dim,
                       dict(sim="Elastic", elemType=et, case="clamped x=0, load on x=2, solved", load=load))
        except Exception as ex:  # noqa: BLE001
            res.fail("sim=Elastic handed-out matrices scenario raises", f"{type(ex).__name__}: {str(ex)[:150]}", dict(sim="Elastic", elemType=et))
        # dynamic, arbitrary (u, v, a): K, C and M all take part
        try:
            simu = Simulations.Elastic(mesh, mat)
            simu.rho = 7800.0
            simu.Set_Rayleigh_Damping_Coefs(0.25, 0.125)
            simu.Solver_Set_Hyperbolic_Algorithm(0.1)
            n = mesh.Nn * dim
            u, v, a = (np.array([dy(rng) for _ in range(n)]) for _ in range(3))
            simu._Set_solutions(simu.problemType, u.copy(), v.copy(), a.copy())
            handed_out(simu, "Elastic-dynamic", None, [u, v, a], simu.Bc_dofs_nodes(left, simu.Get_unknowns()), None, dim,
                       dict(sim="Elastic", elemType=et, case="hyperbolic, Rayleigh damping, arbitrary (u, v, a)"))
        except Exception as ex:  # noqa: BLE001
            res.fail("sim=Elastic-dynamic handed-out matrices scenario raises", f"{type(ex).__name__}: {str(ex)[:150]}", dict(sim="Elastic", elemType=et))
    try:
        mesh = M.mesh_2d("QUAD4", 2.0, 1.0, 0.5)
        left = mesh.Nodes_Conditions(lambda x, y, z: x == 0)
        right = mesh.Nodes_Conditions(lambda x, y, z: x == 2.0)
        tho = Simulations.Thermal(mesh, Models.Thermal(2.0, 1.0))
        tho.add_dirichlet(left, [0.0], ["t"])
        tho.add_lineLoad(right, [dy(rng, 1, 2)], ["t"])
        tho.Solve()
        handed_out(tho, "Thermal", None, [np.asarray(tho.thermal).copy()], tho.Bc_dofs_nodes(left, ["t"]), np.asarray(tho.Bc_vector_Neumann()).reshape(-1, 1).sum(0), 1,
                   dict(sim="Thermal", elemType="QUAD4", case="T = 0 on x=0, flux on x=2, solved"))
        pfo = Simulations.PhaseField(mesh, Models.PhaseField(Models.Elastic.Isotropic(2, E=210.0, v=0.3, planeStress=True, thickness=1.0), "Bourdin", "AT2", 50.0, 0.5))
        pto = pfo.ProblemTypes.elastic
        pfo.add_dirichlet(left, [0.0, 0.0], ["x", "y"], pto)
        pfo.add_lineLoad(right, [dy(rng, 1, 2), dy(rng, 1, 2)], ["x", "y"], pto)
        pfo.Solve()
        handed_out(pfo, "PhaseField", pto, [np.asarray(pfo.displacement).copy()], pfo.Bc_dofs_nodes(left, ["x", "y"], pto), np.asarray(pfo.Bc_vector_Neumann(pto)).reshape(-1, 2).sum(0), 2,
                   dict(sim="PhaseField", elemType="QUAD4", case="clamped x=0, load on x=2, solved"))
    except Exception as ex:  # noqa: BLE001
        res.fail("sim=Thermal/PhaseField handed-out matrices scenario raises", f"{type(ex).__name__}: {str(ex)[:150]}", dict(sim="Thermal/PhaseField"))
    try:
        from EasyFEA.Geoms import Line as _Lo, Point as _Po, Domain as _Do
        lineo = _Lo(_Po(0, 0, 0), _Po(2.0, 0.0, 0.0), 0.5)
        beamo = Models.Beam.Isotropic(2, lineo, Mesher().Mesh_2D(_Do(_Po(0, 0), _Po(0.1, 0.2), 0.05)), E=210e9, v=0.3)
        bmo = Mesher().Mesh_Beams([beamo], ElemType.SEG3)
        bso = Simulations.Beam(bmo, Models.Beam.BeamStructure([beamo]))
        n0 = bmo.Nodes_Conditions(lambda x, y, z: x == 0)
        n1 = bmo.Nodes_Conditions(lambda x, y, z: x == 2.0)
        unkb = bso.Get_unknowns()
        bso.add_dirichlet(n0, [0.0] * len(unkb), unkb)
        loadb = [1e3 * dy(rng, 1, 2), -1e3 * dy(rng, 1, 2)]
        bso.add_neumann(n1, loadb, ["x", "y"])
        bso.Solve()
        handed_out(bso, "Beam", None, [np.asarray(bso.displacement).copy()], bso.Bc_dofs_nodes(n0, unkb), None, len(unkb),
                   dict(sim="Beam", dim=2, elemType="SEG3", case="cantilever, end load, solved", load=loadb), extra=("fx", "fy", "cz"))
    except Exception as ex:  # noqa: BLE001
        res.fail("sim=Beam handed-out matrices scenario raises", f"{type(ex).__name__}: {str(ex)[:150]}", dict(sim="Beam"))

    # ---------------- other simulation types: advertised names and kinematic components ----------------
    def check_names(simu, tag, ident):
        for name in simu.Results_Available():
            for nodal in (True, False):
                res.case((tag, name, nodal))
                try:
                    val = simu.Result(name, nodeValues=nodal)
                    if val is None:
                        res.fail(f"sim={tag} result={name} none", f"advertised result '{name}' returns None", ident)
                except Exception as ex:  # noqa: BLE001
                    res.fail(f"sim={tag} result={name} raises", f"Result('{name}', nodeValues={nodal}) raised {type(ex).__name__}: {str(ex)[:120]}", ident)

    mesh = M.mesh_2d("QUAD4")
    # WeakForms (vector field)
    field = Field(mesh.groupElem, 2)
    lmbda, mu = 2.0, 3.0

    @BiLinearForm
    def computeK(u, v):
        Eps = Sym_Grad(u)
        return (2 * mu * Eps + lmbda * Trace(Eps) * np.eye(2)).ddot(Sym_Grad(v))

    @BiLinearForm
    def computeM(u, v):
        return 2.0 * u.dot(v)

    wf = Simulations.WeakForms(mesh, Models.WeakForms(field, computeK, None, computeM))
    wf.Solver_Set_Hyperbolic_Algorithm(0.1)
    n = mesh.Nn * 2
    u, v, a = (np.array([dy(rng) for _ in range(n)]) for _ in range(3))
    wf._Set_solutions(wf.problemType, u.copy(), v.copy(), a.copy())
    ident = dict(sim="WeakForms", elemType="QUAD4")
    check_names(wf, "WeakForms", ident)
    for arr, pre in ((u, "u"), (v, "v"), (a, "a")):
        for axn, k in (("x", 0), ("y", 1)):
            if pre + axn not in wf.Results_Available():
                continue
            got = np.asarray(wf.Result(pre + axn)).ravel()
            res.case(("WeakForms", pre + axn))
            if not (np.abs(got - arr.reshape(-1, 2)[:, k]).max() <= 1e-12):
                res.fail(f"sim=WeakForms component={pre}{axn}", f"Result('{pre}{axn}') is not component {k} of {pre}", ident)
    # Thermal
    th = Simulations.Thermal(mesh, Models.Thermal(2.0, 1.0))
    th.Solver_Set_Parabolic_Algorithm(0.1)
    th._Set_solutions(th.problemType, np.array([dy(rng) for _ in range(mesh.Nn)]), np.array([dy(rng) for _ in range(mesh.Nn)]))
    check_names(th, "Thermal", dict(sim="Thermal"))
    # HyperElastic
    try:
        he = Simulations.HyperElastic(mesh, Models.HyperElastic.SaintVenantKirchhoff(2, 4.0, 4.0))
        he.Solver_Set_Hyperbolic_Algorithm(0.1)
        uu, vv, aa = (np.array([dy(rng, -0.1, 0.1, 64) for _ in range(n)]) for _ in range(3))
        he._Set_solutions(he.problemType, uu.copy(), vv.copy(), aa.copy())
        check_names(he, "HyperElastic", dict(sim="HyperElastic"))
        for arr, pre in ((uu, "u"), (vv, "v"), (aa, "a")):
            for axn, k in (("x", 0), ("y", 1)):
                if pre + axn in he.Results_Available():
                    got = np.asarray(he.Result(pre + axn)).ravel()
                    res.case(("HyperElastic", pre + axn))
                    if not (np.abs(got - arr.reshape(-1, 2)[:, k]).max() <= 1e-12):
                        res.fail(f"sim=HyperElastic component={pre}{axn}", f"Result('{pre}{axn}') is not component {k} of {pre}", dict(sim="HyperElastic"))
    except Exception as ex:  # noqa: BLE001
        res.fail("HyperElastic names scenario raises", f"{type(ex).__name__}: {str(ex)[:150]}", dict(sim="HyperElastic"))

    # ---------------- HyperElastic: strain / stress names against the tensors of the state (uniform deformation gradient, Saint Venant-Kirchhoff) ----------------
    # u = G x: F = I + G, Green-Lagrange E = (F'F - I) / 2 and second Piola-Kirchhoff S = lambda tr(E) I + 2 mu E are known in closed form; every
    # component name, the columns of the whole tensors and the equivalent values are compared with them (a component and its tensor go
    # through the same helper: only an independent reference sees a common error)
    for dimh, eth in ((2, "TRI3"), (2, "QUAD8"), (3, "TETRA4"), (3, "HEXA8")):
        identh = dict(sim="HyperElastic", law="SaintVenantKirchhoff(lambda=4, mu=3)", elemType=eth, state="u = G x")
        try:
            meshh = M.mesh_2d(eth, 2.0, 1.0, 0.5) if dimh == 2 else M.mesh_3d(eth, 2.0, 1.0, 1.5, 1.0, 2)
            heh = Simulations.HyperElastic(meshh, Models.HyperElastic.SaintVenantKirchhoff(dimh, 4.0, 3.0))
            Gh = np.array([[dy(rng, -0.125, 0.125, 64) for _ in range(dimh)] for _ in range(dimh)]) + 0.03125 * (1 - np.eye(dimh))
            heh._Set_solutions(heh.problemType, (meshh.coord[:, :dimh] @ Gh.T).ravel())
            Fh = np.eye(dimh) + Gh
            Eh = 0.5 * (Fh.T @ Fh - np.eye(dimh))
            Sh = 4.0 * np.trace(Eh) * np.eye(dimh) + 2 * 3.0 * Eh
            order = [(0, 0), (1, 1), (0, 1)] if dimh == 2 else [(0, 0), (1, 1), (2, 2), (1, 2), (0, 2), (0, 1)]
            cn = ["xx", "yy", "xy"] if dimh == 2 else ["xx", "yy", "zz", "yz", "xz", "xy"]
            avail = heh.Results_Available()
            for letter, T_, tname in (("E", Eh, "Green-Lagrange"), ("S", Sh, "Piola-Kirchhoff")):
                wantT = np.array([T_[i_, j_] for i_, j_ in order])
                scT = 1 + np.abs(wantT).max()
                checks = [(letter + c_, wantT[k_]) for k_, c_ in enumerate(cn)] + [(letter + "vm", float(vm(wantT, dimh)))]
                for nm_, val_ in checks:
                    if nm_ not in avail:
                        continue
                    for nv_ in (False, True):
                        got_ = np.asarray(heh.Result(nm_, nodeValues=nv_), float).ravel()
                        res.case(("HyperElastic uniform", eth, nm_, nv_))
                        if not (np.abs(got_ - val_).max() <= 1e-9 * scT):
                            res.fail(f"sim=HyperElastic result={nm_} against the tensors of the state", f"uniform deformation gradient I + {Gh.tolist()}: Result('{nm_}', nodeValues={nv_}) = {got_[0]!r}, "
                                     f"the {tname} tensor of the state gives {val_!r}", dict(identh, G=Gh.tolist()))
                            break
                if tname in avail:
                    gotT = np.asarray(heh.Result(tname, nodeValues=False), float)
                    res.case(("HyperElastic uniform", eth, tname))
                    if gotT.shape == (meshh.Ne, len(cn)) and not (np.abs(gotT - wantT).max() <= 1e-9 * scT):
                        res.fail(f"sim=HyperElastic tensor={tname} against the tensors of the state", f"Result('{tname}') row 0 = {gotT[0].tolist()}, expected {wantT.tolist()}", dict(identh, G=Gh.tolist()))
        except Exception as ex:  # noqa: BLE001
            res.fail("HyperElastic uniform-gradient scenario raises", f"{type(ex).__name__}: {str(ex)[:150]}", identh)

    # ---------------- Wdef = 1/2 u'Ku after every parameter of the model was assigned on the existing objects (thickness included) ----------------
    for kindw in ("elastic", "phasefield"):
        identw_ = dict(sim=kindw, ops=["Solve", "Wdef vs 1/2 u'Ku", "material.thickness = 2.5", "Wdef vs 1/2 u'Ku", "material.E *= 2", "Wdef vs 1/2 u'Ku"])
        try:
            meshw = M.mesh_2d("QUAD4", 2.0, 1.0, 0.5)
            matw_ = Models.Elastic.Isotropic(2, E=10.0, v=0.25, planeStress=True, thickness=1.0)
            if kindw == "elastic":
                sw = Simulations.Elastic(meshw, matw_)
            else:
                sw = Simulations.PhaseField(meshw, Models.PhaseField(matw_, "Amor", "AT2", 0.5, 0.4))
            sw.add_dirichlet(meshw.Nodes_Conditions(lambda x, y, z: x == 0), [0.0, 0.0], ["x", "y"])
            sw.add_dirichlet(meshw.Nodes_Conditions(lambda x, y, z: x == 2.0), [0.01], ["x"])
            sw.Solve()
            for stage, act in (("after Solve", lambda: None), ("after material.thickness = 2.5", lambda: setattr(matw_, "thickness", 2.5)), ("after material.E *= 2", lambda: setattr(matw_, "E", matw_.E * 2))):
                act()
                uw = np.asarray(sw.displacement, float).ravel()
                Kw_ = sw.Get_K_C_M_F("elastic")[0] if kindw == "phasefield" else sw.Get_K_C_M_F()[0]
                Ww = float(sw.Result("Wdef"))
                half = 0.5 * uw @ (Kw_ @ uw)
                res.case(("Wdef after a parameter change", kindw, stage))
                if not (abs(Ww - half) <= 1e-9 * (1 + abs(half))):
                    res.fail(f"sim={kindw} Wdef {stage}", f"{stage}: Wdef = {Ww!r} but 1/2 u'Ku = {half!r} with the K the simulation hands out", dict(identw_, stage=stage))
                    break
        except Exception as ex:  # noqa: BLE001
            res.fail(f"Wdef after parameter changes raises sim={kindw}", f"{type(ex).__name__}: {str(ex)[:150]}", identw_)

    # ---------------- PhaseField, InElastic (2D / 3D): names, components vs vector / tensor results, energy ----------------
    def tensor_components(simu, tag, dim, ident):
        names = simu.Results_Available()
        Nn = simu.mesh.Nn
        U = np.asarray(simu.displacement).reshape(Nn, -1)
        for axn, k in AX.items():
            if "u" + axn in names:
                got = np.asarray(simu.Result("u" + axn, nodeValues=True)).ravel()
                res.case((tag, dim, "u" + axn))
                if not (k < U.shape[1]) or got.shape != (Nn,) or not (np.abs(got - U[:, k]).max() <= 1e-12):
                    res.fail(f"sim={tag} component=u{axn}", f"Result('u{axn}') is not component {k} of the displacement (dim {dim})", ident)
        KK = K2 if dim == 2 else K3
        for letter, tname in (("S", "Stress"), ("E", "Strain")):
            if tname not in names:
                continue
            try:
                T = np.asarray(simu.Result(tname, nodeValues=False))
            except Exception:  # noqa: BLE001
                continue     # reported by check_names
            for cn, k in KK.items():
                if letter + cn not in names:
                    continue
                try:
                    got = np.asarray(simu.Result(letter + cn, nodeValues=False)).ravel()
                except Exception:  # noqa: BLE001
                    continue
                res.case((tag, dim, letter + cn))
                if T.ndim != 2 or not (k < T.shape[1]) or not (np.abs(got - T[:, k]).max() <= 1e-10 * (1 + np.abs(T).max())):
                    res.fail(f"sim={tag} component={letter}{cn}", f"Result('{letter}{cn}') differs from column {k} of Result('{tname}') (dim {dim})", ident)
            if letter + "vm" in names and T.ndim == 2:
                got = np.asarray(simu.Result(letter + "vm", nodeValues=False)).ravel()
                coarse = vm(T, dim)     # von Mises of the element mean: only an upper-level sanity bound (Jensen): mean of norms >= norm of mean
                res.case((tag, dim, letter + "vm"))
                if got.shape != coarse.shape or np.any(got < coarse - 1e-9 * (1 + np.abs(coarse).max())):
                    res.fail(f"sim={tag} result={letter}vm", f"Result('{letter}vm') is below the von Mises norm of the element-mean tensor (the mean of a norm cannot be)", ident)

    for dim, et in ((2, "QUAD4"), (2, "TRI6"), (3, "HEXA8"), (3, "TETRA4")):
        if args.tier == "quick" and et in ("TRI6", "TETRA4"):
            continue
        meshp = M.mesh_of(et)
        npf = meshp.Nn * dim
        try:
            matp = Models.Elastic.Isotropic(dim, E=210.0, v=0.3, planeStress=True, thickness=1.0) if dim == 2 else Models.Elastic.Isotropic(3, E=210.0, v=0.3)
            pf = Simulations.PhaseField(meshp, Models.PhaseField(matp, rng.choice(["Amor", "Miehe", "Bourdin"]), "AT2", 0.5, 0.4))
            pf._Set_solutions(pf.ProblemTypes.elastic, np.array([dy(rng, -0.02, 0.02, 512) for _ in range(npf)]))
            pf._Set_solutions(pf.ProblemTypes.damage, np.array([abs(dy(rng, 0, 0.5, 64)) for _ in range(meshp.Nn)]))
            ident = dict(sim="PhaseField", elemType=et, dim=dim)
            res.count(f"phasefield:{et}")
            check_names(pf, "PhaseField", ident)
            tensor_components(pf, "PhaseField", dim, ident)
            up = np.asarray(pf.displacement)
            Ku = pf.Get_K_C_M_F(pf.ProblemTypes.elastic)[0]
            res.case(("PhaseField", et, "Wdef"))
            Wp = pf.Result("Wdef")
            if not (abs(Wp - 0.5 * up @ (Ku @ up)) <= 1e-9 * (1 + abs(Wp))):
                res.fail("sim=PhaseField Wdef", f"Wdef = {Wp!r} but 1/2 u'K(d)u = {0.5 * up @ (Ku @ up)!r}", ident)
        except Exception as ex:  # noqa: BLE001
            res.fail(f"sim=PhaseField raises dim={dim}", f"{type(ex).__name__}: {str(ex)[:150]}", dict(sim="PhaseField", elemType=et))
        try:
            beh = Models.InElastic.Behavior(dim, Models.Elastic.Isotropic(3, E=100.0, v=0.3), hardening=Models.InElastic.IsotropicHardening.Linear(20.0),
                                            yieldSurface=Models.InElastic.Yield.VonMises(1.0), thickness=1.0)
            ie = Simulations.InElastic(meshp, beh)
            left = meshp.Nodes_Conditions(lambda x, y, z: x == meshp.coord[:, 0].min())
            right = meshp.Nodes_Conditions(lambda x, y, z: x == meshp.coord[:, 0].max())
            ie.add_dirichlet(left, [0.0] * dim, ["x", "y", "z"][:dim])
            ie.add_dirichlet(right, [0.05, 0.01] + ([0.02] if dim == 3 else []), ["x", "y", "z"][:dim])
            ie.Solve()
            ie.Save_Iter()
            ident = dict(sim="InElastic", elemType=et, dim=dim)
            res.count(f"inelastic:{et}")
            check_names(ie, "InElastic", ident)
            tensor_components(ie, "InElastic", dim, ident)
        except Exception as ex:  # noqa: BLE001
            res.fail(f"sim=InElastic raises dim={dim}", f"{type(ex).__name__}: {str(ex)[:150]}", dict(sim="InElastic", elemType=et))

    # ---------------- PhaseField: energies queried per stored iteration are those of that iteration's state ----------------
    try:
        meshh = M.mesh_2d("TRI3", a=2.0, b=1.0, h=0.5)
        lefth = meshh.Nodes_Conditions(lambda x, y, z: x == 0)
        righth = meshh.Nodes_Conditions(lambda x, y, z: x == 2.0)
        ph = Simulations.PhaseField(meshh, Models.PhaseField(Models.Elastic.Isotropic(2, E=210.0, v=0.3, planeStress=True, thickness=1.0), "Amor", "AT2", 0.5, 0.2))
        recorded = []
        for ud in (0.01, 0.03, 0.05, 0.07):
            ph.Bc_Init()
            ph.add_dirichlet(lefth, [0, 0], ["x", "y"])
            ph.add_dirichlet(righth, [ud], ["x"])
            ph.Solve()
            ph.Save_Iter()
            Sg = np.asarray(ph.Result("Stress", nodeValues=False))
            Eg = np.asarray(ph.Result("Strain", nodeValues=False))
            recorded.append((float(ph.Result("Wdef")), float(ph.Result("Psi_Crack")), Sg.copy(), Eg.copy()))
        for i in (0, 2, 1, 3, 0):
            res.case(("PhaseField", "Wdef per iteration", i))
            Wi = float(ph.Result("Wdef", iter=i))
            Pi = float(ph.Result("Psi_Crack", iter=i))
            if not (abs(Wi - recorded[i][0]) <= 1e-8 * (1e-300 + abs(recorded[i][0]))) or not (abs(Pi - recorded[i][1]) <= 1e-8 * (1e-300 + abs(recorded[i][1]))):
                res.fail("sim=PhaseField energies of a stored iteration", f"Result('Wdef', iter={i}) = {Wi!r} / Result('Psi_Crack', iter={i}) = {Pi!r} but they were {recorded[i][0]!r} / {recorded[i][1]!r} when that iteration was the current state "
                         "(1/2 u'K(d)u must use the stiffness of the activated state)", dict(sim="PhaseField", iteration=i))
                break
    except Exception as ex:  # noqa: BLE001
        res.fail("sim=PhaseField per-iteration energies raise", f"{type(ex).__name__}: {str(ex)[:150]}", dict(sim="PhaseField"))

    # ---------------- Beam (1D / 2D / 3D, Euler-Bernoulli and Timoshenko): every advertised name ----------------
    from EasyFEA import Mesher as _Mesher, ElemType as _ET
    from EasyFEA.Geoms import Line as _Line, Point as _Pt, Domain as _Dom
    for bdim in (1, 2, 3):
        for timo in (False, True):
            for bet in (["SEG2", "SEG3"] if args.tier == "quick" else ["SEG2", "SEG3", "SEG4", "SEG5"]):
                ident = dict(sim="Beam", dim=bdim, timoshenko=timo, elemType=bet)
                try:
                    line = _Line(_Pt(0, 0, 0), _Pt(2.0, 1.0 if bdim > 1 else 0.0, 0.5 if bdim > 2 else 0.0), 0.5)
                    sec = _Mesher().Mesh_2D(_Dom(_Pt(0, 0), _Pt(0.1, 0.2), 0.05))
                    beam = Models.Beam.Isotropic(bdim, line, sec, E=10.0, v=0.3)
                    bmesh = _Mesher().Mesh_Beams([beam], _ET(bet))
                    bs = Simulations.Beam(bmesh, Models.Beam.BeamStructure([beam]), useTimoshenko=timo)
                    dofn = bs.Get_dof_n()
                    ub = np.array([dy(rng, -0.5, 0.5, 64) for _ in range(bmesh.Nn * dofn)])
                    bs._Set_solutions(bs.problemType, ub.copy())
                except Exception as ex:  # noqa: BLE001
                    res.fail(f"sim=Beam raises dim={bdim}", f"{type(ex).__name__}: {str(ex)[:150]}", ident)
                    continue
                res.count(f"beam:{bdim}D:{'T' if timo else 'EB'}")
                check_names(bs, f"Beam{bdim}D", ident)
                names = bs.Results_Available()
                Ub = ub.reshape(bmesh.Nn, dofn)
                unk = bs.Get_unknowns()
                for k, nm in enumerate(unk):
                    rn = ("u" + nm) if nm in ("x", "y", "z") else nm
                    if rn in names:
                        got = np.asarray(bs.Result(rn, nodeValues=True)).ravel()
                        res.case(("Beam", bdim, timo, bet, rn))
                        if got.shape != (bmesh.Nn,) or not (np.abs(got - Ub[:, k]).max() <= 1e-12):
                            res.fail(f"sim=Beam component={rn}", f"Result('{rn}') is not component {k} of the beam unknowns {unk}", ident)
                # internal forces / generalised strains / stresses vs the vector results they belong to
                try:
                    Eps = np.asarray(bs._Calc_Epsilon_e_pg(ub)).mean(1)
                    Frc = np.asarray(bs._Calc_InternalForces_e_pg(bs._Calc_Epsilon_e_pg(ub))).mean(1)
                    Sig = np.asarray(bs._Calc_Sigma_e_pg(bs._Calc_Epsilon_e_pg(ub))).mean(1)
                except Exception as ex:  # noqa: BLE001
                    res.fail(f"Beam {bdim}D vector results raise", f"{type(ex).__name__}: {str(ex)[:120]}", dict(sim="Beam", dim=bdim))
                    continue
                layouts = {1: (["ux'"], ["N"], ["Sxx"]), 2: (["ux'", "rz'"], ["N", "Mz"], ["Sxx", "Syy", "Sxy"]),
                           3: (["ux'", "rx'", "ry'", "rz'"], ["N", "Mx", "My", "Mz"], ["Sxx", "Syy", "Szz", "Syz", "Sxz", "Sxy"])}[bdim]
                for vec, lay, what in ((Eps, layouts[0], "generalised strains [ux', rx', ry', rz']"), (Frc, layouts[1], "internal forces [N, Mx, My, Mz]"), (Sig, layouts[2], "beam stresses")):
                    for k, nm in enumerate(lay):
                        if nm not in names:
                            continue
                        try:
                            got = np.asarray(bs.Result(nm, nodeValues=False)).ravel()
                        except Exception:  # noqa: BLE001
                            continue    # reported by check_names
                        res.case(("Beam", bdim, timo, bet, nm))
                        if got.shape != vec[:, k].shape or not (np.abs(got - vec[:, k]).max() <= 1e-10 * (1 + np.abs(vec).max())):
                            res.fail(f"sim=Beam component={nm}", f"Result('{nm}') differs from column {k} of the {what} (element means)", ident)

    # ---------------- reactions of a beam frame whose members are tied by a connection (Lagrange multipliers in the system) ----------------
    from EasyFEA import Mesher as _MesherF, ElemType as _ETF
    from EasyFEA.Geoms import Domain as _DomF, Point as _PtF, Line as _LineF
    for etb in (["SEG2", "SEG3"] if args.tier == "quick" else ["SEG2", "SEG3", "SEG4"]):
        for timo in (False, True):
            fx_, fy_ = rng.randint(1, 8) / 4, -rng.randint(1, 8) / 4
            ident = dict(sim="Beam", elemType=etb, timoshenko=timo, frame="(0,0)-(1,0)-(1,1), clamped at (0,0), connection at (1,0), load at (1,1)", load=[fx_, fy_])
            res.case(("beam-frame-reactions", etb, timo))
            res.count("beam-frame-reactions")
            try:
                sect_ = _MesherF().Mesh_2D(_DomF(_PtF(), _PtF(0.1, 0.1)))
                bf1 = Models.Beam.Isotropic(2, _LineF(_PtF(0, 0), _PtF(1.0, 0), 0.25), sect_, 1000.0, 0.3)
                bf2 = Models.Beam.Isotropic(2, _LineF(_PtF(1.0, 0), _PtF(1.0, 1.0), 0.25), sect_, 1000.0, 0.3)
                mf_ = _MesherF().Mesh_Beams([bf1, bf2], elemType=_ETF(etb))
                kw_ = dict(useTimoshenko=True) if timo else {}
                try:
                    sf_ = Simulations.Beam(mf_, Models.Beam.BeamStructure([bf1, bf2]), **kw_)
                except TypeError:
                    if timo:
                        continue
                    raise
                clamp_, tip_, corner_ = mf_.Nodes_Point(_PtF(0, 0)), mf_.Nodes_Point(_PtF(1.0, 1.0)), mf_.Nodes_Point(_PtF(1.0, 0))
                sf_.add_dirichlet(clamp_, [0.0, 0.0, 0.0], ["x", "y", "rz"])
                sf_.add_neumann(tip_, [fx_, fy_], ["x", "y"])
                sf_.add_connection_fixed(corner_)
                sf_.Solve()
                rr_ = np.asarray(sf_.Calc_Reaction(sf_.Bc_dofs_nodes(clamp_, ["x", "y", "rz"])), dtype=float).ravel()
                want_ = np.array([-fx_, -fy_, -(1.0 * fy_ - 1.0 * fx_)])     # forces, and moment about the clamp of the load applied at (1, 1)
                if rr_.shape != want_.shape or not (np.abs(rr_ - want_).max() <= 1e-8 * (1 + np.abs(want_).max())):
                    res.fail("reactions of a beam frame with a connection do not balance the load", f"Calc_Reaction at the clamp = {rr_.tolist()}, expected {want_.tolist()}", ident)
            except Exception as ex:  # noqa: BLE001
                res.fail("reactions of a beam frame with a connection raise", f"{type(ex).__name__}: {str(ex)[:160]}", ident)

    # ---------------- constant fields on meshes given as node / connectivity tables, some cells filled with degenerate elements ----------------
    # An all-quadrangle (all-hexahedron) mesh as other meshers write it: a cell cut in two triangles (wedges) is stored as two QUAD4 (HEXA8)
    # whose last-but-one corner is repeated. "For all meshes": a field that is the same constant in every element is that constant at every
    # node, and a field that is the same constant at every node is that constant in every element, whatever the connectivity table looks like.
    import random as _random
    from EasyFEA import Mesh as _MeshD
    from EasyFEA.FEM import GroupElemFactory as _GEF
    rd = _random.Random(1600 + args.seed)       # own stream: the draws of the other sections do not move

    def table_mesh(dim, nx, ny, nz, split, rot):
        xs, ys, zs = np.linspace(0, 3.0, nx + 1), np.linspace(0, 2.0, ny + 1), (np.linspace(0, 1.0, nz + 1) if dim == 3 else np.array([0.0]))
        coord = np.array([[x, y, z] for z in zs for y in ys for x in xs], dtype=float)
        nid = lambda i, j, k=0: (k * (ny + 1) + j) * (nx + 1) + i      # noqa: E731
        for j in range(1, ny):                                          # interior nodes off the regular grid (same shift through the thickness)
            for i in range(1, nx):
                sx, sy = rd.randint(-8, 8) / 64, rd.randint(-8, 8) / 64
                for k in range(len(zs)):
                    coord[nid(i, j, k), :2] += [sx, sy]
        connect = []
        for k in range(nz if dim == 3 else 1):
            for j in range(ny):
                for i in range(nx):
                    a, b, c, d = nid(i, j, k), nid(i + 1, j, k), nid(i + 1, j + 1, k), nid(i, j + 1, k)
                    cells = [[a, b, c, c], [c, d, a, a]] if (i, j, k)[:dim] in split else [[a, b, c, d]]
                    for cell in cells:
                        cell = cell[rot:] + cell[:rot]                  # which corner is the repeated one
                        connect.append(cell if dim == 2 else cell + [n_ + (ny + 1) * (nx + 1) for n_ in cell])
        et_ = ElemType.QUAD4 if dim == 2 else ElemType.HEXA8
        return _MeshD({et_: _GEF.Create(et_, np.array(connect, dtype=int), coord)})

    tables = [(2, 3, 3, 0), (2, 4, 3, 0), (2, 5, 4, 0), (3, 3, 2, 2)] if args.tier == "quick" else [(2, 3, 3, 0), (2, 4, 3, 0), (2, 5, 4, 0), (2, 7, 5, 0), (3, 3, 2, 2), (3, 4, 3, 2)]
    for it_, (dim, nx, ny, nz) in enumerate(tables):
        allc = [(i, j) if dim == 2 else (i, j, k) for k in range(max(nz, 1)) for j in range(ny) for i in range(nx)]
        split = set(rd.sample(allc, 1 + (it_ + args.seed) % 3))
        rot = (it_ + args.seed) % 4
        ident = dict(sim="Elastic", mesh=f"{'QUAD4' if dim == 2 else 'HEXA8'} table {nx}x{ny}" + (f"x{nz}" if dim == 3 else "") + " on [0,3]x[0,2](x[0,1]), interior nodes shifted",
                     degenerate_cells=sorted(split), repeated_corner=f"[a,b,c,c] / [c,d,a,a] rotated by {rot}", stream=f"random.Random({1600 + args.seed})")
        res.count(f"table-mesh:{dim}D")
        try:
            mesh = table_mesh(dim, nx, ny, nz, split, rot)
            Nn, Ne = int(mesh.Nn), int(mesh.Ne)
            ident.update(Nn=Nn, Ne=Ne)
            # (1) Mesh.Get_Node_Values on element tables that are constant per column: one column, several columns, integer-typed
            cst = np.array([rd.randint(1, 16) / 8, -rd.randint(1, 16) / 4, float(rd.randint(2, 9))])
            for label, tab, want in (("1 column", np.full(Ne, cst[0]), np.full(Nn, cst[0])), ("3 columns", np.tile(cst, (Ne, 1)), np.tile(cst, (Nn, 1))),
                                     ("integer-typed column", np.full((Ne, 1), int(cst[2]), dtype=int), np.full((Nn, 1), cst[2]))):
                res.case(("table-mesh", it_, "Get_Node_Values", label))
                got = np.asarray(mesh.Get_Node_Values(tab), dtype=float)
                dev = np.abs(got - want).max() if got.shape == want.shape else np.inf
                if not (dev <= 1e-12 * np.abs(cst).max()):
                    res.fail("Get_Node_Values constant element table, degenerate elements", f"Mesh.Get_Node_Values of an element table ({label}) holding the same value(s) {np.unique(tab).tolist()} in every element: "
                             f"nodal values differ from them by {dev if np.isfinite(dev) else 'shape ' + str(got.shape)}", dict(ident, table=label))
                    break
            # (2) uniform strain state: every advertised result that is uniform over the elements is that constant at every node
            mat = Models.Elastic.Isotropic(2, E=8.0, v=0.25, planeStress=True, thickness=0.5) if dim == 2 else Models.Elastic.Isotropic(3, E=8.0, v=0.25)
            simu = Simulations.Elastic(mesh, mat)
            G = np.array([[rd.randint(-8, 8) / 16 for _ in range(dim)] for _ in range(dim)]) + 0.75 * np.eye(dim)
            tr = np.array([rd.randint(1, 8) / 4 for _ in range(dim)])
            ulin = (mesh.coord[:, :dim] @ G.T + tr).ravel()
            simu._Set_solutions(simu.problemType, ulin.copy(), 0 * ulin, 0 * ulin)
            ident.update(state="u = G X + t", G=G.tolist(), t=tr.tolist())
            checked = []
            for name in simu.Results_Available():
                try:
                    ve = np.asarray(simu.Result(name, nodeValues=False), dtype=float)
                except Exception as ex:  # noqa: BLE001
                    res.fail(f"sim=Elastic result={name} raises on a mesh with degenerate elements", f"Result('{name}', nodeValues=False) raised {type(ex).__name__}: {str(ex)[:120]}", ident)
                    continue
                if ve.ndim == 0 or ve.size % Ne != 0 or ve.shape[0] != Ne:
                    continue                                    # scalars (energies) and results without an element form
                ve = ve.reshape(Ne, -1)
                if (Ne * ve.shape[1]) % Nn == 0:
                    continue                                    # layout undecidable from the size alone: recorded finding (Results_Reshape_values), not this scenario
                scale = max(np.abs(ve).max(), 1e-3)
                if not (np.ptp(ve, axis=0).max() <= 1e-10 * scale):
                    continue                                    # not uniform over the elements (displacement ...): nothing promised here
                res.case(("table-mesh", it_, name))
                vn = np.asarray(simu.Result(name, nodeValues=True), dtype=float)
                devn = np.abs(vn.reshape(Nn, -1) - ve[0]).max() if vn.size == Nn * ve.shape[1] else np.inf
                checked.append(name)
                if not (devn <= 1e-9 * scale):
                    res.fail("sim=Elastic node-element conversion, degenerate elements", f"uniform strain state: Result('{name}') is {np.round(ve[0], 9).tolist()} in every element but its nodal form "
                             + (f"differs from it by {devn:.3e} (nodal values in [{np.nanmin(vn):.6g}, {np.nanmax(vn):.6g}])" if np.isfinite(devn) else f"has shape {vn.shape} (Nn = {Nn})"), dict(ident, result=name))
                    checked = None
                    break
            res.case(("table-mesh", it_, "names covered"))
            if checked is not None and not ({"Exx", "Sxx", "Svm"} <= set(checked)) and {"Exx", "Sxx", "Svm"} <= set(simu.Results_Available()):
                res.fail("sim=Elastic uniform strain not uniform, degenerate elements", f"u = G X + t on a mesh with degenerate elements: of Exx / Sxx / Svm only {sorted(set(checked) & {'Exx', 'Sxx', 'Svm'})} "
                         "come out uniform over the elements (the strain of a linear field is G in every element, degenerate or not)", ident)
            # (3) the other direction: a rigid translation is the same constant at every node, hence in every element
            ucst = np.tile(tr, Nn)
            simu._Set_solutions(simu.problemType, ucst.copy(), 0 * ucst, 0 * ucst)
            for k, axn in enumerate("xyz"[:dim]):
                res.case(("table-mesh", it_, "u" + axn + " element form"))
                ue_ = np.asarray(simu.Result("u" + axn, nodeValues=False), dtype=float).ravel()
                if ue_.shape != (Ne,) or not (np.abs(ue_ - tr[k]).max() <= 1e-12 * np.abs(tr).max()):
                    res.fail("sim=Elastic element form of a constant nodal field, degenerate elements", f"rigid translation t = {tr.tolist()}: the element form of Result('u{axn}') is "
                             + (f"in [{np.nanmin(ue_):.6g}, {np.nanmax(ue_):.6g}] instead of {tr[k]}" if ue_.shape == (Ne,) else f"of shape {ue_.shape} (Ne = {Ne})"), dict(ident, state="u = t", result="u" + axn))
                    break
        except Exception as ex:  # noqa: BLE001
            res.fail("constant fields on a mesh with degenerate elements raise", f"{type(ex).__name__}: {str(ex)[:160]}", ident)

    # ---------------- correspondence ----------------
    lines = ["kinematic Elastic", "kinematic WeakForms", "components 2", "components 3"]
    pts = [[dy(rng, -2, 2) for _ in range(6)] for _ in range(4)]
    for p in pts:
        lines.append("vm 3 " + " ".join(str(int(x * 8)) + "/8" for x in p))
        lines.append("vm 2 " + " ".join(str(int(x * 8)) + "/8" for x in p[:3]))
    answers = driver.ask(lines)
    if answers is None:
        res.disagree("driver", "model driver does not run: " + getattr(driver, "error", "")[:400])
    else:
        # kinematic tables against the real Result on a state with three distinct fields
        mesh3 = M.mesh_3d("HEXA8")
        s3 = Simulations.Elastic(mesh3, Models.Elastic.Isotropic(3, E=8.0, v=0.25))
        s3.Solver_Set_Hyperbolic_Algorithm(0.1)
        n3 = mesh3.Nn * 3
        F = [np.array([dy(rng) for _ in range(n3)]) for _ in range(3)]
        s3._Set_solutions(s3.problemType, F[0].copy(), F[1].copy(), F[2].copy())
        for ent in answers[0].split():
            name, f, c = ent.split(":")
            res.traces += 1
            got = np.asarray(s3.Result(name)).ravel()
            if not (np.abs(got - F[int(f)].reshape(-1, 3)[:, int(c)]).max() <= 1e-12):
                res.disagree("kinematic-table Elastic", dict(name=name, model=(f, c)))
        res.traces += 1
        if answers[1] != answers[0]:
            res.disagree("kinematic-table WeakForms", dict(model=answers[1]))
        for k, p in enumerate(pts):
            m3 = float(parse_frac(answers[4 + 2 * k]))
            m2 = float(parse_frac(answers[5 + 2 * k]))
            res.traces += 2
            if not (abs(m3 - vm(np.array(p), 3) ** 2) <= 1e-9 * (1 + m3)) or not (abs(m2 - vm(np.array(p[:3]), 2) ** 2) <= 1e-9 * (1 + m2)):
                res.disagree("von-mises-expression", dict(point=p))
    res.search_note = "all advertised names on arbitrary states: no inconsistent component, invariant, energy or reaction found"
    res.write("Elastic simulations of 2D/3D element types with seeded arbitrary (u, v, a): every advertised result name in nodal and element form, components vs tensors, "
              "von Mises vs independent Gauss-point values, Wdef vs 1/2 u'Ku, uniform-strain conversion, reactions; WeakForms / Thermal / HyperElastic names; "
              "non-trivial = all (states are random non-zero); distinct = distinct (simulation/element type, name, form)")


if __name__ == "__main__":
    from tools.harness._common import run

    run(main)
