"""C13 harness.
(a) correspondence: `BiLinearForm.Integrate_e` of u·v, ∇u:∇v and the isotropic elasticity form vs the basis-function
    model evaluated exactly on the same wJ, N, dN;
(b) the property on the real code: user forms vs the built-in operators with the same quadrature (UV, GradUGradV,
    GradU_A_GradV with a non-symmetric A, LinearizedElasticity, Linear.V), random forms of a grammar vs an independent
    numpy evaluation from N_pg / dN_e_pg, Assemble vs an explicit scatter-add, WeakForms simulations vs the
    dedicated Thermal / Elastic simulations (static, parabolic, hyperbolic)."""

from __future__ import annotations

import warnings
from fractions import Fraction

import numpy as np

from tools.harness._common import Driver, Result, frac_str, parse_args, parse_frac, rng_for
from tools.harness import _meshes as M

from EasyFEA import Models, Simulations, MatrixType
from EasyFEA.FEM import FeArray, Field, BiLinearForm, LinearForm, Sym_Grad, Trace, Operators


def fs(x):
    return frac_str(Fraction(float(x)))


def basis_data(g, mt):
    """N (nPg, nPe), dN (Ne, nPg, dim, nPe), wJ (Ne, nPg), x (Ne, nPg, 3)"""
    return (np.asarray(g.Get_N_pg(mt))[:, 0, :], np.asarray(g.Get_dN_e_pg(mt)), np.asarray(g.Get_weightedJacobian_e_pg(mt)),
            np.asarray(g.Get_GaussCoordinates_e_pg(mt)))


def independent(g, mt, c, terms, coef, tables=None):
    """element arrays of Σ terms, computed from the tables only (no Field / Form machinery)"""
    N, dN, wJ, X = basis_data(g, mt) if tables is None else tables
    Ne, nPg, dim, nPe = dN.shape
    cx = coef(X[..., 0], X[..., 1], X[..., 2])
    ndof = nPe * c
    data = np.zeros((Ne, ndof, ndof))
    # values and gradients of every basis function: phi (nPg, ndof, c), grad (Ne, nPg, ndof, dim, c)
    phi = np.zeros((nPg, ndof, c))
    grad = np.zeros((Ne, nPg, ndof, dim, c))
    for a in range(nPe):
        for d in range(c):
            phi[:, a * c + d, d] = N[:, a]
            grad[:, :, a * c + d, :, d] = dN[:, :, :, a]
    for (name, par) in terms:
        if name == "uv":
            f = np.einsum("pid,pjd->pij", phi, phi)[None]
        elif name == "gradgrad":
            f = np.einsum("epikd,epjkd->epij", grad, grad)
        elif name == "gradgradT":
            f = np.einsum("epikd,epjdk->epij", grad, grad)
        elif name == "divdiv":
            f = np.einsum("epikk,epjll->epij", grad, grad)
        elif name == "symsym":
            s = 0.5 * (grad + np.swapaxes(grad, -1, -2))
            f = np.einsum("epikd,epjkd->epij", s, s)
        elif name == "rotsym":     # the strain written in a rotated frame, weighted component by component: (Q e(u) Q') : (W o (Q e(v) Q'))
            Qm, Wm = (np.asarray(a_)[:dim, :dim] for a_ in par)
            s = 0.5 * (grad + np.swapaxes(grad, -1, -2))
            sr = np.einsum("ak,epikl,bl->epiab", Qm, s, Qm)
            f = np.einsum("epiab,ab,epjab->epij", sr, Wm, sr)
        elif name == "advect":     # (b·∇u) v for a scalar field
            b = np.asarray(par)
            f = np.einsum("k,epik,pj->epij", b[:dim], grad[..., 0], phi[..., 0])
        elif name == "gradAgrad":
            A = np.asarray(par)
            f = np.einsum("epik,kl,epjl->epij", grad[..., 0], A, grad[..., 0])
        else:
            raise ValueError(name)
        data += np.einsum("ep,ep,epij->eij", wJ, cx, np.broadcast_to(f, (Ne, nPg, ndof, ndof)))
    return data


def user_form(c, terms, coef):
    def form(u, v):
        x, y, z = u.Get_coords()
        cx = coef(x, y, z)
        tot = 0
        for (name, par) in terms:
            if name == "uv":
                t = u.dot(v) if c > 1 else u * v
            elif name == "gradgrad":
                t = u.grad.ddot(v.grad) if c > 1 else u.grad.dot(v.grad)
            elif name == "gradgradT":
                t = u.grad.ddot(v.grad.T)
            elif name == "divdiv":
                t = Trace(u.grad) * Trace(v.grad)
            elif name == "symsym":
                t = Sym_Grad(u).ddot(Sym_Grad(v))
            elif name == "rotsym":
                dd_ = u.groupElem.dim
                Qm, Wm = (np.asarray(a_)[:dd_, :dd_] for a_ in par)
                t = (Qm @ Sym_Grad(u) @ Qm.T).ddot(Wm * (Qm @ Sym_Grad(v) @ Qm.T))
            elif name == "advect":
                t = (u.grad.dot(np.asarray(par)[: u.groupElem.dim])) * v
            elif name == "gradAgrad":
                t = u.grad.dot(np.asarray(par) @ v.grad) if False else (u.grad @ np.asarray(par)).dot(v.grad)
            tot = tot + cx * t
        return tot
    return BiLinearForm(form)


def squeeze(a):
    a = np.asarray(a)
    return a.reshape(a.shape[0], a.shape[1], a.shape[2]) if a.ndim > 3 else a


def main():
    args = parse_args()
    rng = rng_for(args)
    res = Result(args)
    driver = Driver("C13")
    warnings.filterwarnings("ignore")
    thorough = args.tier == "thorough"
    lines, expect = [], []
    types = M.ALL if thorough else ["SEG2", "SEG3", "TRI3", "TRI6", "QUAD4", "QUAD8", "TETRA4", "HEXA8", "PRISM6"]
    small = {"SEG2", "SEG3", "TRI3", "QUAD4", "TETRA4", "TRI6"}
    for k, et in enumerate(types):
        dim = M.dim_of(et)
        mesh = M.mesh_of(et)
        if dim > 1:
            A = np.eye(3)
            for i in range(dim):
                for j in range(dim):
                    A[i, j] += rng.randint(-2, 2) / 8
            if k % 2 == 1:
                A[:, 0] *= -1        # mirrored mesh: every element has a negative Jacobian (Mesh.Symmetry, clockwise-numbered imports)
            if not (abs(np.linalg.det(A)) <= 0.4):
                M.affine(mesh, A, [0.25, -0.5, 0.0])
        g = mesh.groupElem
        res.count(f"elem:{et}")
        coefs = [("1", lambda x, y, z: 1.0 + 0 * x), ("1+x", lambda x, y, z: 1.0 + x), ("2+xy-z", lambda x, y, z: 2.0 + x * y - z)]
        for mt in (MatrixType.rigi, MatrixType.mass):
            try:
                # ---------- scalar field ----------
                fld = Field(g, 1, mt)
                ident = dict(elemType=et, matrixType=str(mt), dof_n=1)
                checks = [("u*v vs UV", BiLinearForm(lambda u, v: u * v), Operators.Bilinear.UV(g, 1.0, 1, mt)),
                          ("grad.grad vs GradUGradV", BiLinearForm(lambda u, v: 2.5 * u.grad.dot(v.grad)), Operators.Bilinear.GradUGradV(g, 2.5, mt))]
                Ans = np.array([[2.0, 0.5, 0.25], [-0.25, 1.5, 0.0], [0.75, 0.125, 1.0]])[:dim, :dim]
                checks.append(("grad.A.grad vs GradU_A_GradV (A not symmetric)", BiLinearForm(lambda u, v: (u.grad @ Ans).dot(v.grad)), Operators.Bilinear.GradU_A_GradV(g, Ans, 1.0, mt)))
                # a field on the right of an operator (reflected operators of Field)
                checks.append(("-(0 - u) * v vs UV", BiLinearForm(lambda u, v: -(0.0 - u) * v), Operators.Bilinear.UV(g, 1.0, 1, mt)))
                checks.append(("u * (2 v - v) vs UV", BiLinearForm(lambda u, v: u * (2.0 * v() - v)), Operators.Bilinear.UV(g, 1.0, 1, mt)))
                for nm, form, builtin in checks:
                    res.case((et, str(mt), nm))
                    try:
                        got = squeeze(form.Integrate_e(fld))
                    except Exception as ex:  # noqa: BLE001
                        res.fail(f"form raises '{nm}'", f"{type(ex).__name__}: {str(ex)[:150]}", ident)
                        continue
                    want = np.asarray(builtin)
                    if got.shape != want.shape or not (np.abs(got - want).max() <= 1e-10 * (1 + np.abs(want).max())):
                        res.fail(f"user form differs from built-in: {nm}", f"max difference {np.abs(got - want).max() if got.shape == want.shape else 'shape ' + str(got.shape)} on {et}", ident)
                lf = LinearForm(lambda v: 3.0 * v)
                res.case((et, str(mt), "linear"))
                gotF = np.asarray(lf.Integrate_e(fld))[..., 0]
                wantF = np.asarray(Operators.Linear.V(g, 3.0, 1, mt))
                if not (np.abs(gotF - wantF.reshape(gotF.shape)).max() <= 1e-10 * (1 + np.abs(wantF).max())):
                    res.fail("user linear form differs from built-in: f*v vs Linear.V", f"max difference {np.abs(gotF - wantF.reshape(gotF.shape)).max()} on {et}", ident)
                # random grammar forms, scalar
                for _ in range(2 if not thorough else 4):
                    cname, coef = rng.choice(coefs)
                    pool = [("uv", None), ("gradgrad", None), ("advect", [rng.randint(-2, 2), rng.randint(1, 3), rng.randint(-2, 2)]), ("gradAgrad", Ans.tolist())]
                    terms = rng.sample(pool, rng.randint(1, 3))
                    res.case((et, str(mt), "grammar-scalar", tuple(t[0] for t in terms), cname))
                    try:
                        got = squeeze(user_form(1, terms, coef).Integrate_e(fld))
                    except Exception as ex:  # noqa: BLE001
                        res.fail("grammar form raises (scalar)", f"{type(ex).__name__}: {str(ex)[:150]}", dict(ident, terms=[t[0] for t in terms], coef=cname))
                        continue
                    want = independent(g, mt, 1, terms, coef)
                    if not (np.abs(got - want).max() <= 1e-10 * (1 + np.abs(want).max())):
                        res.fail(f"grammar form differs (scalar) terms={'+'.join(t[0] for t in terms)}", f"max difference {np.abs(got - want).max():.2e} on {et} with coefficient {cname}", dict(ident, terms=[t[0] for t in terms], coef=cname))
                # ---------- vector field ----------
                if dim >= 2 and g.nPe <= 15 and not (g.nPe > 10 and mt == MatrixType.mass):
                    fldv = Field(g, dim, mt)
                    ident = dict(elemType=et, matrixType=str(mt), dof_n=dim)
                    lam, mu = 1.25, 0.75
                    law = Models.Elastic.Isotropic(dim, E=mu * (3 * lam + 2 * mu) / (lam + mu), v=lam / (2 * (lam + mu)), planeStress=False)
                    eye = np.eye(dim)
                    elast = BiLinearForm(lambda u, v: (2 * mu * Sym_Grad(u) + lam * Trace(Sym_Grad(u)) * eye).ddot(Sym_Grad(v)))
                    checks = [("u.v vs UV", BiLinearForm(lambda u, v: u.dot(v)), Operators.Bilinear.UV(g, 1.0, dim, mt)),
                              ("isotropic elasticity vs LinearizedElasticity", elast, Operators.Bilinear.LinearizedElasticity(g, law.C, mt))]
                    checks.append(("-(0 - u).v vs UV", BiLinearForm(lambda u, v: -(0.0 - u).dot(v)), Operators.Bilinear.UV(g, 1.0, dim, mt)))
                    for nm, form, builtin in checks:
                        res.case((et, str(mt), nm))
                        try:
                            got = squeeze(form.Integrate_e(fldv))
                        except Exception as ex:  # noqa: BLE001
                            res.fail(f"form raises '{nm}'", f"{type(ex).__name__}: {str(ex)[:150]}", ident)
                            continue
                        want = np.asarray(builtin)
                        if got.shape != want.shape or not (np.abs(got - want).max() <= 1e-9 * (1 + np.abs(want).max())):
                            res.fail(f"user form differs from built-in: {nm}", f"max difference {np.abs(got - want).max() if got.shape == want.shape else 'shape ' + str(got.shape)} on {et}", ident)
                    lfv = LinearForm(lambda v: v.dot(np.arange(1, dim + 1) * 0.5))
                    gotF = np.asarray(lfv.Integrate_e(fldv))[..., 0]
                    Nn = g.nPe
                    wantF = np.zeros_like(gotF)
                    base = np.asarray(Operators.Linear.V(g, 1.0, 1, mt)).reshape(g.Ne, Nn)
                    for d in range(dim):
                        wantF[:, d::dim] = base * 0.5 * (d + 1)
                    res.case((et, str(mt), "linear-vector"))
                    if not (np.abs(gotF - wantF).max() <= 1e-10 * (1 + np.abs(wantF).max())):
                        res.fail("user linear form differs: f.v (vector)", f"max difference {np.abs(gotF - wantF).max()} on {et}", ident)
                    for _ in range(2 if not thorough else 4):
                        cname, coef = rng.choice(coefs)
                        thq = 0.3 + rng.random()
                        Qr = np.array([[np.cos(thq), -np.sin(thq), 0.0], [np.sin(thq), np.cos(thq), 0.0], [0.0, 0.0, 1.0]])
                        if dim == 3:
                            Qr = Qr @ np.array([[1.0, 0.0, 0.0], [0.0, 0.6, -0.8], [0.0, 0.8, 0.6]])
                        Wr = np.array([[3.0, 0.5, 0.25], [0.5, 1.0, 0.75], [0.25, 0.75, 2.0]])
                        pool = [("uv", None), ("gradgrad", None), ("gradgradT", None), ("divdiv", None), ("symsym", None), ("rotsym", (Qr, Wr))]
                        terms = rng.sample(pool, rng.randint(1, 3))
                        if _ == 0:
                            terms = [("rotsym", (Qr, Wr))] + terms[:1] if terms[0][0] != "rotsym" else terms
                        res.case((et, str(mt), "grammar-vector", tuple(t[0] for t in terms), cname))
                        try:
                            got = squeeze(user_form(dim, terms, coef).Integrate_e(fldv))
                        except Exception as ex:  # noqa: BLE001
                            res.fail("grammar form raises (vector)", f"{type(ex).__name__}: {str(ex)[:150]}", dict(ident, terms=[t[0] for t in terms], coef=cname))
                            continue
                        want = independent(g, mt, dim, terms, coef)
                        if not (np.abs(got - want).max() <= 1e-10 * (1 + np.abs(want).max())):
                            res.fail(f"grammar form differs (vector) terms={'+'.join(t[0] for t in terms)}", f"max difference {np.abs(got - want).max():.2e} on {et} with coefficient {cname}", dict(ident, terms=[t[0] for t in terms], coef=cname))
                    # Assemble = scatter-add
                    if mt == MatrixType.rigi:
                        Ke = squeeze(elast.Integrate_e(fldv))
                        Ksp = np.asarray(elast.Assemble(fldv).todense())
                        dense = np.zeros_like(Ksp)
                        asm = np.asarray(g.Get_assembly_e(dim))
                        for e in range(g.Ne):
                            dense[np.ix_(asm[e], asm[e])] += Ke[e]
                        res.case((et, "assemble"))
                        if not (np.abs(dense - Ksp).max() <= 1e-10 * (1 + np.abs(dense).max())):
                            res.fail("Assemble is not the scatter-add", f"max difference {np.abs(dense - Ksp).max():.2e} on {et}", ident)
                # ---------- evaluating a field, then using it again in a form ----------
                if mt == MatrixType.rigi and dim >= 2 and g.nPe <= 15:
                    fe = Field(g, dim, mt)
                    X = mesh.coord
                    Gs = np.array([[0.5, 0.25, -0.125], [0.25, -0.75, 0.375], [-0.125, 0.375, 1.0]])[:dim, :dim]   # symmetric gradient
                    dofs = (np.array([1.0, -2.0, 0.5])[:dim] + X[:, :dim] @ Gs.T).ravel()
                    ident = dict(elemType=et, matrixType=str(mt), what="Field.Evaluate_e / Interpolate")
                    form = BiLinearForm(lambda u, v: Sym_Grad(u).ddot(Sym_Grad(v)))
                    fresh = squeeze(form.Integrate_e(Field(g, dim, mt)))
                    for mean in (True, False):
                        res.case((et, "evaluate", mean))
                        try:
                            ge = np.asarray(fe.Evaluate_e(lambda f: f.grad, dofs, returnMeanValues=mean))
                        except Exception as ex:  # noqa: BLE001
                            res.fail("Field.Evaluate_e raises", f"{type(ex).__name__}: {str(ex)[:150]}", ident)
                            continue
                        if not (np.abs(ge.reshape(-1, dim, dim) - Gs).max() <= 1e-9):
                            res.fail("Field.Evaluate_e gradient", f"gradient of a linear field evaluated through Field.Evaluate_e (mean={mean}) is not the constant gradient", ident)
                        # the field must be usable in a form afterwards: same matrix as a fresh field
                        again = squeeze(form.Integrate_e(fe))
                        if again.shape != fresh.shape or not (np.abs(again - fresh).max() <= 1e-12 * (1 + np.abs(fresh).max())):
                            res.fail("field unusable in a form after Evaluate_e", f"after Evaluate_e(returnMeanValues={mean}) the same field integrates ε(u):ε(v) to a matrix differing by {np.abs(again - fresh).max() if again.shape == fresh.shape else 'shape'} from a fresh field", ident)
                    _, _, _, Xg = basis_data(g, mt)
                    vals = np.asarray(fe.Interpolate(dofs))
                    want = np.array([1.0, -2.0, 0.5])[:dim] + Xg[..., :dim] @ Gs.T
                    res.case((et, "interpolate"))
                    if not (np.abs(vals - want).max() <= 1e-9):
                        res.fail("Field.Interpolate", "a linear field interpolated at the Gauss points is not its value there", ident)

                # ---------- correspondence ----------
                if et in small and mt == MatrixType.rigi:
                    N, dN, wJ, _ = basis_data(g, mt)
                    e = rng.randrange(g.Ne)
                    fld1 = Field(g, 1, mt)
                    try:
                        real_uv = squeeze(BiLinearForm(lambda u, v: u * v).Integrate_e(fld1))[e]
                        BiLinearForm(lambda u, v: u.grad.dot(v.grad)).Integrate_e(fld1)
                    except Exception as ex:  # noqa: BLE001
                        res.fail("form raises 'u*v' on a field with a non-default quadrature", f"{type(ex).__name__}: {str(ex)[:150]}", dict(elemType=et, matrixType=str(mt), dof_n=1))
                        continue
                    lines.append(f"uv {N.shape[0]} {N.shape[1]} 1 | " + " ".join(fs(v) for v in wJ[e]) + " | " + " ".join(fs(v) for v in N.ravel()))
                    expect.append((real_uv, dict(elemType=et, form="u*v", element=e)))
                    real_gg = squeeze(BiLinearForm(lambda u, v: u.grad.dot(v.grad)).Integrate_e(fld1))[e]
                    lines.append(f"gg {N.shape[0]} {N.shape[1]} 1 {dim} | " + " ".join(fs(v) for v in wJ[e]) + " | " + " ".join(fs(v) for v in dN[e].ravel()))
                    expect.append((real_gg, dict(elemType=et, form="grad.grad", element=e)))
                    if dim >= 2 and et in ("TRI3", "QUAD4", "TETRA4"):
                        real_iso = squeeze(elast.Integrate_e(Field(g, dim, mt)))[e]
                        lines.append(f"iso {N.shape[0]} {N.shape[1]} {dim} {fs(lam)} {fs(mu)} | " + " ".join(fs(v) for v in wJ[e]) + " | " + " ".join(fs(v) for v in dN[e].ravel()))
                        expect.append((real_iso, dict(elemType=et, form="isotropic elasticity", element=e)))
            except Exception as ex:  # noqa: BLE001
                # none of these calls may raise on a form of the grammar: an exception is a form that cannot be integrated
                res.fail(f"form machinery raises matrixType={mt}", f"{type(ex).__name__}: {str(ex)[:200]}", dict(elemType=et, matrixType=str(mt)))

    # ---------------- the same field and the same form objects used again after the mesh moved in place ----------------
    # the tables (N, dN, wJ, x) are saved when the mesh is built; after each in-place move x -> B x + t (B, t fitted on
    # mesh.coord) the expectation is evaluated from the transported tables  dN' = B^-T dN, wJ' = |det B| wJ, x' = B x + t
    for et in (["TRI3", "TRI6", "QUAD4", "TETRA4"] if not thorough else ["SEG3", "TRI3", "TRI6", "QUAD4", "QUAD8", "TETRA4", "TETRA10", "HEXA8", "PRISM6"]):
        dim = M.dim_of(et)
        try:
            mesh = M.mesh_of(et)
            g = mesh.groupElem
            X0 = np.array(mesh.coord, dtype=float)
            Ans = np.array([[2.0, 0.5, 0.25], [-0.25, 1.5, 0.0], [0.75, 0.125, 1.0]])[:dim, :dim]
            coef = lambda x, y, z: 2.0 + x - 0.5 * y + 0.25 * z   # noqa: E731
            jobs = []
            for mt in (MatrixType.rigi, MatrixType.mass):
                saved = tuple(np.array(t, dtype=float) for t in basis_data(g, mt))
                jobs.append((mt, 1, Field(g, 1, mt), [("gradAgrad", Ans.tolist()), ("uv", None)], saved, None))
                if dim >= 2:
                    lam, mu = 1.25, 0.75
                    law = Models.Elastic.Isotropic(dim, E=mu * (3 * lam + 2 * mu) / (lam + mu), v=lam / (2 * (lam + mu)), planeStress=False)
                    jobs.append((mt, dim, Field(g, dim, mt), [("symsym", None), ("divdiv", None), ("uv", None)], saved, None))
                    eye = np.eye(dim)
                    jobs.append((mt, dim, Field(g, dim, mt), None, saved, law))
            jobs = [(mt, c, fld, terms, saved, law,
                     user_form(c, terms, coef) if terms is not None else BiLinearForm(lambda u, v: (2 * mu * Sym_Grad(u) + lam * Trace(Sym_Grad(u)) * eye).ddot(Sym_Grad(v))))
                    for (mt, c, fld, terms, saved, law) in jobs]
            ax = [0.0, 0.0, 1.0] if dim < 3 else [1.0, 2.0, 2.0]
            Bm = np.eye(3)
            Bm[:dim, :dim] += np.array([[2.0, 0.5, 0.0], [0.0, -0.25, 0.25], [0.5, 0.0, 0.5]])[:dim, :dim]
            moves = [("as built", lambda: None),
                     ("mesh.coord = stretched and sheared coordinates", lambda: M.affine(mesh, Bm, [0.5, -0.25, 0.0])),
                     ("Mesh.Rotate(35)", lambda: mesh.Rotate(35.0, (0.25, 0.5, 0.0), ax) if dim > 1 else mesh.Translate(0.75)),
                     ("Mesh.Translate", lambda: mesh.Translate(-1.5, 0.25, 0.0))]
            history = []
            for mname, move in moves:
                move()
                history.append(mname)
                X1 = np.asarray(mesh.coord, dtype=float)
                # affine map of the current configuration, from the coordinates a user sees
                sol = np.linalg.lstsq(np.c_[X0[:, :dim], np.ones(len(X0))], X1[:, :dim], rcond=None)[0]
                B, t = sol[:dim].T, sol[dim]
                Binv = np.linalg.inv(B)
                # ... and where the points of the mesh are now, in all three coordinates (a bar translated off its axis keeps its own
                # abscissa as the only coordinate of the map above, but a coefficient k(x, y, z) sees its new y and z)
                sol3 = np.linalg.lstsq(np.c_[X0[:, :dim], np.ones(len(X0))], X1, rcond=None)[0]
                for (mt, c, fld, terms, saved, law, form) in jobs:
                    N0, dN0, wJ0, Xg0 = saved
                    Xg = np.array(Xg0)
                    Xg[..., :] = Xg0[..., :dim] @ sol3[:dim] + sol3[dim]
                    tables = (N0, np.einsum("lk,eplj->epkj", Binv, dN0), abs(np.linalg.det(B)) * wJ0, Xg)
                    nm = "+".join(x[0] for x in terms) if terms is not None else "isotropic elasticity"
                    ident = dict(elemType=et, matrixType=str(mt), dof_n=c, form=nm, history=list(history), scenario="same Field and form objects used after each in-place move of the mesh")
                    res.case((et, str(mt), "moved", nm, mname))
                    res.count("moved-mesh:" + mname)
                    try:
                        got = squeeze(form.Integrate_e(fld))
                        Asp = form.Assemble(fld)
                    except Exception as ex:  # noqa: BLE001
                        res.fail("form raises on a moved mesh", f"{type(ex).__name__}: {str(ex)[:150]}", ident)
                        continue
                    if terms is not None:
                        want = independent(g, mt, c, terms, coef, tables)
                        src = "the independent evaluation on the tables transported by the affine map"
                    else:
                        want = independent(g, mt, c, [("symsym", None)], lambda x, y, z: 2 * mu + 0 * x, tables) + independent(g, mt, c, [("divdiv", None)], lambda x, y, z: lam + 0 * x, tables)
                        src = "2 mu eps:eps + lam div div on the tables transported by the affine map"
                    if got.shape != want.shape or not (np.abs(got - want).max() <= 1e-9 * (1 + np.abs(want).max())):
                        res.fail("form on a mesh moved in place differs from the moved configuration", f"{nm} on {et} after [{' ; '.join(history)}]: Integrate_e of the same field differs from {src} by "
                                 f"{np.abs(got - want).max() if got.shape == want.shape else 'shape ' + str(got.shape)}", ident)
                        continue
                    if law is not None:
                        builtin = np.asarray(Operators.Bilinear.LinearizedElasticity(g, law.C, mt))
                        if builtin.shape != got.shape or not (np.abs(got - builtin).max() <= 1e-9 * (1 + np.abs(builtin).max())):
                            res.fail("form on a mesh moved in place differs from the built-in operator", f"{nm} on {et} after [{' ; '.join(history)}]: differs from LinearizedElasticity on the current mesh by {np.abs(got - builtin).max() if got.shape == builtin.shape else 'shape'}", ident)
                    conn = np.asarray(g.connect)
                    asm = (conn[:, :, None] * c + np.arange(c)).reshape(g.Ne, -1)
                    dense = np.zeros((g.Ncoords * c,) * 2)
                    for e in range(g.Ne):
                        dense[np.ix_(asm[e], asm[e])] += want[e]
                    if Asp.shape != dense.shape or not (np.abs(np.asarray(Asp.todense()) - dense).max() <= 1e-9 * (1 + np.abs(dense).max())):
                        res.fail("Assemble on a mesh moved in place is not the scatter-add", f"{nm} on {et} after [{' ; '.join(history)}]", ident)
        except Exception as ex:  # noqa: BLE001
            res.fail("moved-mesh scenario raises", f"{type(ex).__name__}: {str(ex)[:200]}", dict(elemType=et))

    # ---------------- direct sparse assembly on meshes with more than 2**16 unknowns ----------------
    from scipy.sparse import coo_matrix
    from EasyFEA import ElemType
    from EasyFEA.Geoms import Domain
    for et, n, c in ((("TRI3", 280, 1), ("QUAD4", 200, 2)) if not thorough else (("TRI3", 280, 1), ("QUAD4", 200, 2), ("TRI3", 150, 2), ("QUAD4", 420, 1))):
        ident = dict(elemType=et, domain="unit square, organised", cells_per_side=n, dof_n=c)
        try:
            mesh = Domain((0, 0), (1, 1), 1 / n).Mesh_2D([], ElemType(et), isOrganised=True)
            M.affine(mesh, [[1.5, 0.25, 0], [0.0, 0.75, 0], [0, 0, 1]], [0.5, 0.0, 0.0])
            g = mesh.groupElem
            Ndof = g.Ncoords * c
            ident["Ndof"] = int(Ndof)
            conn = np.asarray(g.connect).astype(np.int64)
            asm = (conn[:, :, None] * c + np.arange(c)).reshape(g.Ne, -1)
            rows = np.repeat(asm, asm.shape[1], axis=1).ravel()
            cols = np.tile(asm, (1, asm.shape[1])).ravel()
            w = np.repeat(np.cos(3 * mesh.coord[:, 0]) + mesh.coord[:, 1] ** 2, c) + np.tile(np.arange(c), g.Ncoords)
            if c == 1:
                todo = [("grad.grad + 3 u*v", MatrixType.mass, BiLinearForm(lambda u, v: u.grad.dot(v.grad) + 3.0 * u * v),
                         lambda: np.asarray(Operators.Bilinear.GradUGradV(g, 1.0, MatrixType.mass)) + np.asarray(Operators.Bilinear.UV(g, 3.0, 1, MatrixType.mass)))]
            else:
                todo = [("7 u.v", MatrixType.mass, BiLinearForm(lambda u, v: 7.0 * u.dot(v)), lambda: np.asarray(Operators.Bilinear.UV(g, 7.0, c, MatrixType.mass)))]
            for nm, mt, form, builtin in todo:
                res.case((et, "large", nm, n, c))
                res.count("large-mesh")
                Asp = form.Assemble(Field(g, c, mt)).tocsr()
                want_e = builtin()
                ref = coo_matrix((want_e.ravel(), (rows, cols)), shape=(Ndof, Ndof)).tocsr()
                scale = 1 + abs(ref).max()
                if Asp.shape != ref.shape or not (abs(Asp - ref).max() <= 1e-9 * scale):
                    res.fail("Assemble is not the scatter-add on a large mesh", f"{nm} on {et} with {Ndof} unknowns: the assembled matrix differs from the scatter-add of the built-in element matrices by "
                             f"{abs(Asp - ref).max() if Asp.shape == ref.shape else 'shape'} (nnz {Asp.nnz} vs {ref.nnz})", ident)
                elif not (np.abs(Asp @ w - ref @ w).max() <= 1e-9 * (1 + np.abs(ref @ w).max())):
                    res.fail("Assemble is not the scatter-add on a large mesh", f"{nm} on {et} with {Ndof} unknowns: A w differs", ident)
        except Exception as ex:  # noqa: BLE001
            res.fail("large-mesh assembly raises", f"{type(ex).__name__}: {str(ex)[:200]}", ident)

    # ---------------- heat conduction on a plate placed in space (2D mesh, 3D coordinates) with thickness != 1, and on a bar ----------------
    from EasyFEA import Mesh as _MeshC
    for et in (["TRI3", "QUAD4"] if not thorough else ["TRI3", "TRI6", "QUAD4", "QUAD8"]):
        ident = dict(elemType=et, mode="thermal-static on a plate rotated by 30 degrees about the x-axis", thickness=0.5)
        res.case((et, "plate-in-space"))
        res.count("plates-in-space")
        try:
            mp_ = M.mesh_2d(et, 2.0, 1.0, 0.5)
            mp_.Rotate(30.0, (0.0, 0.0, 0.0), (1, 0, 0))
            mp_ = _MeshC(mp_.dict_groupElem)      # a mesh object built on the moved groups: it knows it lives in 3D
            kc_ = 2.0
            refp = Simulations.Thermal(mp_, Models.Thermal(kc_, 1.0, thickness=0.5))
            simp = Simulations.WeakForms(mp_, Models.WeakForms(Field(mp_.groupElem, 1, MatrixType.rigi), BiLinearForm(lambda u, v: kc_ * u.grad.dot(v.grad)), thickness=0.5))      # same quadrature as Thermal's conduction matrix
            Kr_, Kw_ = refp.Get_K_C_M_F()[0].toarray(), simp.Get_K_C_M_F()[0].toarray()
            if not (np.abs(Kr_ - Kw_).max() <= 1e-9 * np.abs(Kr_).max()):
                res.fail("weak-form conduction matrix differs from Thermal on a plate in space", f"max |K_thermal - K_weakform| / |K| = {np.abs(Kr_ - Kw_).max() / np.abs(Kr_).max():.3e} (inDim = {mp_.inDim}, dim = {mp_.dim})", ident)
            sols_ = []
            for s_ in (refp, simp):
                unk_ = s_.Get_unknowns()[:1]
                s_.add_dirichlet(mp_.Nodes_Conditions(lambda x, y, z: x == 0), [0.0], unk_)
                s_.add_surfLoad(mp_.nodes, [1.0], unk_)
                sols_.append(np.asarray(s_.Solve(), dtype=float).ravel().copy())
            if not (np.abs(sols_[0] - sols_[1]).max() <= 1e-9 * np.abs(sols_[0]).max()):
                res.fail("weak-form heat solution differs from Thermal on a plate in space", f"max |T_thermal - T_weakform| = {np.abs(sols_[0] - sols_[1]).max():.3e} for max |T| = {np.abs(sols_[0]).max():.3e}", ident)
        except Exception as ex:  # noqa: BLE001
            res.fail("plate-in-space scenario raises", f"{type(ex).__name__}: {str(ex)[:160]}", ident)

    # ---------------- WeakForms simulations vs dedicated simulations ----------------
    for et in (["TRI6", "QUAD4"] if not thorough else ["TRI3", "TRI6", "QUAD4", "QUAD8", "TETRA4", "HEXA8"]):
        dim = M.dim_of(et)
        thick = 0.5 if dim == 2 else 1.0
        for mode in ("thermal-static", "thermal-parabolic", "elastic-static", "elastic-hyperbolic", "elastic-hyperbolic, damping given by the mass form"):
            if mode.endswith("mass form") and dim == 3:
                continue   # the thickness only exists in 2D
            if et == "QUAD8" and not mode.endswith("static"):
                continue   # reduced 'rigi' rule: a single field cannot reproduce the two quadratures of the dedicated simulation
            ident = dict(elemType=et, mode=mode, thickness=thick)
            mesh = M.mesh_of(et)
            left = mesh.Nodes_Conditions(lambda x, y, z: x == 0)
            right = mesh.Nodes_Conditions(lambda x, y, z: x == 2.0)
            try:
                if mode.startswith("thermal"):
                    kc, cc, rho = 2.0, 3.0, 1.5
                    ref = Simulations.Thermal(mesh, Models.Thermal(kc, cc, thickness=thick))
                    ref.rho = rho
                    fK = Field(mesh.groupElem, 1, MatrixType.mass if mode.endswith("parabolic") else MatrixType.rigi)
                    wf = Models.WeakForms(fK, BiLinearForm(lambda u, v: kc * u.grad.dot(v.grad)), computeC=BiLinearForm(lambda u, v: rho * cc * u * v), thickness=thick)
                    sim = Simulations.WeakForms(mesh, wf)
                    def solve_all(ref=ref, sim=sim, mode=mode):
                        for s_, unk in ((ref, "t"), (sim, "u")):
                            s_.Bc_Init()
                            if mode.endswith("parabolic"):
                                s_.Solver_Set_Parabolic_Algorithm(0.25, 0.5)
                            s_.add_dirichlet(left, [0.0], [unk])
                            s_.add_dirichlet(right, [1.5], [unk])
                            s_.Solve()
                        return np.array(ref.thermal), np.array(sim.u)
                    a, b = solve_all()
                else:
                    lam, mu, rho = 1.25, 0.75, 2.0
                    law = Models.Elastic.Isotropic(dim, E=mu * (3 * lam + 2 * mu) / (lam + mu), v=lam / (2 * (lam + mu)), planeStress=False, thickness=thick)
                    ref = Simulations.Elastic(mesh, law)
                    ref.rho = rho
                    eye = np.eye(dim)
                    fK = Field(mesh.groupElem, dim, MatrixType.mass if mode.endswith("hyperbolic") else MatrixType.rigi)
                    massForm = BiLinearForm(lambda u, v: rho * u.dot(v))
                    shared = mode.endswith("mass form")
                    fK = Field(mesh.groupElem, dim, MatrixType.mass if (mode.endswith("hyperbolic") or shared) else MatrixType.rigi)
                    wf = Models.WeakForms(fK, BiLinearForm(lambda u, v: (2 * mu * Sym_Grad(u) + lam * Trace(Sym_Grad(u)) * eye).ddot(Sym_Grad(v))),
                                          computeC=massForm if shared else None, computeM=massForm, thickness=thick)      # the SAME form object for two terms: C = M
                    if shared:
                        ref.Set_Rayleigh_Damping_Coefs(1.0, 0.0)     # C = M
                    sim = Simulations.WeakForms(mesh, wf)
                    unk = ["x", "y", "z"][:dim]

                    def solve_all(ref=ref, sim=sim, mode=mode, shared=shared, unk=unk, dim=dim):
                        for s_ in (ref, sim):
                            s_.Bc_Init()
                            if mode.endswith("hyperbolic") or shared:
                                s_.Solver_Set_Hyperbolic_Algorithm(0.125)
                            s_.add_dirichlet(left, [0.0] * dim, unk)
                            s_.add_dirichlet(right, [0.05], ["x"])
                            s_.Solve()
                        return np.array(ref.displacement), np.array(sim.u)
                    a, b = solve_all()
            except Exception as ex:  # noqa: BLE001
                res.fail(f"weak-form simulation raises mode={mode}", f"{type(ex).__name__}: {str(ex)[:150]}", ident)
                continue
            res.case((et, mode))
            res.count("simulation:" + mode)
            tol = 1e-9   # static: the 'rigi' rule of the dedicated simulation; transient: one field = one quadrature, the 'mass' rule (exact for these stiffnesses)
            if a.shape != b.shape or not (np.abs(a - b).max() <= tol * (1 + np.abs(a).max())):
                res.fail(f"weak-form simulation differs mode={mode}", f"solution differs from the dedicated simulation by {np.abs(a - b).max():.2e} on {et}", ident)
                continue
            # the same two simulations solved again after the mesh was stretched and turned in place (same nodes, same connectivity)
            ident = dict(ident, history=["Solve", "mesh.coord = coord @ A.T + t (in place)", "Bc_Init, same conditions, Solve"])
            Amove = np.eye(3)
            Amove[:dim, :dim] = np.array([[2.5, -0.5, 0.0], [0.75, 1.0, 0.25], [0.0, -0.25, 1.5]])[:dim, :dim]
            try:
                M.affine(mesh, Amove, [0.25, -0.5, 0.0])
                a, b = solve_all()
            except Exception as ex:  # noqa: BLE001
                res.fail(f"weak-form simulation raises after the mesh moved mode={mode}", f"{type(ex).__name__}: {str(ex)[:150]}", ident)
                continue
            res.case((et, mode, "second solve on the moved mesh"))
            res.count("simulation, second solve on the moved mesh:" + mode)
            if a.shape != b.shape or not (np.abs(a - b).max() <= tol * (1 + np.abs(a).max())):
                res.fail(f"weak-form simulation differs after the mesh moved mode={mode}", f"second solve, after the mesh was moved in place: solution differs from the dedicated simulation by {np.abs(a - b).max():.2e} on {et}", ident)

    answers = driver.ask(lines)
    if answers is None:
        res.disagree("driver", "model driver does not run: " + getattr(driver, "error", "")[:400])
    else:
        for (real, ident), ans in zip(expect, answers):
            res.traces += 1
            try:
                model = np.array([float(parse_frac(x)) for x in ans.split()]).reshape(real.shape)
            except Exception:  # noqa: BLE001
                res.disagree("element-form", dict(ident, model=ans[:80]))
                continue
            if not (np.abs(model - real).max() <= 1e-10 * (1 + np.abs(real).max())):
                res.disagree("element-form", dict(ident, maxdiff=float(np.abs(model - real).max())))
    res.search_note = "user forms, built-in operators, the independent evaluation and the dedicated simulations agree on the sampled meshes"
    res.write("affinely distorted meshes of every element type, 'rigi' and 'mass' quadratures, scalar and vector fields: user forms vs UV / GradUGradV / GradU_A_GradV (non-symmetric A) / "
              "LinearizedElasticity / Linear.V; random sums of 1-3 terms of the grammar {u·v, ∇u:∇v, ∇u:∇vᵀ, div u div v, ε(u):ε(v), (b·∇u) v, ∇u·A∇v} with position-dependent coefficients vs an independent "
              "numpy evaluation; Assemble vs scatter-add; WeakForms simulations vs Thermal / Elastic (static, parabolic, hyperbolic); distinct = distinct (element type, quadrature, form)")


if __name__ == "__main__":
    from tools.harness._common import run

    run(main)
