"""C13 harness.
(a) correspondence: `BiLinearForm.Integrate_e` of u·v, ∇u:∇v and the isotropic elasticity form vs the basis-function
    model evaluated exactly on the same wJ, N, dN;
(b) the property on the real code: user forms vs the built-in operators with the same quadrature (UV, GradUGradV,
    GradU_A_GradV with a non-symmetric A, LinearizedElasticity, Linear.V), random forms of a grammar vs an independent
    numpy evaluation from N_pg / dN_e_pg, Assemble vs an explicit scatter-add, WeakForms simulations vs the
    dedicated Thermal / Elastic simulations (static, parabolic, hyperbolic)."""

from __future__ import annotations

import warnings
from fractions import Fraction

import numpy as np

from tools.harness._common import Driver, Result, frac_str, parse_args, parse_frac, rng_for
from tools.harness import _meshes as M

from EasyFEA import Models, Simulations, MatrixType
from EasyFEA.FEM import FeArray, Field, BiLinearForm, LinearForm, Sym_Grad, Trace, Operators


def fs(x):
    return frac_str(Fraction(float(x)))


def basis_data(g, mt):
    """N (nPg, nPe), dN (Ne, nPg, dim, nPe), wJ (Ne, nPg), x (Ne, nPg, 3)"""
    return (np.asarray(g.Get_N_pg(mt))[:, 0, :], np.asarray(g.Get_dN_e_pg(mt)), np.asarray(g.Get_weightedJacobian_e_pg(mt)),
            np.asarray(g.Get_GaussCoordinates_e_pg(mt)))


def independent(g, mt, c, terms, coef):
    """element arrays of Σ terms, computed from the tables only (no Field / Form machinery)"""
    N, dN, wJ, X = basis_data(g, mt)
    Ne, nPg, dim, nPe = dN.shape
    cx = coef(X[..., 0], X[..., 1], X[..., 2])
    ndof = nPe * c
    data = np.zeros((Ne, ndof, ndof))
    # values and gradients of every basis function: phi (nPg, ndof, c), grad (Ne, nPg, ndof, dim, c)
    phi = np.zeros((nPg, ndof, c))
    grad = np.zeros((Ne, nPg, ndof, dim, c))
    for a in range(nPe):
        for d in range(c):
            phi[:, a * c + d, d] = N[:, a]
            grad[:, :, a * c + d, :, d] = dN[:, :, :, a]
    for (name, par) in terms:
        if name == "uv":
            f = np.einsum("pid,pjd->pij", phi, phi)[None]
        elif name == "gradgrad":
            f = np.einsum("epikd,epjkd->epij", grad, grad)
        elif name == "gradgradT":
            f = np.einsum("epikd,epjdk->epij", grad, grad)
        elif name == "divdiv":
            f = np.einsum("epikk,epjll->epij", grad, grad)
        elif name == "symsym":
            s = 0.5 * (grad + np.swapaxes(grad, -1, -2))
            f = np.einsum("epikd,epjkd->epij", s, s)
        elif name == "advect":     # (b·∇u) v for a scalar field
            b = np.asarray(par)
            f = np.einsum("k,epik,pj->epij", b[:dim], grad[..., 0], phi[..., 0])
        elif name == "gradAgrad":
            A = np.asarray(par)
            f = np.einsum("epik,kl,epjl->epij", grad[..., 0], A, grad[..., 0])
        else:
            raise ValueError(name)
        data += np.einsum("ep,ep,epij->eij", wJ, cx, np.broadcast_to(f, (Ne, nPg, ndof, ndof)))
    return data


def user_form(c, terms, coef):
    def form(u, v):
        x, y, z = u.Get_coords()
        cx = coef(x, y, z)
        tot = 0
        for (name, par) in terms:
            if name == "uv":
                t = u.dot(v) if c > 1 else u * v
            elif name == "gradgrad":
                t = u.grad.ddot(v.grad) if c > 1 else u.grad.dot(v.grad)
            elif name == "gradgradT":
                t = u.grad.ddot(v.grad.T)
            elif name == "divdiv":
                t = Trace(u.grad) * Trace(v.grad)
            elif name == "symsym":
                t = Sym_Grad(u).ddot(Sym_Grad(v))
            elif name == "advect":
                t = (u.grad.dot(np.asarray(par)[: u.groupElem.dim])) * v
            elif name == "gradAgrad":
                t = u.grad.dot(np.asarray(par) @ v.grad) if False else (u.grad @ np.asarray(par)).dot(v.grad)
            tot = tot + cx * t
        return tot
    return BiLinearForm(form)


def squeeze(a):
    a = np.asarray(a)
    return a.reshape(a.shape[0], a.shape[1], a.shape[2]) if a.ndim > 3 else a


def main():
    args = parse_args()
    rng = rng_for(args)
    res = Result(args)
    driver = Driver("C13")
    warnings.filterwarnings("ignore")
    thorough = args.tier == "thorough"
    lines, expect = [], []
    types = M.ALL if thorough else ["SEG2", "SEG3", "TRI3", "TRI6", "QUAD4", "QUAD8", "TETRA4", "HEXA8", "PRISM6"]
    small = {"SEG2", "SEG3", "TRI3", "QUAD4", "TETRA4", "TRI6"}
    for k, et in enumerate(types):
        dim = M.dim_of(et)
        mesh = M.mesh_of(et)
        if dim > 1:
            A = np.eye(3)
            for i in range(dim):
                for j in range(dim):
                    A[i, j] += rng.randint(-2, 2) / 8
            if k % 2 == 1:
                A[:, 0] *= -1        # mirrored mesh: every element has a negative Jacobian (Mesh.Symmetry, clockwise-numbered imports)
            if abs(np.linalg.det(A)) > 0.4:
                M.affine(mesh, A, [0.25, -0.5, 0.0])
        g = mesh.groupElem
        res.count(f"elem:{et}")
        coefs = [("1", lambda x, y, z: 1.0 + 0 * x), ("1+x", lambda x, y, z: 1.0 + x), ("2+xy-z", lambda x, y, z: 2.0 + x * y - z)]
        for mt in (MatrixType.rigi, MatrixType.mass):
            try:
                # ---------- scalar field ----------
                fld = Field(g, 1, mt)
                ident = dict(elemType=et, matrixType=str(mt), dof_n=1)
                checks = [("u*v vs UV", BiLinearForm(lambda u, v: u * v), Operators.Bilinear.UV(g, 1.0, 1, mt)),
                          ("grad.grad vs GradUGradV", BiLinearForm(lambda u, v: 2.5 * u.grad.dot(v.grad)), Operators.Bilinear.GradUGradV(g, 2.5, mt))]
                Ans = np.array([[2.0, 0.5, 0.25], [-0.25, 1.5, 0.0], [0.75, 0.125, 1.0]])[:dim, :dim]
                checks.append(("grad.A.grad vs GradU_A_GradV (A not symmetric)", BiLinearForm(lambda u, v: (u.grad @ Ans).dot(v.grad)), Operators.Bilinear.GradU_A_GradV(g, Ans, 1.0, mt)))
                for nm, form, builtin in checks:
                    res.case((et, str(mt), nm))
                    try:
                        got = squeeze(form.Integrate_e(fld))
                    except Exception as ex:  # noqa: BLE001
                        res.fail(f"form raises '{nm}'", f"{type(ex).__name__}: {str(ex)[:150]}", ident)
                        continue
                    want = np.asarray(builtin)
                    if got.shape != want.shape or np.abs(got - want).max() > 1e-10 * (1 + np.abs(want).max()):
                        res.fail(f"user form differs from built-in: {nm}", f"max difference {np.abs(got - want).max() if got.shape == want.shape else 'shape ' + str(got.shape)} on {et}", ident)
                lf = LinearForm(lambda v: 3.0 * v)
                res.case((et, str(mt), "linear"))
                gotF = np.asarray(lf.Integrate_e(fld))[..., 0]
                wantF = np.asarray(Operators.Linear.V(g, 3.0, 1, mt))
                if np.abs(gotF - wantF.reshape(gotF.shape)).max() > 1e-10 * (1 + np.abs(wantF).max()):
                    res.fail("user linear form differs from built-in: f*v vs Linear.V", f"max difference {np.abs(gotF - wantF.reshape(gotF.shape)).max()} on {et}", ident)
                # random grammar forms, scalar
                for _ in range(2 if not thorough else 4):
                    cname, coef = rng.choice(coefs)
                    pool = [("uv", None), ("gradgrad", None), ("advect", [rng.randint(-2, 2), rng.randint(1, 3), rng.randint(-2, 2)]), ("gradAgrad", Ans.tolist())]
                    terms = rng.sample(pool, rng.randint(1, 3))
                    res.case((et, str(mt), "grammar-scalar", tuple(t[0] for t in terms), cname))
                    try:
                        got = squeeze(user_form(1, terms, coef).Integrate_e(fld))
                    except Exception as ex:  # noqa: BLE001
                        res.fail("grammar form raises (scalar)", f"{type(ex).__name__}: {str(ex)[:150]}", dict(ident, terms=[t[0] for t in terms], coef=cname))
                        continue
                    want = independent(g, mt, 1, terms, coef)
                    if np.abs(got - want).max() > 1e-10 * (1 + np.abs(want).max()):
                        res.fail(f"grammar form differs (scalar) terms={'+'.join(t[0] for t in terms)}", f"max difference {np.abs(got - want).max():.2e} on {et} with coefficient {cname}", dict(ident, terms=[t[0] for t in terms], coef=cname))
                # ---------- vector field ----------
                if dim >= 2 and g.nPe <= 15 and not (g.nPe > 10 and mt == MatrixType.mass):
                    fldv = Field(g, dim, mt)
                    ident = dict(elemType=et, matrixType=str(mt), dof_n=dim)
                    lam, mu = 1.25, 0.75
                    law = Models.Elastic.Isotropic(dim, E=mu * (3 * lam + 2 * mu) / (lam + mu), v=lam / (2 * (lam + mu)), planeStress=False)
                    eye = np.eye(dim)
                    elast = BiLinearForm(lambda u, v: (2 * mu * Sym_Grad(u) + lam * Trace(Sym_Grad(u)) * eye).ddot(Sym_Grad(v)))
                    checks = [("u.v vs UV", BiLinearForm(lambda u, v: u.dot(v)), Operators.Bilinear.UV(g, 1.0, dim, mt)),
                              ("isotropic elasticity vs LinearizedElasticity", elast, Operators.Bilinear.LinearizedElasticity(g, law.C, mt))]
                    for nm, form, builtin in checks:
                        res.case((et, str(mt), nm))
                        try:
                            got = squeeze(form.Integrate_e(fldv))
                        except Exception as ex:  # noqa: BLE001
                            res.fail(f"form raises '{nm}'", f"{type(ex).__name__}: {str(ex)[:150]}", ident)
                            continue
                        want = np.asarray(builtin)
                        if got.shape != want.shape or np.abs(got - want).max() > 1e-9 * (1 + np.abs(want).max()):
                            res.fail(f"user form differs from built-in: {nm}", f"max difference {np.abs(got - want).max() if got.shape == want.shape else 'shape ' + str(got.shape)} on {et}", ident)
                    lfv = LinearForm(lambda v: v.dot(np.arange(1, dim + 1) * 0.5))
                    gotF = np.asarray(lfv.Integrate_e(fldv))[..., 0]
                    Nn = g.nPe
                    wantF = np.zeros_like(gotF)
                    base = np.asarray(Operators.Linear.V(g, 1.0, 1, mt)).reshape(g.Ne, Nn)
                    for d in range(dim):
                        wantF[:, d::dim] = base * 0.5 * (d + 1)
                    res.case((et, str(mt), "linear-vector"))
                    if np.abs(gotF - wantF).max() > 1e-10 * (1 + np.abs(wantF).max()):
                        res.fail("user linear form differs: f.v (vector)", f"max difference {np.abs(gotF - wantF).max()} on {et}", ident)
                    for _ in range(2 if not thorough else 4):
                        cname, coef = rng.choice(coefs)
                        pool = [("uv", None), ("gradgrad", None), ("gradgradT", None), ("divdiv", None), ("symsym", None)]
                        terms = rng.sample(pool, rng.randint(1, 3))
                        res.case((et, str(mt), "grammar-vector", tuple(t[0] for t in terms), cname))
                        try:
                            got = squeeze(user_form(dim, terms, coef).Integrate_e(fldv))
                        except Exception as ex:  # noqa: BLE001
                            res.fail("grammar form raises (vector)", f"{type(ex).__name__}: {str(ex)[:150]}", dict(ident, terms=[t[0] for t in terms], coef=cname))
                            continue
                        want = independent(g, mt, dim, terms, coef)
                        if np.abs(got - want).max() > 1e-10 * (1 + np.abs(want).max()):
                            res.fail(f"grammar form differs (vector) terms={'+'.join(t[0] for t in terms)}", f"max difference {np.abs(got - want).max():.2e} on {et} with coefficient {cname}", dict(ident, terms=[t[0] for t in terms], coef=cname))
                    # Assemble = scatter-add
                    if mt == MatrixType.rigi:
                        Ke = squeeze(elast.Integrate_e(fldv))
                        Ksp = np.asarray(elast.Assemble(fldv).todense())
                        dense = np.zeros_like(Ksp)
                        asm = np.asarray(g.Get_assembly_e(dim))
                        for e in range(g.Ne):
                            dense[np.ix_(asm[e], asm[e])] += Ke[e]
                        res.case((et, "assemble"))
                        if np.abs(dense - Ksp).max() > 1e-10 * (1 + np.abs(dense).max()):
                            res.fail("Assemble is not the scatter-add", f"max difference {np.abs(dense - Ksp).max():.2e} on {et}", ident)
                # ---------- evaluating a field, then using it again in a form ----------
                if mt == MatrixType.rigi and dim >= 2 and g.nPe <= 15:
                    fe = Field(g, dim, mt)
                    X = mesh.coord
                    Gs = np.array([[0.5, 0.25, -0.125], [0.25, -0.75, 0.375], [-0.125, 0.375, 1.0]])[:dim, :dim]   # symmetric gradient
                    dofs = (np.array([1.0, -2.0, 0.5])[:dim] + X[:, :dim] @ Gs.T).ravel()
                    ident = dict(elemType=et, matrixType=str(mt), what="Field.Evaluate_e / Interpolate")
                    form = BiLinearForm(lambda u, v: Sym_Grad(u).ddot(Sym_Grad(v)))
                    fresh = squeeze(form.Integrate_e(Field(g, dim, mt)))
                    for mean in (True, False):
                        res.case((et, "evaluate", mean))
                        try:
                            ge = np.asarray(fe.Evaluate_e(lambda f: f.grad, dofs, returnMeanValues=mean))
                        except Exception as ex:  # noqa: BLE001
                            res.fail("Field.Evaluate_e raises", f"{type(ex).__name__}: {str(ex)[:150]}", ident)
                            continue
                        if np.abs(ge.reshape(-1, dim, dim) - Gs).max() > 1e-9:
                            res.fail("Field.Evaluate_e gradient", f"gradient of a linear field evaluated through Field.Evaluate_e (mean={mean}) is not the constant gradient", ident)
                        # the field must be usable in a form afterwards: same matrix as a fresh field
                        again = squeeze(form.Integrate_e(fe))
                        if again.shape != fresh.shape or np.abs(again - fresh).max() > 1e-12 * (1 + np.abs(fresh).max()):
                            res.fail("field unusable in a form after Evaluate_e", f"after Evaluate_e(returnMeanValues={mean}) the same field integrates ε(u):ε(v) to a matrix differing by {np.abs(again - fresh).max() if again.shape == fresh.shape else 'shape'} from a fresh field", ident)
                    _, _, _, Xg = basis_data(g, mt)
                    vals = np.asarray(fe.Interpolate(dofs))
                    want = np.array([1.0, -2.0, 0.5])[:dim] + Xg[..., :dim] @ Gs.T
                    res.case((et, "interpolate"))
                    if np.abs(vals - want).max() > 1e-9:
                        res.fail("Field.Interpolate", "a linear field interpolated at the Gauss points is not its value there", ident)

                # ---------- correspondence ----------
                if et in small and mt == MatrixType.rigi:
                    N, dN, wJ, _ = basis_data(g, mt)
                    e = rng.randrange(g.Ne)
                    fld1 = Field(g, 1, mt)
                    try:
                        real_uv = squeeze(BiLinearForm(lambda u, v: u * v).Integrate_e(fld1))[e]
                        BiLinearForm(lambda u, v: u.grad.dot(v.grad)).Integrate_e(fld1)
                    except Exception as ex:  # noqa: BLE001
                        res.fail("form raises 'u*v' on a field with a non-default quadrature", f"{type(ex).__name__}: {str(ex)[:150]}", dict(elemType=et, matrixType=str(mt), dof_n=1))
                        continue
                    lines.append(f"uv {N.shape[0]} {N.shape[1]} 1 | " + " ".join(fs(v) for v in wJ[e]) + " | " + " ".join(fs(v) for v in N.ravel()))
                    expect.append((real_uv, dict(elemType=et, form="u*v", element=e)))
                    real_gg = squeeze(BiLinearForm(lambda u, v: u.grad.dot(v.grad)).Integrate_e(fld1))[e]
                    lines.append(f"gg {N.shape[0]} {N.shape[1]} 1 {dim} | " + " ".join(fs(v) for v in wJ[e]) + " | " + " ".join(fs(v) for v in dN[e].ravel()))
                    expect.append((real_gg, dict(elemType=et, form="grad.grad", element=e)))
                    if dim >= 2 and et in ("TRI3", "QUAD4", "TETRA4"):
                        real_iso = squeeze(elast.Integrate_e(Field(g, dim, mt)))[e]
                        lines.append(f"iso {N.shape[0]} {N.shape[1]} {dim} {fs(lam)} {fs(mu)} | " + " ".join(fs(v) for v in wJ[e]) + " | " + " ".join(fs(v) for v in dN[e].ravel()))
                        expect.append((real_iso, dict(elemType=et, form="isotropic elasticity", element=e)))
            except Exception as ex:  # noqa: BLE001
                # none of these calls may raise on a form of the grammar: an exception is a form that cannot be integrated
                res.fail(f"form machinery raises matrixType={mt}", f"{type(ex).__name__}: {str(ex)[:200]}", dict(elemType=et, matrixType=str(mt)))

    # ---------------- WeakForms simulations vs dedicated simulations ----------------
    for et in (["TRI6", "QUAD4"] if not thorough else ["TRI3", "TRI6", "QUAD4", "QUAD8", "TETRA4", "HEXA8"]):
        dim = M.dim_of(et)
        mesh = M.mesh_of(et)
        left = mesh.Nodes_Conditions(lambda x, y, z: x == 0)
        right = mesh.Nodes_Conditions(lambda x, y, z: x == 2.0)
        thick = 0.5 if dim == 2 else 1.0
        for mode in ("thermal-static", "thermal-parabolic", "elastic-static", "elastic-hyperbolic", "elastic-hyperbolic, damping given by the mass form"):
            if mode.endswith("mass form") and dim == 3:
                continue   # the thickness only exists in 2D
            if et == "QUAD8" and not mode.endswith("static"):
                continue   # reduced 'rigi' rule: a single field cannot reproduce the two quadratures of the dedicated simulation
            ident = dict(elemType=et, mode=mode, thickness=thick)
            try:
                if mode.startswith("thermal"):
                    kc, cc, rho = 2.0, 3.0, 1.5
                    ref = Simulations.Thermal(mesh, Models.Thermal(kc, cc, thickness=thick))
                    ref.rho = rho
                    fK = Field(mesh.groupElem, 1, MatrixType.mass if mode.endswith("parabolic") else MatrixType.rigi)
                    wf = Models.WeakForms(fK, BiLinearForm(lambda u, v: kc * u.grad.dot(v.grad)), computeC=BiLinearForm(lambda u, v: rho * cc * u * v), thickness=thick)
                    sim = Simulations.WeakForms(mesh, wf)
                    for s_, unk in ((ref, "t"), (sim, "u")):
                        if mode.endswith("parabolic"):
                            s_.Solver_Set_Parabolic_Algorithm(0.25, 0.5)
                        s_.add_dirichlet(left, [0.0], [unk])
                        s_.add_dirichlet(right, [1.5], [unk])
                        s_.Solve()
                    a, b = np.asarray(ref.thermal), np.asarray(sim.u)
                else:
                    lam, mu, rho = 1.25, 0.75, 2.0
                    law = Models.Elastic.Isotropic(dim, E=mu * (3 * lam + 2 * mu) / (lam + mu), v=lam / (2 * (lam + mu)), planeStress=False, thickness=thick)
                    ref = Simulations.Elastic(mesh, law)
                    ref.rho = rho
                    eye = np.eye(dim)
                    fK = Field(mesh.groupElem, dim, MatrixType.mass if mode.endswith("hyperbolic") else MatrixType.rigi)
                    massForm = BiLinearForm(lambda u, v: rho * u.dot(v))
                    shared = mode.endswith("mass form")
                    fK = Field(mesh.groupElem, dim, MatrixType.mass if (mode.endswith("hyperbolic") or shared) else MatrixType.rigi)
                    wf = Models.WeakForms(fK, BiLinearForm(lambda u, v: (2 * mu * Sym_Grad(u) + lam * Trace(Sym_Grad(u)) * eye).ddot(Sym_Grad(v))),
                                          computeC=massForm if shared else None, computeM=massForm, thickness=thick)      # the SAME form object for two terms: C = M
                    if shared:
                        ref.Set_Rayleigh_Damping_Coefs(1.0, 0.0)     # C = M
                    sim = Simulations.WeakForms(mesh, wf)
                    unk = ["x", "y", "z"][:dim]
                    for s_ in (ref, sim):
                        if mode.endswith("hyperbolic") or shared:
                            s_.Solver_Set_Hyperbolic_Algorithm(0.125)
                        s_.add_dirichlet(left, [0.0] * dim, unk)
                        s_.add_dirichlet(right, [0.05], ["x"])
                        s_.Solve()
                    a, b = np.asarray(ref.displacement), np.asarray(sim.u)
            except Exception as ex:  # noqa: BLE001
                res.fail(f"weak-form simulation raises mode={mode}", f"{type(ex).__name__}: {str(ex)[:150]}", ident)
                continue
            res.case((et, mode))
            res.count("simulation:" + mode)
            tol = 1e-9   # static: the 'rigi' rule of the dedicated simulation; transient: one field = one quadrature, the 'mass' rule (exact for these stiffnesses)
            if a.shape != b.shape or np.abs(a - b).max() > tol * (1 + np.abs(a).max()):
                res.fail(f"weak-form simulation differs mode={mode}", f"solution differs from the dedicated simulation by {np.abs(a - b).max():.2e} on {et}", ident)

    answers = driver.ask(lines)
    if answers is None:
        res.disagree("driver", "model driver does not run: " + getattr(driver, "error", "")[:400])
    else:
        for (real, ident), ans in zip(expect, answers):
            res.traces += 1
            try:
                model = np.array([float(parse_frac(x)) for x in ans.split()]).reshape(real.shape)
            except Exception:  # noqa: BLE001
                res.disagree("element-form", dict(ident, model=ans[:80]))
                continue
            if np.abs(model - real).max() > 1e-10 * (1 + np.abs(real).max()):
                res.disagree("element-form", dict(ident, maxdiff=float(np.abs(model - real).max())))
    res.search_note = "user forms, built-in operators, the independent evaluation and the dedicated simulations agree on the sampled meshes"
    res.write("affinely distorted meshes of every element type, 'rigi' and 'mass' quadratures, scalar and vector fields: user forms vs UV / GradUGradV / GradU_A_GradV (non-symmetric A) / "
              "LinearizedElasticity / Linear.V; random sums of 1-3 terms of the grammar {u·v, ∇u:∇v, ∇u:∇vᵀ, div u div v, ε(u):ε(v), (b·∇u) v, ∇u·A∇v} with position-dependent coefficients vs an independent "
              "numpy evaluation; Assemble vs scatter-add; WeakForms simulations vs Thermal / Elastic (static, parabolic, hyperbolic); distinct = distinct (element type, quadrature, form)")


if __name__ == "__main__":
    from tools.harness._common import run

    run(main)
