"""C01 harness.
(a) correspondence: `Get_B_e_pg @ u_e` of the real code on sampled elements vs `Model/Patch.lean`
    (Jacobian, inverse by Cramer, layout read from the source) evaluated exactly on the same dN_pg,
    coordinates and nodal values;
(b) the hypothesis of the partial theorem, evaluated on every mesh solved on: flux closure
    Σ_e Σ_p wJ ∇N_i = 0 at the interior nodes;
(c) the property on the real code: patch tests through `simu.Solve()` and `simu.Result(...)` on
    unstructured, affinely distorted and renumbered meshes of every element type, every elastic law
    and plane assumption, heat conduction in 1D/2D/3D, beams (constant axial strain, constant curvature)."""

from __future__ import annotations

import warnings
from fractions import Fraction

import numpy as np

from tools.harness._common import Driver, Result, frac_str, parse_args, parse_frac, rng_for
from tools.harness import _meshes as M

from EasyFEA import Models, Simulations, Mesher, ElemType
from EasyFEA.FEM import Mesh
from EasyFEA.FEM._group_elem import GroupElemFactory
from EasyFEA.Geoms import Domain, Point, Line

E_ = Models.Elastic


def fs(x):
    return frac_str(Fraction(float(x)))


def q(rng, lo, hi, den=8):
    return rng.randint(int(lo * den), int(hi * den)) / den


def rand_affine(rng, dim):
    while True:
        A = np.eye(3)
        for i in range(dim):
            for j in range(dim):
                A[i, j] = (1.0 if i == j else 0.0) + rng.randint(-3, 3) / 8
        if not (abs(np.linalg.det(A)) <= 0.4):
            return A, np.array([rng.randint(-4, 4) / 4 if i < dim else 0.0 for i in range(3)])


def renumber(mesh, rng):
    """same mesh with the nodes renumbered by a random permutation"""
    Nn = mesh.Nn
    perm = np.array(rng.sample(range(Nn), Nn))       # old -> new
    coord = np.zeros_like(mesh.coord)
    coord[perm] = mesh.coord
    groups = {}
    for et, g in mesh.dict_groupElem.items():
        g2 = GroupElemFactory.Create(elemType=et, connect=perm[g.connect], coordinates=coord)
        for tag in g.nodeTags:
            g2.Set_Tag(perm[g.Get_Nodes_Tag(tag)], tag)
        groups[et] = g2
    return Mesh(dict_groupElem=groups)


def boundary_nodes(mesh):
    """nodes of the OUTER boundary: lower-dimensional elements that are a face of exactly one main element (a merged mesh also
    carries the former boundaries of its parts: their interface lies inside the domain and must stay free)"""
    node_elems = {}
    k = 0
    for g in mesh.Get_list_groupElem(mesh.dim):
        for row in np.asarray(g.connect):
            for n in row:
                node_elems.setdefault(int(n), set()).add(k)
            k += 1
    nodes = set()
    for g in mesh.Get_list_groupElem(mesh.dim - 1):
        for row in np.asarray(g.connect):
            owners = set.intersection(*(node_elems.get(int(n), set()) for n in row))
            if len(owners) == 1:
                nodes |= set(int(n) for n in row)
    return np.array(sorted(nodes))


def make_law(rng, kind, dim, ps):
    if kind == "iso":
        return E_.Isotropic(dim, E=q(rng, 1, 20), v=rng.choice([0.0, 0.125, 0.25, 0.3, 0.375]), planeStress=ps, thickness=1.0 if dim == 3 else rng.choice([1.0, 0.5]))
    th = rng.random() * 1.2
    a1 = (np.cos(th), np.sin(th), 0.0)
    a2 = (-np.sin(th), np.cos(th), 0.0)
    if kind == "ti":
        return E_.TransverselyIsotropic(dim, q(rng, 8, 20), q(rng, 2, 8), q(rng, 1, 6), rng.choice([0.0, 0.125, 0.25]), rng.choice([0.1, 0.25, 0.375]), axis_l=a1, axis_t=a2, planeStress=ps)
    if kind == "ortho":
        return E_.Orthotropic(dim, q(rng, 10, 20), q(rng, 5, 10), q(rng, 2, 5), q(rng, 1, 4), q(rng, 1, 4), q(rng, 1, 4),
                              rng.choice([0.1, 0.2, 0.25]), rng.choice([0.05, 0.1, 0.2]), rng.choice([0.1, 0.25, 0.3]), axis_1=a1, axis_2=a2, planeStress=ps)
    base = make_law(rng, "ortho", dim, ps).C
    n = base.shape[0]
    P = np.eye(n) + 0.05 * np.array([[rng.randint(-2, 2) for _ in range(n)] for _ in range(n)])
    return E_.Anisotropic(dim, P @ base @ P.T, False, a1, a2)


def flux_residual(mesh):
    """max over interior nodes of |Σ_e Σ_p wJ ∇N_i| relative to Σ_e Σ_p wJ |∇N_i|"""
    dim = mesh.dim
    tot = np.zeros((mesh.Nn, dim))
    ref = np.zeros(mesh.Nn)
    for g in mesh.Get_list_groupElem(dim):
        dN = np.asarray(g.Get_dN_e_pg("rigi"))          # (Ne, nPg, dim, nPe)
        wJ = np.asarray(g.Get_weightedJacobian_e_pg("rigi"))
        contrib = np.einsum("ep,epdn->end", wJ, dN)
        np.add.at(tot, g.connect, contrib)
        np.add.at(ref, g.connect, np.einsum("ep,epdn->en", wJ, np.abs(dN)))
    interior = np.setdiff1d(np.arange(mesh.Nn), boundary_nodes(mesh))
    interior = interior[ref[interior] > 0]
    if len(interior) == 0:
        return 0.0, 0
    return float((np.abs(tot[interior]).max(1) / ref[interior]).max()), len(interior)


POLYGONS = [[(0, 0), (3, 0), (3.5, 2), (1.5, 3), (-0.5, 1.5)], [(0, 0), (2, 0), (2, 1), (1, 1), (1, 2), (0, 2)]]


def main():
    args = parse_args()
    rng = rng_for(args)
    res = Result(args)
    driver = Driver("C01")
    warnings.filterwarnings("ignore")
    thorough = args.tier == "thorough"
    lines, expect = [], []
    s2 = float(1 / np.sqrt(2))
    flux_max, flux_meshes = 0.0, 0

    types = (M.ALL_2D + M.ALL_3D) if thorough else ["TRI3", "TRI6", "TRI10", "QUAD4", "QUAD8", "QUAD9", "TETRA4", "TETRA10", "HEXA8", "HEXA20", "PRISM6", "PRISM15"]
    laws = ["iso", "ti", "ortho", "aniso"]
    for k, et in enumerate(types):
        dim = M.dim_of(et)
        variants = ["affine+renumbered", "polygon"] if dim == 2 else ["affine+renumbered"]
        if et in ("HEXA8", "PRISM6", "QUAD4", "TRI3"):
            variants = variants + ["interior nodes moved"]     # 3D: straight edges, non-planar faces: genuinely trilinear geometry
        if et in ("TRI3", "QUAD8", "TETRA4", "HEXA8") or thorough:
            variants = variants + ["tiny"]        # the same mesh in other units (micrometres written in metres): Jacobian determinants of 1e-13
        if et == "QUAD4":
            variants = variants + ["large"]       # more than 46341 dofs: row * Ndof + column no longer fits in 32 bits
        if et in ("TRI3", "QUAD8", "TETRA4", "HEXA8", "PRISM6") or thorough:
            variants = variants + ["affine+mirrored"]     # every element with a negative Jacobian determinant (Mesh.Symmetry keeps the connectivity)
        if thorough:
            variants = variants + ["plain"]
        for variant in variants:
            gscale = 1.0
            if variant == "large":
                mesh = M.mesh_2d(et, 2.0, 1.0, 0.0088)
            elif dim == 2 and variant == "polygon":
                mesh = M.mesh_2d(et, polygon=POLYGONS[k % 2], h=1.2)
            elif dim == 2:
                mesh = M.mesh_2d(et, 2.0, 1.0, 0.7 if et in M.TRI else 0.5)
            else:
                mesh = M.mesh_3d(et, 2.0, 1.0, 1.5, 0.5, 3)
            A, t = np.eye(3), np.zeros(3)
            lawkinds = [laws[(k + j) % 4] for j in range(2 if not thorough else 4)]
            prebuilt = None
            if variant == "interior nodes moved":
                Xm = mesh.coord.copy()
                f = 1 + 0.2 * (Xm[:, 2] if dim == 3 else Xm[:, 1])   # frustum: the box tapered along z (edges stay straight); 2D: trapezium
                Xm[:, 0] *= f
                if dim == 3:
                    Xm[:, 1] *= f * (1 + 0.1 * Xm[:, 0])
                mesh.coord = Xm
                # the simulations exist and have assembled BEFORE the interior nodes are moved in place: the moved mesh is as valid
                # a mesh as any other, and the solve must be the one of the mesh as it is now
                prebuilt = []
                for lk in lawkinds:
                    ps_ = bool(rng.getrandbits(1))
                    law_ = make_law(rng, lk, dim, ps_)
                    sim_ = Simulations.Elastic(mesh, law_)
                    sim_.Get_K_C_M_F()
                    prebuilt.append((ps_, law_, sim_))
                Xm = mesh.coord.copy()
                inner = np.setdiff1d(np.arange(mesh.Nn), boundary_nodes(mesh))
                Xm[inner] += np.array([[rng.randint(-8, 8) / 100 if c_ < dim else 0.0 for c_ in range(3)] for _ in inner])
                mesh.coord = Xm
            if variant == "tiny":
                gscale = 2.0 ** (-21 if dim == 2 else -15)
                A = np.eye(3) * gscale
                M.affine(mesh, A, t)
            if variant.startswith("affine"):
                A, t = rand_affine(rng, dim)
                M.affine(mesh, A, t)
                mesh = renumber(mesh, rng)
            if variant == "affine+mirrored":
                mesh.Symmetry((0.25, -0.5, 0.0), (1.0, 2.0, 0.0) if dim == 2 else (1.0, 2.0, -2.0))
            fr, nint = flux_residual(mesh)
            flux_max, flux_meshes = max(flux_max, fr), flux_meshes + 1
            if not (fr <= 1e-9):
                res.disagree("flux-closure", dict(elemType=et, variant=variant, residual=fr, note="the hypothesis FluxClosed of patch_test_partial does not hold on this mesh"))
            X = mesh.coord
            bnodes = boundary_nodes(mesh)
            interior = np.setdiff1d(np.unique(np.concatenate([g.connect.ravel() for g in mesh.Get_list_groupElem(dim)])), bnodes)
            for jl, lk in enumerate(lawkinds):
                if prebuilt is not None:
                    ps, law, simu = prebuilt[jl]
                else:
                    ps = bool(rng.getrandbits(1))
                    law = make_law(rng, lk, dim, ps)
                    simu = Simulations.Elastic(mesh, law)
                G = np.zeros((3, 3))
                G[:dim, :dim] = [[rng.randint(-8, 8) / 64 for _ in range(dim)] for _ in range(dim)]
                G /= gscale                      # displacement differences of order one whatever the units
                a0 = np.array([rng.randint(-4, 4) / 8 if i < dim else 0.0 for i in range(3)])
                field = lambda P: a0 + P @ G.T  # noqa: E731
                order = list(bnodes)
                rng.shuffle(order)
                order = np.array(order)
                unk = ["x", "y", "z"][:dim]
                mode = rng.choice(["arrays", "callables", "mixed"])
                Ub = field(X[order])
                if mode == "arrays":
                    values = [Ub[:, c].copy() for c in range(dim)]
                elif mode == "callables":
                    values = [(lambda x, y, z, c=c: a0[c] + G[c, 0] * x + G[c, 1] * y + G[c, 2] * z) for c in range(dim)]
                else:
                    values = [Ub[:, 0].copy()] + [(lambda x, y, z, c=c: a0[c] + G[c, 0] * x + G[c, 1] * y + G[c, 2] * z) for c in range(1, dim)]
                ident = dict(elemType=et, mesh=variant, law=lk, planeStress=ps, G=G[:dim, :dim].tolist(), offset=a0[:dim].tolist(), A=A.tolist(), bc=mode, Nn=int(mesh.Nn))
                try:
                    simu.add_dirichlet(order, values, unk)
                    u = np.asarray(simu.Solve()).reshape(mesh.Nn, dim)
                except Exception as ex:  # noqa: BLE001
                    res.fail(f"patch solve raises elem={et} law={lk}", f"{type(ex).__name__}: {str(ex)[:150]}", ident)
                    continue
                res.case((et, variant, lk, ps), nontrivial=len(interior) > 0)
                res.count(f"elem:{et}")
                res.count(f"law:{lk}")
                res.count(f"interior-nodes:{min(len(interior), 20) // 5 * 5}+")
                want = field(X)[:, :dim]
                scale = 1 + np.abs(want).max()
                err = np.abs(u - want).max() / scale
                if not (err <= 1e-9):
                    res.fail(f"patch displacement elem={et}", f"linear field not reproduced: max error {err:.2e} (interior nodes: {len(interior)})", ident)
                    continue
                # strains, stresses, energy
                Gs = (G + G.T) / 2
                if dim == 2:
                    epsK = np.array([Gs[0, 0], Gs[1, 1], np.sqrt(2) * Gs[0, 1]])
                    names = {"Exx": Gs[0, 0], "Eyy": Gs[1, 1], "Exy": Gs[0, 1]}
                else:
                    epsK = np.array([Gs[0, 0], Gs[1, 1], Gs[2, 2], np.sqrt(2) * Gs[1, 2], np.sqrt(2) * Gs[0, 2], np.sqrt(2) * Gs[0, 1]])
                    names = {"Exx": Gs[0, 0], "Eyy": Gs[1, 1], "Ezz": Gs[2, 2], "Eyz": Gs[1, 2], "Exz": Gs[0, 2], "Exy": Gs[0, 1]}
                sigK = np.asarray(law.C) @ epsK
                if dim == 2:
                    names.update({"Sxx": sigK[0], "Syy": sigK[1], "Sxy": sigK[2] / np.sqrt(2)})
                else:
                    names.update({"Sxx": sigK[0], "Syy": sigK[1], "Szz": sigK[2], "Syz": sigK[3] / np.sqrt(2), "Sxz": sigK[4] / np.sqrt(2), "Sxy": sigK[5] / np.sqrt(2)})
                sc = 1 + max(abs(v) for v in names.values())
                bad = []
                for nm, val in names.items():
                    for nv in (False, True):
                        got = np.asarray(simu.Result(nm, nodeValues=nv), dtype=float)
                        if not (np.abs(got - val).max() <= 1e-8 * sc):
                            bad.append((nm, nv, float(np.abs(got - val).max())))
                if bad:
                    res.fail(f"patch results elem={et} name={bad[0][0]}", f"reported constant values wrong: {bad[:4]} (name, nodeValues, max error)", ident)
                # the whole tensors: the same constants, column by column (tensor components, no Kelvin-Mandel factor)
                comps = ["xx", "yy", "xy"] if dim == 2 else ["xx", "yy", "zz", "yz", "xz", "xy"]
                for tname, pre in (("Strain", "E"), ("Stress", "S")):
                    wantT = np.array([names[pre + c] for c in comps])
                    for nv in (False, True):
                        try:
                            gotT = np.asarray(simu.Result(tname, nodeValues=nv), dtype=float)
                        except Exception as ex:  # noqa: BLE001
                            res.fail(f"patch results elem={et} name={tname} raises", f"{type(ex).__name__}: {str(ex)[:150]}", ident)
                            break
                        rows = mesh.Nn if nv else mesh.Ne
                        if gotT.shape != (rows, len(comps)):
                            continue     # the layout ambiguity of Results_Reshape_values is a recorded finding of C16
                        if not (np.abs(gotT - wantT).max() <= 1e-8 * sc):
                            res.fail(f"patch results elem={et} name={tname}", f"Result('{tname}', nodeValues={nv}) is not the constant tensor {wantT.tolist()}: max error {np.abs(gotT - wantT).max():.2e}, "
                                     f"first row {gotT[0].tolist()}", ident)
                            break
                measure = mesh.area if dim == 2 else mesh.volume
                thick = law.thickness if dim == 2 else 1.0
                wantW = 0.5 * epsK @ sigK * measure * thick
                gotW = float(simu.Result("Wdef"))
                if not (abs(gotW - wantW) <= 1e-8 * (1 + abs(wantW))):
                    res.fail(f"patch energy elem={et}", f"Wdef = {gotW} but ½ ε:C:ε |Ω| t = {wantW}", ident)
            # correspondence lines
            g = mesh.Get_list_groupElem(dim)[0]
            dN_pg = np.asarray(g.Get_dN_pg("rigi"))
            B = np.asarray(g.Get_B_e_pg("rigi"))
            for e in ([0] if not thorough else [0, g.Ne - 1]):
                p = rng.randrange(dN_pg.shape[0])
                conn = g.connect[e]
                ue = np.array([[rng.randint(-8, 8) / 8 for _ in range(dim)] for _ in conn])
                real = B[e, p] @ ue.ravel()
                lines.append(f"strain {dim} {len(conn)} {fs(s2)} | " + " ".join(fs(v) for v in dN_pg[p].ravel()) + " | " + " ".join(fs(v) for v in X[conn][:, :dim].ravel()) + " | " + " ".join(fs(v) for v in ue.ravel()))
                expect.append((real, dict(elemType=et, variant=variant, element=int(e), gauss=int(p))))

    # ---------------- meshes mixing several element types ----------------
    mixed = [("TRI3+QUAD4", lambda: M.mesh_mixed_2d()), ("PRISM6+HEXA8", lambda: M.mesh_mixed_3d())]
    if thorough:
        mixed += [("TRI6+QUAD8", lambda: M.mesh_mixed_2d("TRI6", "QUAD8")), ("PRISM15+HEXA20", lambda: M.mesh_mixed_3d("PRISM15", "HEXA20"))]
    for name, mk in mixed:
        mesh = mk()
        dim = mesh.dim
        A, t = rand_affine(rng, dim)
        M.affine(mesh, A, t)
        fr, _ = flux_residual(mesh)
        flux_max, flux_meshes = max(flux_max, fr), flux_meshes + 1
        X = mesh.coord
        bn = boundary_nodes(mesh)
        interior = np.setdiff1d(np.arange(mesh.Nn), bn)
        law = make_law(rng, "iso" if dim == 3 else "ortho", dim, True)
        simu = Simulations.Elastic(mesh, law)
        G = np.zeros((3, 3))
        G[:dim, :dim] = [[rng.randint(-8, 8) / 64 for _ in range(dim)] for _ in range(dim)]
        a0 = np.array([rng.randint(-4, 4) / 8 if i < dim else 0.0 for i in range(3)])
        want = (a0 + X @ G.T)[:, :dim]
        ident = dict(mesh=name, G=G[:dim, :dim].tolist(), A=A.tolist(), Nn=int(mesh.Nn))
        try:
            simu.add_dirichlet(bn, [want[bn, c].copy() for c in range(dim)], ["x", "y", "z"][:dim])
            u = np.asarray(simu.Solve()).reshape(mesh.Nn, dim)
        except Exception as ex:  # noqa: BLE001
            res.fail(f"patch solve raises mesh={name}", f"{type(ex).__name__}: {str(ex)[:150]}", ident)
            continue
        res.case((name, "mixed"), nontrivial=len(interior) > 0)
        res.count("mixed-types")
        err = np.abs(u - want).max() / (1 + np.abs(want).max())
        if not (err <= 1e-9):
            res.fail(f"patch displacement mesh={name}", f"linear field not reproduced on a mesh mixing element types: max error {err:.2e} (interior nodes: {len(interior)})", ident)
            continue
        Gs = (G + G.T) / 2
        for nm, val in (("Exx", Gs[0, 0]), ("Eyy", Gs[1, 1]), ("Exy", Gs[0, 1])):
            got = np.asarray(simu.Result(nm, nodeValues=False), dtype=float)
            if not (np.abs(got - val).max() <= 1e-8 * (1 + abs(val))):
                res.fail(f"patch results mesh={name} name={nm}", f"{nm} is not the constant {val}: max error {np.abs(got - val).max():.2e}", ident)
                break

    # ---------------- heat conduction ----------------
    ttypes = (M.SEG + M.ALL_2D + M.ALL_3D) if thorough else ["SEG2", "SEG3", "SEG4", "TRI6", "QUAD8", "TETRA4", "HEXA8", "PRISM6"]
    for et in ttypes:
        dim = M.dim_of(et)
        mesh = M.mesh_of(et)
        if dim > 1:
            A, t = rand_affine(rng, dim)
            M.affine(mesh, A, t)
        X = mesh.coord
        simu = Simulations.Thermal(mesh, Models.Thermal(q(rng, 1, 5), 0.0, thickness=1.0))
        gT = np.array([rng.randint(-8, 8) / 8 if i < dim else 0.0 for i in range(3)])
        T0 = rng.randint(-4, 4) / 2
        if dim == 1:
            bn = np.array([int(np.argmin(X[:, 0])), int(np.argmax(X[:, 0]))])
        else:
            bn = boundary_nodes(mesh)
        simu.add_dirichlet(bn, [T0 + X[bn] @ gT], ["t"])
        ident = dict(elemType=et, sim="thermal", gradient=gT[:dim].tolist(), T0=T0)
        try:
            T = np.asarray(simu.Solve()).ravel()
        except Exception as ex:  # noqa: BLE001
            res.fail(f"thermal patch raises elem={et}", f"{type(ex).__name__}: {str(ex)[:150]}", ident)
            continue
        res.case((et, "thermal"))
        res.count("thermal")
        want = T0 + X @ gT
        used = np.unique(np.concatenate([g.connect.ravel() for g in mesh.Get_list_groupElem(dim)]))
        if not (np.abs(T[used] - want[used]).max() <= 1e-9 * (1 + np.abs(want).max())):
            res.fail(f"thermal patch elem={et}", f"linear temperature not reproduced: max error {np.abs(T[used] - want[used]).max():.2e}", ident)

    # ---------------- beams ----------------
    for et in (["SEG2", "SEG3"] if not thorough else ["SEG2", "SEG3", "SEG4"]):
        for timo in (False, True):
            L = 4.0
            sect = Mesher().Mesh_2D(Domain(Point(), Point(0.5, 0.25)))
            th = q(rng, 0.0, 1.2, 16)
            d = np.array([np.cos(th), np.sin(th), 0.0])
            nrm = np.array([-np.sin(th), np.cos(th), 0.0])
            pA, pC = Point(0.25, -0.5), Point(0.25 + L * d[0], -0.5 + L * d[1])
            beams = [Models.Beam.Isotropic(2, Line(pA, pC, L / 3), sect, 1000.0, 0.25)]
            mesh = Mesher().Mesh_Beams(beams, elemType=ElemType(et))
            X = mesh.coord
            sloc = (X - np.array([0.25, -0.5, 0.0])) @ d
            for mode in ("axial", "curvature"):
                s = Simulations.Beam(mesh, Models.Beam.BeamStructure(beams), useTimoshenko=timo)
                ends = np.array([int(np.argmin(sloc)), int(np.argmax(sloc))])
                e0, kap = rng.randint(1, 8) / 256, rng.randint(1, 8) / 64
                if mode == "axial":
                    uloc, vloc, rz = e0 * sloc, 0 * sloc, 0 * sloc
                else:
                    uloc, vloc, rz = 0 * sloc, kap * sloc**2 / 2, kap * sloc
                want = np.stack([uloc * d[0] + vloc * nrm[0], uloc * d[1] + vloc * nrm[1], rz], axis=1)
                s.add_dirichlet(ends, [want[ends, 0], want[ends, 1], want[ends, 2]], ["x", "y", "rz"])
                ident = dict(beam=et, timoshenko=timo, mode=mode, angle=th)
                try:
                    u = np.asarray(s.Solve()).reshape(-1, 3)
                except Exception as ex:  # noqa: BLE001
                    res.fail(f"beam patch raises {mode}", f"{type(ex).__name__}: {str(ex)[:150]}", ident)
                    continue
                res.case(("beam", et, timo, mode))
                res.count("beam")
                err = np.abs(u - want).max() / (1 + np.abs(want).max())
                if not (err <= 1e-9):
                    res.fail(f"beam patch {mode} timo={timo} elem={et}", f"constant {'axial strain' if mode == 'axial' else 'curvature'} field not reproduced at the nodes: max error {err:.2e}", ident)
                    continue
                # the same member stretched in place (mesh.coord = ...) on the simulation that has already solved: the stretched
                # member is as valid a mesh as any, the same kind of field must be reproduced on it
                fac = rng.choice([1.6, 0.625])
                smesh = s.mesh                     # the simulation works on its own beam mesh (converted from the one it was given)
                X0s = smesh.coord.copy()
                try:
                    smesh.coord = np.array([0.25, -0.5, 0.0]) + (X0s - np.array([0.25, -0.5, 0.0])) * fac
                    s2loc = sloc * fac
                    if mode == "axial":
                        uloc2, vloc2, rz2 = e0 * s2loc, 0 * s2loc, 0 * s2loc
                    else:
                        uloc2, vloc2, rz2 = 0 * s2loc, kap * s2loc**2 / 2, kap * s2loc
                    want2 = np.stack([uloc2 * d[0] + vloc2 * nrm[0], uloc2 * d[1] + vloc2 * nrm[1], rz2], axis=1)
                    s.Bc_Init()
                    s.add_dirichlet(ends, [want2[ends, 0], want2[ends, 1], want2[ends, 2]], ["x", "y", "rz"])
                    u2 = np.asarray(s.Solve()).reshape(-1, 3)
                    res.case(("beam", et, timo, mode, "stretched in place"))
                    err2 = np.abs(u2 - want2).max() / (1 + np.abs(want2).max())
                    if not (err2 <= 1e-9):
                        res.fail(f"beam patch {mode} timo={timo} elem={et} after the member was stretched in place", f"after mesh.coord was scaled by {fac} on the simulation that had already solved, the constant "
                                 f"{'axial strain' if mode == 'axial' else 'curvature'} field is not reproduced: max error {err2:.2e}", dict(ident, stretch=fac))
                except Exception as ex:  # noqa: BLE001
                    res.fail(f"beam patch raises after stretching {mode}", f"{type(ex).__name__}: {str(ex)[:150]}", ident)
                finally:
                    smesh.coord = X0s

    # ---------------- beams in 3D: axial strain, twist rate, curvature about each section axis ----------------
    for et in (["SEG2", "SEG3"] if not thorough else ["SEG2", "SEG3", "SEG4", "SEG5"]):
        for timo in (False, True):
            L = 4.0
            sect = Mesher().Mesh_2D(Domain(Point(), Point(0.5, 0.25)))
            d3 = np.array([rng.randint(1, 4), rng.randint(-3, 3), rng.randint(-3, 3)], dtype=float)
            d3 /= np.linalg.norm(d3)
            a3 = np.array([0.3, 1.0, -0.2])
            y3 = a3 - (a3 @ d3) * d3
            y3 /= np.linalg.norm(y3)
            z3 = np.cross(d3, y3)
            Q3 = np.stack([d3, y3, z3], axis=1)          # columns: the member's own axes
            p0 = np.array([0.25, -0.5, 0.75])
            beams3 = [Models.Beam.Isotropic(3, Line(Point(*p0), Point(*(p0 + L * d3)), L / 3), sect, 1000.0, 0.25, tuple(y3))]
            mesh3 = Mesher().Mesh_Beams(beams3, elemType=ElemType(et))
            s3loc = (mesh3.coord - p0) @ d3
            ends3 = np.array([int(np.argmin(s3loc)), int(np.argmax(s3loc))])
            for mode in ("axial", "twist", "curvature about z", "curvature about y"):
                c_ = rng.randint(1, 8) / 64
                ul, rl = np.zeros((len(s3loc), 3)), np.zeros((len(s3loc), 3))
                if mode == "axial":
                    ul[:, 0] = c_ * s3loc / 4
                elif mode == "twist":
                    rl[:, 0] = c_ * s3loc
                elif mode == "curvature about z":
                    ul[:, 1], rl[:, 2] = c_ * s3loc**2 / 2, c_ * s3loc        # rz = v'
                else:
                    ul[:, 2], rl[:, 1] = c_ * s3loc**2 / 2, -c_ * s3loc       # ry = -w'
                want3 = np.c_[ul @ Q3.T, rl @ Q3.T]
                ident = dict(beam=et, timoshenko=timo, dim=3, mode=mode, direction=d3.tolist(), yAxis=y3.tolist())
                try:
                    sb3 = Simulations.Beam(mesh3, Models.Beam.BeamStructure(beams3), useTimoshenko=timo)
                    sb3.add_dirichlet(ends3, [want3[ends3, k] for k in range(6)], ["x", "y", "z", "rx", "ry", "rz"])
                    u3 = np.asarray(sb3.Solve()).reshape(-1, 6)
                except Exception as ex:  # noqa: BLE001
                    res.fail(f"3D beam patch raises {mode}", f"{type(ex).__name__}: {str(ex)[:150]}", ident)
                    continue
                res.case(("beam3d", et, timo, mode))
                res.count("beam3d")
                err3 = np.abs(u3 - want3).max() / (1 + np.abs(want3).max())
                if not (err3 <= 1e-9):
                    res.fail(f"3D beam patch {mode} timo={timo} elem={et}", f"constant {mode} field prescribed at the two ends is not reproduced at the interior nodes: max error {err3:.2e}", ident)

    # ---------------- heat conduction on meshes mixing element types, thickness != 1 ----------------
    for mname, mk_ in (("TRI3+QUAD4", lambda: M.mesh_mixed_2d()), ("TRI6+QUAD8", lambda: M.mesh_mixed_2d("TRI6", "QUAD8"))):
        meshm = mk_()
        Am, tm = rand_affine(rng, 2)
        M.affine(meshm, Am, tm)
        Xm = meshm.coord
        thm = rng.choice([0.375, 2.5])
        sm = Simulations.Thermal(meshm, Models.Thermal(q(rng, 1, 5), 0.0, thickness=thm))
        gm = np.array([rng.randint(-8, 8) / 8, rng.randint(1, 8) / 8, 0.0])
        bnm = boundary_nodes(meshm)
        sm.add_dirichlet(bnm, [0.5 + Xm[bnm] @ gm], ["t"])
        identm = dict(mesh=mname, sim="thermal", thickness=thm, gradient=gm[:2].tolist())
        res.case((mname, "thermal mixed"))
        res.count("thermal-mixed")
        try:
            Tm = np.asarray(sm.Solve()).ravel()
            usedm = np.unique(np.concatenate([g.connect.ravel() for g in meshm.Get_list_groupElem(2)]))
            errm = np.abs(Tm[usedm] - (0.5 + Xm @ gm)[usedm]).max()
            if not (errm <= 1e-9 * (1 + np.abs(Xm @ gm).max())):
                res.fail(f"thermal patch mixed mesh {mname}", f"linear temperature not reproduced on a mesh mixing element types with thickness {thm}: max error {errm:.2e}", identm)
        except Exception as ex:  # noqa: BLE001
            res.fail(f"thermal patch raises mixed mesh {mname}", f"{type(ex).__name__}: {str(ex)[:150]}", identm)

    # ---------------- the components of the boundary field named in any order / prescribed in several calls ----------------
    # add_dirichlet(nodes, values, unknowns): values[k] is the component named unknowns[k] (the docstring's own example lists
    # ['y', 'x']); the field prescribed is the same linear field however its components are listed, so the solve must return it
    for et in (["TRI3", "QUAD8", "TETRA4", "HEXA8"] if not thorough else ["TRI3", "TRI6", "QUAD4", "QUAD8", "TETRA4", "TETRA10", "HEXA8", "PRISM6"]):
        dim = M.dim_of(et)
        mesh = M.mesh_2d(et, 2.0, 1.0, 0.7 if et in M.TRI else 0.5) if dim == 2 else M.mesh_3d(et, 2.0, 1.0, 1.5, 0.5, 3)
        A, t = rand_affine(rng, dim)
        M.affine(mesh, A, t)
        X = mesh.coord
        bnodes = boundary_nodes(mesh)
        interior = np.setdiff1d(np.unique(np.concatenate([g.connect.ravel() for g in mesh.Get_list_groupElem(dim)])), bnodes)
        allnames = ["x", "y", "z"][:dim]
        if dim == 2:
            listings = [[[1, 0]], [[1], [0]]]
        else:
            perms3 = [[0, 2, 1], [1, 0, 2], [1, 2, 0], [2, 0, 1], [2, 1, 0]]
            rng.shuffle(perms3)
            listings = [[p] for p in (perms3 if thorough else perms3[:3])] + [[[2, 0], [1]], [[2], [1, 0]]]
        for listing in listings:
            ps = bool(rng.getrandbits(1))
            lk = rng.choice(laws)
            law = make_law(rng, lk, dim, ps)
            G = np.zeros((3, 3))
            G[:dim, :dim] = [[rng.randint(-8, 8) / 64 for _ in range(dim)] for _ in range(dim)]
            a0 = np.array([rng.randint(-4, 4) / 8 if i < dim else 0.0 for i in range(3)])
            want = (a0 + X @ G.T)[:, :dim]
            calls = [[allnames[c] for c in part] for part in listing]
            ident = dict(elemType=et, mesh="affine", law=lk, planeStress=ps, G=G[:dim, :dim].tolist(), offset=a0[:dim].tolist(), A=A.tolist(), t=t.tolist(),
                         add_dirichlet_calls=calls, Nn=int(mesh.Nn))
            try:
                simu = Simulations.Elastic(mesh, law)
                for part in listing:
                    simu.add_dirichlet(bnodes, [want[bnodes, c].copy() for c in part], [allnames[c] for c in part])
                u = np.asarray(simu.Solve()).reshape(mesh.Nn, dim)
            except Exception as ex:  # noqa: BLE001
                res.fail(f"patch solve raises elem={et} components listed in another order", f"{type(ex).__name__}: {str(ex)[:150]}", ident)
                continue
            res.case((et, "listing", str(calls), lk, ps), nontrivial=len(interior) > 0)
            res.count("components-in-another-order")
            err = np.abs(u - want).max() / (1 + np.abs(want).max())
            if not (err <= 1e-9):
                res.fail(f"patch displacement elem={et} components listed in another order",
                         f"the linear field prescribed with add_dirichlet calls listing the components as {calls} is not reproduced: max error {err:.2e} (interior nodes: {len(interior)})", ident)
                continue
            Gs = (G + G.T) / 2
            if dim == 2:
                epsK = np.array([Gs[0, 0], Gs[1, 1], np.sqrt(2) * Gs[0, 1]])
                names = {"Exx": Gs[0, 0], "Eyy": Gs[1, 1], "Exy": Gs[0, 1]}
            else:
                epsK = np.array([Gs[0, 0], Gs[1, 1], Gs[2, 2], np.sqrt(2) * Gs[1, 2], np.sqrt(2) * Gs[0, 2], np.sqrt(2) * Gs[0, 1]])
                names = {"Exx": Gs[0, 0], "Eyy": Gs[1, 1], "Ezz": Gs[2, 2], "Eyz": Gs[1, 2], "Exz": Gs[0, 2], "Exy": Gs[0, 1]}
            try:
                bad = []
                for nm, val in names.items():
                    got = np.asarray(simu.Result(nm, nodeValues=False), dtype=float)
                    if not (np.abs(got - val).max() <= 1e-8 * (1 + np.abs(epsK).max())):
                        bad.append((nm, float(np.abs(got - val).max())))
                if bad:
                    res.fail(f"patch results elem={et} components listed in another order", f"reported constant strains wrong: {bad[:4]} (name, max error)", ident)
                wantW = 0.5 * epsK @ np.asarray(law.C) @ epsK * (mesh.area * law.thickness if dim == 2 else mesh.volume)
                gotW = float(simu.Result("Wdef"))
                if not (abs(gotW - wantW) <= 1e-8 * (1 + abs(wantW))):
                    res.fail(f"patch energy elem={et} components listed in another order", f"Wdef = {gotW} but ½ ε:C:ε |Ω| t = {wantW}", ident)
            except Exception as ex:  # noqa: BLE001
                res.fail(f"patch results raise elem={et} components listed in another order", f"{type(ex).__name__}: {str(ex)[:150]}", ident)

    # beams: the six (3D) / three (2D) components at the two ends named in a shuffled order
    for bdim in (2, 3):
        for timo in (False, True):
            L = 3.0
            sect = Mesher().Mesh_2D(Domain(Point(), Point(0.5, 0.25)))
            d3 = np.array([rng.randint(1, 4), rng.randint(-3, 3), rng.randint(-3, 3) if bdim == 3 else 0], dtype=float)
            d3 /= np.linalg.norm(d3)
            a3 = np.array([0.3, 1.0, -0.2]) if bdim == 3 else np.array([-d3[1], d3[0], 0.0])
            y3 = a3 - (a3 @ d3) * d3
            y3 /= np.linalg.norm(y3)
            z3 = np.cross(d3, y3)
            Q3 = np.stack([d3, y3, z3], axis=1)
            p0 = np.array([0.25, -0.5, 0.75 if bdim == 3 else 0.0])
            if bdim == 3:
                beamsP = [Models.Beam.Isotropic(3, Line(Point(*p0), Point(*(p0 + L * d3)), L / 3), sect, 1000.0, 0.25, tuple(y3))]
                bnames = ["x", "y", "z", "rx", "ry", "rz"]
            else:
                beamsP = [Models.Beam.Isotropic(2, Line(Point(*p0), Point(*(p0 + L * d3)), L / 3), sect, 1000.0, 0.25)]
                bnames = ["x", "y", "rz"]
            meshP = Mesher().Mesh_Beams(beamsP, elemType=ElemType("SEG3" if timo else "SEG2"))
            sl = (meshP.coord - p0) @ d3
            endsP = np.array([int(np.argmin(sl)), int(np.argmax(sl))])
            e0, kap = rng.randint(1, 8) / 256, rng.randint(1, 8) / 64
            ul, rl = np.zeros((len(sl), 3)), np.zeros((len(sl), 3))
            ul[:, 0] = e0 * sl                                   # axial strain and curvature about the member's z axis together
            ul[:, 1], rl[:, 2] = kap * sl**2 / 2, kap * sl
            full = np.c_[ul @ Q3.T, rl @ Q3.T]
            cols = [0, 1, 2, 3, 4, 5] if bdim == 3 else [0, 1, 5]
            wantP = full[:, cols]
            while True:
                perm = list(range(len(bnames)))
                rng.shuffle(perm)
                if perm != sorted(perm):
                    break
            identP = dict(beam=str(meshP.elemType), timoshenko=timo, dim=bdim, direction=d3.tolist(), yAxis=y3.tolist(), axialStrain=e0, curvature=kap, unknowns=[bnames[k] for k in perm])
            try:
                sP = Simulations.Beam(meshP, Models.Beam.BeamStructure(beamsP), useTimoshenko=timo)
                sP.add_dirichlet(endsP, [wantP[endsP, k] for k in perm], [bnames[k] for k in perm])
                uP = np.asarray(sP.Solve()).reshape(-1, len(bnames))
            except Exception as ex:  # noqa: BLE001
                res.fail(f"beam patch raises dim={bdim} components listed in another order", f"{type(ex).__name__}: {str(ex)[:150]}", identP)
                continue
            res.case(("beam", bdim, timo, "listing", tuple(perm)))
            res.count("components-in-another-order")
            errP = np.abs(uP - wantP).max() / (1 + np.abs(wantP).max())
            if not (errP <= 1e-9):
                res.fail(f"beam patch dim={bdim} timo={timo} components listed in another order",
                         f"constant axial strain + curvature prescribed at the two ends with the components named as {identP['unknowns']} is not reproduced: max error {errP:.2e}", identP)

    answers = driver.ask(lines)
    if answers is None:
        res.disagree("driver", "model driver does not run: " + getattr(driver, "error", "")[:400])
    else:
        for (real, ident), ans in zip(expect, answers):
            res.traces += 1
            try:
                model = np.array([float(parse_frac(x)) for x in ans.split()])
            except Exception:  # noqa: BLE001
                res.disagree("strain", dict(ident, model=ans[:80]))
                continue
            if model.shape != real.shape or not (np.abs(model - real).max() <= 1e-10 * (1 + np.abs(real).max())):
                res.disagree("strain", dict(ident, model=model.tolist(), real=real.tolist()))
    res.notes.append(f"flux closure (hypothesis of patch_test_partial) evaluated on {flux_meshes} meshes: max relative residual {flux_max:.2e}")
    res.search_note = "patch tests pass on every sampled mesh, law and field"
    res.write("patch tests on unstructured polygon meshes, affinely distorted + renumbered meshes and structured meshes of every 2D / 3D element type, four elastic laws with random axes, "
              "plane stress / plane strain, boundary data as shuffled arrays / callables / mixed; heat conduction on segments, 2D, 3D; Euler-Bernoulli and Timoshenko beams at a random inclination "
              "(constant axial strain, constant curvature); distinct = distinct (element type, mesh variant, law, plane assumption)")


if __name__ == "__main__":
    from tools.harness._common import run

    run(main)
