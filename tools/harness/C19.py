"""C19 harness.
(a) correspondence: `Behavior.Integrate` for von Mises + linear isotropic hardening (Newton and spectral local solves) along
    random strain paths vs the scalar return mapping of Props/C19 (fed with the real trial equivalent stress and committed
    plastic strain); the committed / trial bookkeeping of Simulations.InElastic vs the state-machine model;
(b) the property on the real code, for combinations of yield surface (von Mises, Hill, Drucker-Prager), isotropic hardening
    (linear, Voce, Swift, none), kinematic hardening (Prager, Armstrong-Frederick, Chaboche), rate laws (Norton, Perzyna),
    Maxwell branches, in 3D / plane strain / plane stress, along loading / unloading / reversal / non-proportional paths:
    f <= 0 (rate independent), plastic multiplier >= 0, p monotone, traceless plastic strain for J2 flow, non-negative
    step dissipation, tangent = finite difference of the stress, both local solvers agree, sigma_zz = 0 in plane stress,
    no internal variable = linear elasticity, Integrate never writes the committed state."""

from __future__ import annotations

import warnings
from fractions import Fraction

import numpy as np

from tools.harness._common import Driver, Result, frac_str, parse_args, parse_frac, rng_for
from tools.harness import _meshes as M

from EasyFEA import Models, Simulations
from EasyFEA.FEM import FeArray
from EasyFEA.Models.InElastic import Behavior, Yield, IsotropicHardening, KinematicHardening, ViscoPlastic
from EasyFEA.Models.InElastic.ViscoElastic import Maxwell

S2 = np.sqrt(2)
IDX_2D = [0, 1, 5]


def fs(x):
    return frac_str(Fraction(float(x)))


def fe(v):
    return FeArray.asfearray(np.asarray(v, float)[None, None])


def dev6(s):
    m = np.array([1, 1, 1, 0, 0, 0.0])
    return s - m * (s[:3].sum() / 3)


def svm(s):
    return np.sqrt(1.5) * np.linalg.norm(dev6(s))


def rand_path(rng, dim, nsteps, amp):
    """piecewise-linear strain path with reversals and changes of direction (Kelvin vector of the model dimension)"""
    n = 6 if dim == 3 else 3
    pts = [np.zeros(n)]
    for _ in range(4):
        d = np.array([rng.gauss(0, 1) for _ in range(n)])
        pts.append(amp * d / np.linalg.norm(d) * rng.choice([0.5, 1.0, 1.5]))
    pts.append(-pts[1])
    pts.append(np.zeros(n))
    path = []
    for a, b in zip(pts[:-1], pts[1:]):
        for k in range(1, nsteps + 1):
            path.append(a + (b - a) * k / nsteps)
    return path


def make_behaviors(rng, thorough):
    E, v = 200.0, 0.3
    el = lambda: Models.Elastic.Isotropic(3, E=E, v=v)  # noqa: E731
    sy = 0.4
    combos = []
    for dim, ps in ((3, False), (2, False), (2, True)):
        tag = "3D" if dim == 3 else ("plane stress" if ps else "plane strain")
        combos.append((f"VM+linear {tag}", lambda dim=dim, ps=ps, **kw: Behavior(dim, el(), yieldSurface=Yield.VonMises(sy), hardening=IsotropicHardening.Linear(20.0), planeStress=ps, **kw), dict(j2=True, rate=False, dim=dim, ps=ps, lin=True)))
        combos.append((f"VM perfect {tag}", lambda dim=dim, ps=ps, **kw: Behavior(dim, el(), yieldSurface=Yield.VonMises(sy), planeStress=ps, **kw), dict(j2=True, rate=False, dim=dim, ps=ps)))
        combos.append((f"VM+Voce+AF {tag}", lambda dim=dim, ps=ps, **kw: Behavior(dim, el(), yieldSurface=Yield.VonMises(sy), hardening=IsotropicHardening.Voce(0.3, 30.0), kinematic=KinematicHardening.ArmstrongFrederick(40.0, 5.0), planeStress=ps, **kw), dict(j2=True, rate=False, dim=dim, ps=ps)))
    combos.append(("Hill+Swift 3D", lambda **kw: Behavior(3, el(), yieldSurface=Yield.Hill(sy, 0.4, 0.5, 0.6, 1.4, 1.5, 1.6), hardening=IsotropicHardening.Swift(0.8, 0.3), **kw), dict(j2=False, rate=False, dim=3, ps=False)))
    combos.append(("DruckerPrager+linear 3D", lambda **kw: Behavior(3, el(), yieldSurface=Yield.DruckerPrager(sy, 0.1), hardening=IsotropicHardening.Linear(10.0), **kw), dict(j2=False, rate=False, dim=3, ps=False)))
    combos.append(("VM+Chaboche 3D", lambda **kw: Behavior(3, el(), yieldSurface=Yield.VonMises(sy), kinematic=KinematicHardening.Chaboche((40.0, 5.0), (10.0, 0.0)), **kw), dict(j2=True, rate=False, dim=3, ps=False)))
    combos.append(("VM+Prager 3D", lambda **kw: Behavior(3, el(), yieldSurface=Yield.VonMises(sy), kinematic=KinematicHardening.Prager(30.0), **kw), dict(j2=True, rate=False, dim=3, ps=False)))
    combos.append(("VM+linear+Norton 3D", lambda **kw: Behavior(3, el(), yieldSurface=Yield.VonMises(sy), hardening=IsotropicHardening.Linear(20.0), rate=ViscoPlastic.Norton(2.0, 3.0, 1.0), **kw), dict(j2=True, rate=True, dim=3, ps=False)))
    combos.append(("VM+Perzyna plane strain", lambda **kw: Behavior(2, el(), yieldSurface=Yield.VonMises(sy), rate=ViscoPlastic.Perzyna(0.5, 2.0, 1.0), **kw), dict(j2=True, rate=True, dim=2, ps=False)))
    combos.append(("VM+linear+Maxwell 3D", lambda **kw: Behavior(3, el(), yieldSurface=Yield.VonMises(sy), hardening=IsotropicHardening.Linear(20.0), branches=(Maxwell(0.2, 0.5), Maxwell(0.1, 2.0)), **kw), dict(j2=True, rate=True, dim=3, ps=False, visco=True)))
    # kinematic hardening AND viscous branches: the branches move the stress the back-stress evolution reads
    combos.append(("VM+linear+AF+Maxwell 3D", lambda **kw: Behavior(3, el(), yieldSurface=Yield.VonMises(sy), hardening=IsotropicHardening.Linear(20.0), kinematic=KinematicHardening.ArmstrongFrederick(40.0, 5.0),
                                                                    branches=(Maxwell(0.3, 2.0),), **kw), dict(j2=True, rate=True, dim=3, ps=False, visco=True)))
    combos.append(("VM+Prager+Maxwell 3D", lambda **kw: Behavior(3, el(), yieldSurface=Yield.VonMises(sy), kinematic=KinematicHardening.Prager(30.0), branches=(Maxwell(0.2, 0.5), Maxwell(0.1, 2.0)), **kw),
                   dict(j2=True, rate=True, dim=3, ps=False, visco=True)))
    combos.append(("Maxwell only 3D", lambda **kw: Behavior(3, el(), branches=(Maxwell(0.3, 1.0),), **kw), dict(j2=False, rate=True, dim=3, ps=False, visco=True, noyield=True)))
    return combos, E, v, sy


def main():
    args = parse_args()
    rng = rng_for(args)
    res = Result(args)
    driver = Driver("C19")
    warnings.filterwarnings("ignore")
    thorough = args.tier == "thorough"
    lines, expect = [], []
    combos, E, v, sy = make_behaviors(rng, thorough)
    mu = E / (2 * (1 + v))

    for name, mk, info in combos:
        dim = info["dim"]
        dt = 0.1 if info.get("rate") else 0.0
        try:
            beh = mk()
        except Exception as ex:  # noqa: BLE001
            res.notes.append(f"{name}: constructor rejected ({type(ex).__name__}: {str(ex)[:80]})")
            continue
        res.count(f"behavior:{name}")
        lay = beh.layout
        slot_p = lay.slots.get("p")
        slot_ep = lay.slots.get("eps_p")
        for rep in range(1 if not thorough else 3):
            path = rand_path(rng, dim, 4 if not thorough else 8, 0.006)
            z = beh.State_zeros(1, 1)
            eps_prev = np.zeros(len(path[0]))
            psi_prev = float(np.asarray(beh.Compute_psi(fe(np.zeros(6)), z))[0, 0])
            ident0 = dict(behavior=name, path_seed=rep)
            batch = []   # (strain, committed state, previous strain, stress, new state) of every step walked point by point
            for k, eps in enumerate(path):
                ident = dict(ident0, step=k, strain=eps.tolist())
                zold = np.asarray(z).copy()
                try:
                    sig, Calg, znew, ok = beh.Integrate(fe(eps), z, dt, fe(eps_prev))
                except Exception as ex:  # noqa: BLE001
                    res.fail(f"Integrate raises behavior={name}", f"{type(ex).__name__}: {str(ex)[:150]}", ident)
                    break
                res.case((name, rep, k))
                if not np.array_equal(np.asarray(z), zold):
                    res.fail("Integrate modifies the committed state", f"the array of committed internal variables changed during Integrate ({name})", ident)
                    break
                if not bool(np.asarray(ok).all()):
                    res.notes.append(f"{name}: local solve did not converge at step {k}; path cut")
                    break
                sig = np.asarray(sig)[0, 0]
                zn = np.asarray(znew)[0, 0]
                zo = zold[0, 0]
                if not (np.all(np.isfinite(sig)) and np.all(np.isfinite(zn))):
                    res.fail(f"non-finite stress or state behavior={name}", "Integrate returned NaN / inf", ident)
                    break
                # repeatability (purity): same call, same answer
                sig2 = np.asarray(beh.Integrate(fe(eps), z, dt, fe(eps_prev))[0])[0, 0]
                if not (np.abs(sig2 - sig).max() <= 1e-12 * (1 + np.abs(sig).max())):
                    res.fail("Integrate is not repeatable", f"two identical calls return stresses differing by {np.abs(sig2 - sig).max():.2e} ({name})", ident)
                eps6 = np.asarray(beh.Compute_strain_6d(fe(eps), z, dt))[0, 0]
                sig6 = np.asarray(beh.Compute_sigma(fe(eps6), znew))[0, 0]
                if info.get("noyield"):
                    pass
                if slot_p is not None:
                    dp = zn[slot_p][0] - zo[slot_p][0]
                    if not (dp >= -1e-12):
                        res.fail(f"accumulated plastic strain decreases behavior={name}", f"p decreases by {-dp:.2e} in one step", ident)
                    if info.get("j2") and not (abs(zn[slot_ep][:3].sum()) <= 1e-10):
                        res.fail(f"plastic strain not traceless behavior={name}", f"trace of the plastic strain = {zn[slot_ep][:3].sum():.2e} for J2 flow", ident)
                    if not info.get("rate"):
                        # yield function at the updated state, through the model's own surface and hardening force
                        try:
                            X = beh.Compute_back_stress(znew)
                            Xv = np.asarray(X)[0, 0] if not np.isscalar(X) else 0.0
                            R = float(np.asarray(beh._Behavior__hardening.R(np.asarray(zn[slot_p])))[0])
                            f = float(np.asarray(beh._Behavior__yield.f(fe(sig6 - Xv), fe([R])[..., 0]))[0, 0])
                            if not (f <= 1e-7 * sy):
                                res.fail(f"stress outside the yield surface behavior={name}", f"f = {f:.3e} > 0 after integration", ident)
                        except Exception as ex:  # noqa: BLE001
                            res.fail(f"yield function raises behavior={name}", f"{type(ex).__name__}: {str(ex)[:150]}", ident)
                # step dissipation: sigma : d eps - d psi >= 0 (backward Euler, convex free energy)
                psi = float(np.asarray(beh.Compute_psi(fe(eps6), znew))[0, 0])
                eps6_prev = np.asarray(beh.Compute_strain_6d(fe(eps_prev), z, dt))[0, 0] if dim == 2 and info["ps"] else (eps_prev if dim == 3 else np.array([eps_prev[0], eps_prev[1], 0, 0, 0, eps_prev[2]]))
                D = float(sig6 @ (eps6 - eps6_prev)) - (psi - psi_prev)
                if not (D >= -1e-9 * (1 + abs(psi))):
                    res.fail(f"negative dissipation behavior={name}", f"sigma : d eps - d psi = {D:.3e} < 0 in one step", ident)
                if dim == 2 and info["ps"] and not (abs(sig6[2]) <= 1e-6 * sy):
                    res.fail(f"out-of-plane stress in plane stress behavior={name}", f"sigma_zz = {sig6[2]:.3e}", ident)
                # tangent vs central finite difference of the stress (rate-independent and rate-dependent alike)
                if k % 3 == 1 and Calg is not None:
                    Ca = np.asarray(Calg)[0, 0]
                    h = 1e-6      # well above the local solver's tolerance (strains to 1e-10), well below the strain increments
                    Cc, Cf, Cb = np.zeros_like(Ca), np.zeros_like(Ca), np.zeros_like(Ca)
                    for j in range(len(eps)):
                        ep, em = eps.copy(), eps.copy()
                        ep[j] += h
                        em[j] -= h
                        sp = np.asarray(beh.Integrate(fe(ep), z, dt, fe(eps_prev))[0])[0, 0]
                        sm = np.asarray(beh.Integrate(fe(em), z, dt, fe(eps_prev))[0])[0, 0]
                        Cc[:, j] = (sp - sm) / (2 * h)
                        Cf[:, j] = (sp - sig) / h
                        Cb[:, j] = (sig - sm) / h
                    # at the elastic / plastic switch the stress has a kink: the tangent must then be one of the one-sided derivatives
                    err = min(np.abs(Cx - Ca).max() for Cx in (Cc, Cf, Cb)) / np.abs(Ca).max()
                    if not (err <= 1e-4):
                        res.fail(f"tangent is not the derivative of the stress behavior={name}", f"max |C_alg - d sigma / d eps| / |C| = {err:.2e} (central, forward and backward differences, h = 1e-6)", ident)
                # correspondence with the scalar return mapping (von Mises + linear hardening, 3D / plane strain)
                if info.get("lin") and not info["ps"]:
                    Cel = np.asarray(beh.C)
                    s_tr = Cel @ (eps6 - zo[slot_ep])
                    lines.append(f"rr {fs(mu)} {fs(20.0)} {fs(sy)} {fs(svm(s_tr))} {fs(zo[slot_p][0])}")
                    expect.append(("rr", np.array([zn[slot_p][0] - zo[slot_p][0], svm(sig6), zn[slot_p][0]]), dict(ident)))
                batch.append((np.array(eps, float), zo.copy(), np.array(eps_prev, float), sig.copy(), zn.copy()))
                z = znew
                eps_prev = eps
                psi_prev = psi
            # every integration point is an independent material point: the steps walked above, now handed over as the
            # points of one field (elastic, yielding, compressive and tensile points side by side, each with its own state)
            for shape_ in (("row", lambda a: a[None]), ("column", lambda a: a[::-1, None])):
                if len(batch) < 2:
                    break
                lay_ = shape_[1]
                eb, zb, pb = (FeArray.asfearray(lay_(np.array([b[i] for b in batch]))) for i in (0, 1, 2))
                sref, zref = lay_(np.array([b[3] for b in batch])), lay_(np.array([b[4] for b in batch]))
                identb = dict(ident0, batch=shape_[0], points=len(batch))
                res.case((name, rep, "batch", shape_[0]))
                try:
                    sb, _, znb, okb = beh.Integrate(eb, zb, dt, pb)
                    sb, znb = np.asarray(sb), np.asarray(znb)
                    gap = np.abs(sb - sref).max()
                    if bool(np.asarray(okb).all()) and not (gap <= 2e-5 * sy):
                        res.fail(f"a point of a field does not behave as that point alone behavior={name}",
                                 f"Integrate on a field of {len(batch)} points ({shape_[0]}) differs from the same points integrated one by one: max |stress gap| = {gap:.3e}", identb)
                    if dim == 2 and info["ps"] and bool(np.asarray(okb).all()):
                        e6b = beh.Compute_strain_6d(eb, zb, dt)
                        szz = np.asarray(beh.Compute_sigma(e6b, FeArray.asfearray(znb)))[..., 2]
                        if not (np.abs(szz).max() <= 1e-5 * sy):
                            res.fail(f"out-of-plane stress in plane stress behavior={name}",
                                     f"on a field of {len(batch)} points sigma_zz reaches {np.abs(szz).max():.3e} at point {int(np.abs(szz).argmax())}", identb)
                except Exception as ex:  # noqa: BLE001
                    res.fail(f"Integrate raises on a field behavior={name}", f"{type(ex).__name__}: {str(ex)[:150]}", identb)
        # both local solvers agree (where the spectral one applies)
        if not info.get("rate") and "Chaboche" not in name and "AF" not in name and "Prager" not in name:
            try:
                bn, bs = mk(solver="newton"), mk(solver="auto")
                eps = rand_path(rng, dim, 2, 0.01)[3]
                a = np.asarray(bn.Integrate(fe(eps))[0])[0, 0]
                b = np.asarray(bs.Integrate(fe(eps))[0])[0, 0]
                res.case((name, "solvers"))
                if not (np.abs(a - b).max() <= 1e-7 * (1 + np.abs(a).max())):
                    res.fail(f"local solvers disagree behavior={name}", f"Newton and spectral returns differ by {np.abs(a - b).max():.2e}", dict(behavior=name, strain=eps.tolist()))
            except Exception as ex:  # noqa: BLE001
                res.fail(f"local solver comparison raises behavior={name}", f"{type(ex).__name__}: {str(ex)[:120]}", dict(behavior=name))

    # ---------------- both local solvers agree, rate laws included (exponents from 1 to 10, two step sizes) ----------------
    for law_, args_ in (("Norton", (2.0, 1.0, 1.0)), ("Norton", (2.0, 3.0, 1.0)), ("Norton", (2.0, 5.0, 1.0)), ("Norton", (2.0, 10.0, 1.0)),
                        ("Perzyna", (0.5, 2.0, 1.0)), ("Perzyna", (0.5, 5.0, 1.0)), ("Perzyna", (0.5, 10.0, 1.0))):
        for dt_ in (0.1, 1.0):
            identr = dict(behavior=f"VM+linear+{law_}{args_}", dt=dt_)
            res.case(("solvers-rate", law_, args_, dt_))
            try:
                eps_ = rand_path(rng, 3, 2, 0.012)[3]
                outs_ = {}
                for solver_ in ("auto", "newton"):
                    b_ = Behavior(3, Models.Elastic.Isotropic(3, E=E, v=v), yieldSurface=Yield.VonMises(sy), hardening=IsotropicHardening.Linear(20.0),
                                  rate=getattr(ViscoPlastic, law_)(*args_), solver=solver_)
                    sg_, _, z_, ok_ = b_.Integrate(fe(eps_), None, dt_)
                    outs_[solver_] = (np.asarray(sg_)[0, 0], bool(np.asarray(ok_).all()))
                if outs_["auto"][1] and outs_["newton"][1]:
                    gap_ = np.abs(outs_["auto"][0] - outs_["newton"][0]).max()
                    if not (gap_ <= 1e-7 * (1 + np.abs(outs_["newton"][0]).max())):
                        res.fail(f"local solvers disagree rate={law_} exponent={args_[1]}",
                                 f"both local solvers report convergence but their stresses differ by {gap_:.2e} (default solver vs solver='newton', dt = {dt_})", dict(identr, strain=eps_.tolist()))
            except Exception as ex:  # noqa: BLE001
                res.fail(f"local solver comparison raises rate={law_}", f"{type(ex).__name__}: {str(ex)[:120]}", identr)

    # ---------------- a behaviour on an anisotropic law whose stiffness is replaced afterwards (Set_C, with or without the compliance; the C setter) ----------------
    # "only its C is read": below yield the response is C eps, beyond yield both local solvers agree, the von Mises flow stays traceless and the
    # stress is on the surface - with the law as it is NOW
    for how_ in ("Set_C(C1, False)", "Set_C(C1, False, update_S=False)", "law.C = C1"):
        identA = dict(behavior="VonMises + Linear hardening on Models.Elastic.Anisotropic(3, C0)", change=how_)
        res.case(("anisotropic law replaced", how_))
        try:
            RA_ = np.array([[rng.randint(-2, 2) / 4 for _ in range(6)] for _ in range(6)])
            CA0_ = 100.0 * (np.eye(6) + 0.25 * (RA_ @ RA_.T))
            RB_ = np.array([[rng.randint(-2, 2) / 4 for _ in range(6)] for _ in range(6)])
            CA1_ = 70.0 * (np.eye(6) + 0.5 * (RB_ @ RB_.T))
            outsA = {}
            for solver_ in ("auto", "newton"):
                lawA = Models.Elastic.Anisotropic(3, CA0_.copy(), False)
                bA = Behavior(3, lawA, yieldSurface=Yield.VonMises(0.4), hardening=IsotropicHardening.Linear(20.0), solver=solver_)
                bA.Integrate(fe(rand_path(rng, 3, 2, 0.01)[3]))           # the behaviour has been used with the first law
                if how_ == "Set_C(C1, False)":
                    lawA.Set_C(CA1_.copy(), False)
                elif how_ == "law.C = C1":
                    lawA.C = CA1_.copy()
                else:
                    lawA.Set_C(CA1_.copy(), False, update_S=False)
                if solver_ == "auto":
                    dirA = rand_path(np.random if False else rng, 3, 2, 0.01)[3]
                    dirA = dirA / np.abs(dirA).max()
                outsA[solver_] = {}
                for label_, amp_ in (("below yield", 1e-4), ("beyond yield", 2e-2)):
                    sg_, Ct_, z_, ok_ = bA.Integrate(fe(amp_ * dirA))
                    outsA[solver_][label_] = (np.asarray(sg_)[0, 0].copy(), bool(np.asarray(ok_).all()))
            CnowA = np.asarray(lawA.C, float)
            el_ = CnowA @ (1e-4 * dirA)
            for solver_ in ("auto", "newton"):
                gotA = outsA[solver_]["below yield"][0]
                if not (np.abs(gotA - el_).max() <= 1e-9 * (1 + np.abs(el_).max())):
                    res.fail(f"behaviour after the stiffness of its anisotropic law was replaced: not elastic below yield solver={solver_}",
                             f"after {how_}: stress {gotA.tolist()} for a strain well below yield, C eps = {el_.tolist()} (difference {np.abs(gotA - el_).max():.2e})", dict(identA, solver=solver_, strain=(1e-4 * dirA).tolist()))
                    break
            else:
                a_, b_ = outsA["auto"]["beyond yield"], outsA["newton"]["beyond yield"]
                if a_[1] and b_[1] and not (np.abs(a_[0] - b_[0]).max() <= 1e-6 * (1 + np.abs(b_[0]).max())):
                    res.fail("behaviour after the stiffness of its anisotropic law was replaced: local solvers disagree",
                             f"after {how_}: default solver and solver='newton' both converge, stresses differ by {np.abs(a_[0] - b_[0]).max():.2e}", dict(identA, strain=(2e-2 * dirA).tolist()))
        except Exception as ex:  # noqa: BLE001
            res.fail("behaviour on a replaced anisotropic law raises", f"{type(ex).__name__}: {str(ex)[:150]}", identA)

    # ---------------- a simulation with a rate-dependent material: every advertised result can be read after a saved step ----------------
    for ps_ in (False, True):
        identp = dict(sim="InElastic", behavior="VM+linear+Norton", planeStress=ps_, dt=0.1)
        res.case(("rate-results", ps_))
        try:
            meshr_ = M.mesh_2d("QUAD4", a=2.0, b=1.0, h=0.5)
            br_ = Behavior(2, Models.Elastic.Isotropic(3, E=E, v=v), yieldSurface=Yield.VonMises(sy), hardening=IsotropicHardening.Linear(20.0),
                           rate=ViscoPlastic.Norton(2.0, 3.0, 1.0), planeStress=ps_, thickness=1.0)
            sr_ = Simulations.InElastic(meshr_, br_)
            sr_.dt = 0.1
            sr_.add_dirichlet(meshr_.Nodes_Conditions(lambda x, y, z: x == 0), [0.0, 0.0], ["x", "y"])
            sr_.add_dirichlet(meshr_.Nodes_Conditions(lambda x, y, z: x == 2.0), [0.02], ["x"])
            sr_.Solve()
            sr_.Save_Iter()
            S_ = np.asarray(sr_.Result("Stress", nodeValues=False))
            if not np.all(np.isfinite(S_)):
                res.fail(f"stress of a rate-dependent material not finite planeStress={ps_}", "Result('Stress') contains NaN / inf after a saved step", identp)
        except Exception as ex:  # noqa: BLE001
            res.fail(f"results of a rate-dependent material raise planeStress={ps_}", f"after Solve and Save_Iter, Result('Stress') raised {type(ex).__name__}: {str(ex)[:140]}", identp)

    # ---------------- no internal variable = linear elasticity ----------------
    for dim, ps in ((3, False), (2, False), (2, True)):
        el = Models.Elastic.Isotropic(3, E=E, v=v)
        beh = Behavior(dim, el, planeStress=ps)
        ref = Models.Elastic.Isotropic(dim, E=E, v=v, planeStress=ps)
        for _ in range(3):
            n = 6 if dim == 3 else 3
            eps = np.array([rng.gauss(0, 0.01) for _ in range(n)])
            sig, Calg, _, _ = beh.Integrate(fe(eps))
            res.case(("elastic", dim, ps))
            want = np.asarray(ref.C) @ eps
            if not (np.abs(np.asarray(sig)[0, 0] - want).max() <= 1e-9 * (1 + np.abs(want).max())) or not (np.abs(np.asarray(Calg)[0, 0] - np.asarray(ref.C)).max() <= 1e-8 * np.abs(ref.C).max()):
                res.fail(f"material without internal variables is not linear elastic dim={dim} planeStress={ps}", "stress or tangent differs from C eps / C", dict(dim=dim, planeStress=ps, strain=eps.tolist()))

    # ---------------- the same for every elastic symmetry class the constructor accepts, material axes turned in the plane ----------------
    # expectation: the law's own 3D stiffness, cut (plane strain) or condensed on zz (plane stress) here with plain numpy
    def aniso_laws(th):
        c_, s_ = float(np.cos(th)), float(np.sin(th))
        a1, a2 = (c_, s_, 0.0), (-s_, c_, 0.0)
        return {"isotropic": lambda d, **kw: Models.Elastic.Isotropic(d, E=E, v=v, **kw),
                "transversely isotropic": lambda d, **kw: Models.Elastic.TransverselyIsotropic(d, El=E, Et=E / 3, Gl=E / 4, vl=0.3, vt=0.2, axis_l=a1, axis_t=a2, **kw),
                "orthotropic": lambda d, **kw: Models.Elastic.Orthotropic(d, E1=E, E2=E / 2, E3=E / 3, G12=E / 4, G13=E / 5, G23=E / 6, v12=0.3, v13=0.2, v23=0.1, axis_1=a1, axis_2=a2, **kw)}

    def cut(C3, ps_):
        C3 = np.asarray(C3, float)
        Cpp = C3[np.ix_(IDX_2D, IDX_2D)]
        if not ps_:
            return Cpp
        return Cpp - np.outer(C3[IDX_2D, 2], C3[2, IDX_2D]) / C3[2, 2]

    for th in (0.0, np.pi / 6, rng.uniform(0.2, 1.3), np.pi / 2):
        for lname, mkl in aniso_laws(th).items():
            if lname == "isotropic" and th != 0.0:
                continue
            for dim, ps in ((3, False), (2, False), (2, True)):
                identa = dict(elastic=lname, axes_angle=float(th), dim=dim, planeStress=ps)
                tag = f"elastic={lname} dim={dim} planeStress={ps}"
                res.case(("elastic-aniso", lname, round(float(th), 6), dim, ps))
                try:
                    C3 = np.asarray(mkl(3).C, float)
                    Cw = C3 if dim == 3 else cut(C3, ps)
                    beh = Behavior(dim, mkl(3), planeStress=ps)
                    n = 6 if dim == 3 else 3
                    eps = np.array([rng.gauss(0, 0.004) for _ in range(n)])
                    sig, Calg, zz_, ok_ = beh.Integrate(fe(eps))
                    sig, Calg = np.asarray(sig)[0, 0], np.asarray(Calg)[0, 0]
                    want = Cw @ eps
                    sc = np.abs(want).max()
                    ida = dict(identa, strain=eps.tolist())
                    if not (np.abs(sig - want).max() <= 1e-8 * sc) or not (np.abs(Calg - Cw).max() <= 1e-8 * np.abs(Cw).max()):
                        res.fail(f"material without internal variables is not linear elastic {tag}",
                                 f"max |sigma - C eps| / |sigma| = {np.abs(sig - want).max() / sc:.2e}, max |C_alg - C| / |C| = {np.abs(Calg - Cw).max() / np.abs(Cw).max():.2e} "
                                 f"(C: 3D stiffness of the elastic law, cut / condensed on zz for the 2D hypothesis; axes turned by {th:.4f} rad in the plane)", ida)
                    if ps:
                        e6 = np.asarray(beh.Compute_strain_6d(fe(eps), zz_))[0, 0]
                        szz = float((C3 @ e6)[2])
                        if not (abs(szz) <= 1e-6 * sc):
                            res.fail(f"out-of-plane stress in plane stress {tag}", f"sigma_zz = {szz:.3e} (|sigma| = {sc:.3e}) at the strain the material sees, no internal variable", ida)
                    # with a yield surface on top: sigma_zz = 0 before and after yielding, and the elastic range is the same linear law
                    if ps or dim == 3:
                        bp = Behavior(dim, mkl(3), yieldSurface=Yield.VonMises(sy), hardening=IsotropicHardening.Linear(20.0), planeStress=ps)
                        for fac in (0.02, 4.0):
                            ep_ = fac * eps
                            sg_, _, zn_, okp = bp.Integrate(fe(ep_))
                            if not bool(np.asarray(okp).all()):
                                continue
                            sg_ = np.asarray(sg_)[0, 0]
                            idp = dict(identa, behavior="VM+linear", strain=ep_.tolist())
                            if fac < 1 and not (np.abs(sg_ - Cw @ ep_).max() <= 1e-8 * np.abs(Cw @ ep_).max() + 1e-7 * sy):
                                res.fail(f"elastic range is not the linear elastic law {tag}", f"below yield, max |sigma - C eps| = {np.abs(sg_ - Cw @ ep_).max():.3e}", idp)
                            if ps:
                                e6 = np.asarray(bp.Compute_strain_6d(fe(ep_), None))[0, 0]
                                s6 = np.asarray(bp.Compute_sigma(fe(e6), zn_))[0, 0]
                                if not (abs(s6[2]) <= 1e-6 * max(sy, np.abs(sg_).max())):
                                    res.fail(f"out-of-plane stress in plane stress {tag}", f"VM+linear: sigma_zz = {s6[2]:.3e} (|sigma| = {np.abs(sg_).max():.3e})", idp)
                except Exception as ex:  # noqa: BLE001
                    res.fail(f"anisotropic elastic behaviour raises {tag}", f"{type(ex).__name__}: {str(ex)[:150]}", identa)

    # a simulation with such a material is the elastic simulation with the same law (plane stress and plane strain)
    for ps in (True, False):
        th = np.pi / 6
        identa = dict(sim="InElastic vs Elastic", elastic="orthotropic", axes_angle=float(th), planeStress=ps, mesh="QUAD4 2 x 1, h = 0.5")
        res.case(("elastic-aniso-sim", ps))
        try:
            mesha = M.mesh_2d("QUAD4", a=2.0, b=1.0, h=0.5)
            mko = aniso_laws(th)["orthotropic"]
            us_ = []
            for sim_ in (Simulations.InElastic(mesha, Behavior(2, mko(3), planeStress=ps, thickness=0.7)), Simulations.Elastic(mesha, mko(2, planeStress=ps, thickness=0.7))):
                sim_.add_dirichlet(mesha.Nodes_Conditions(lambda x, y, z: x == 0), [0.0, 0.0], ["x", "y"])
                sim_.add_dirichlet(mesha.Nodes_Conditions(lambda x, y, z: x == 2.0), [0.01], ["x"])
                sim_.Solve()
                us_.append(np.asarray(sim_.displacement, float).copy())
            gapa = np.abs(us_[0] - us_[1]).max() / np.abs(us_[1]).max()
            if not (gapa <= 1e-8):
                res.fail(f"material without internal variables is not linear elastic simulation planeStress={ps}",
                         f"Simulations.InElastic with a behaviour without internal variables and Simulations.Elastic with the same orthotropic law (axes turned by 30 deg) differ: max |u gap| / |u| = {gapa:.2e}", identa)
        except Exception as ex:  # noqa: BLE001
            res.fail(f"anisotropic elastic simulation raises planeStress={ps}", f"{type(ex).__name__}: {str(ex)[:150]}", identa)

    # ---------------- simulation: committed state before / after Solve and Save_Iter ----------------
    mesh = M.mesh_2d("QUAD4", 2.0, 1.0, 0.5)
    beh = Behavior(2, Models.Elastic.Isotropic(3, E=E, v=v), yieldSurface=Yield.VonMises(sy), hardening=IsotropicHardening.Linear(20.0), thickness=1.0)
    s = Simulations.InElastic(mesh, beh)
    left = mesh.Nodes_Conditions(lambda x, y, z: x == 0)
    right = mesh.Nodes_Conditions(lambda x, y, z: x == 2.0)
    ops, load = [], 0.0

    def committed():
        zo = getattr(s, "_InElastic__zOld")
        return {k: np.asarray(a).copy() for k, a in zo.items()}

    def same(a, b):
        return a.keys() == b.keys() and all(np.array_equal(a[k], b[k]) for k in a)

    nsaved = 0
    for op in ["i", "i", "s", "i", "s", "i", "i", "r0", "i", "s"] + [rng.choice(["i", "s", "i"]) for _ in range(6 if thorough else 3)]:
        before = committed()
        ident = dict(simulation="InElastic QUAD4", ops=ops + [op])
        if op == "i":
            load += rng.choice([0.004, 0.008, -0.006])
            s.Bc_Init()
            s.add_dirichlet(left, [0.0, 0.0], ["x", "y"])
            s.add_dirichlet(right, [load], ["x"])
            try:
                s.Solve()
            except Exception as ex:  # noqa: BLE001
                res.notes.append(f"InElastic simulation: Solve raised {type(ex).__name__}; history cut")
                break
            res.case(("simulation", len(ops), "solve"))
            if len(before) and not same(before, committed()):
                res.fail("Solve modifies the committed internal variables", "the committed state changed during Solve (only Save_Iter may advance the history)", ident)
                break
        elif op == "s":
            s.Save_Iter()
            nsaved += 1
            zt = {k: np.asarray(a) for k, a in getattr(s, "_InElastic__z").items()}
            res.case(("simulation", len(ops), "save"))
            if not same(zt, committed()):
                res.fail("Save_Iter does not commit the trial state", "after Save_Iter the committed state differs from the trial state of the converged step", ident)
                break
        else:
            s.Set_Iter(int(op[1:]))
        ops.append(op)
    lines.append("sm " + " ".join(ops))
    expect.append(("sm", nsaved, dict(ops=ops)))

    # ---------------- rolling back to an iteration saved before the first solve restores the virgin material ----------------
    for dimv in (2, 3):
        identv = dict(simulation="InElastic", dim=dimv, ops=["Save_Iter (before any solve)", "solve 0.05, Save_Iter", "solve 0.08, Save_Iter", "Set_Iter(0)", "solve 0.0005"])
        res.case(("virgin-rollback", dimv))
        try:
            meshv = M.mesh_2d("QUAD4", 2.0, 1.0, 0.5) if dimv == 2 else M.mesh_3d("HEXA8", 2.0, 1.0, 1.0, 1.0, 1)
            unkv = ["x", "y", "z"][:dimv]
            lv = meshv.Nodes_Conditions(lambda x, y, z: x == 0)
            rv = meshv.Nodes_Conditions(lambda x, y, z: x == 2.0)

            def mkv():
                return Simulations.InElastic(meshv, Behavior(dimv, Models.Elastic.Isotropic(3, E=100.0, v=0.3), yieldSurface=Yield.VonMises(1.0), hardening=IsotropicHardening.Linear(20.0), thickness=1.0))

            def stepv(sim_, val):
                sim_.Bc_Init()
                sim_.add_dirichlet(lv, [0.0] * dimv, unkv)
                sim_.add_dirichlet(rv, [val], ["x"])
                sim_.Solve()
            sv = mkv()
            sv.Save_Iter()
            for val in (0.05, 0.08):
                stepv(sv, val)
                sv.Save_Iter()
            sv.Set_Iter(0)
            pz = max((float(np.abs(np.asarray(a)).max()) for a in getattr(sv, "_InElastic__zOld").values()), default=0.0)
            if pz > 0:
                res.fail("roll-back to a virgin iteration keeps a history", f"after Set_Iter(0) (iteration saved before the first solve) the committed internal variables reach {pz:.3e} instead of 0", identv)
            else:
                stepv(sv, 0.0005)
                fv = mkv()
                stepv(fv, 0.0005)
                gapv = np.abs(np.asarray(sv.Result("Stress", nodeValues=False)) - np.asarray(fv.Result("Stress", nodeValues=False))).max()
                if not (gapv <= 1e-8):
                    res.fail("roll-back to a virgin iteration keeps a history", f"an elastic step solved after Set_Iter(0) differs from the same step on a fresh simulation: stress gap {gapv:.3e}", identv)
        except Exception as ex:  # noqa: BLE001
            res.fail("roll-back to a virgin iteration raises", f"{type(ex).__name__}: {str(ex)[:140]}", identv)

    # ---------------- MaterialPoint.Run: mixed strain / stress control; only the converged step of each increment advances the history ----------------
    from EasyFEA.Models.InElastic import MaterialPoint
    mp_cases = [(n_, mk_) for n_, mk_, inf_ in combos if inf_["dim"] == 3 and not inf_.get("rate") and n_ in ("VM+linear 3D", "VM+Voce+AF 3D", "Hill+Swift 3D", "VM+Prager 3D")]
    for name, mk in mp_cases:
        law = mk()
        n_ = 10 if not thorough else 20
        amp = 0.008 * rng.choice([1.0, 1.5])
        up = np.linspace(0.0, amp, n_)
        paths = {"uniaxial stress, load / unload / reverse": {"xx": np.concatenate([up, up[::-1][1:], -up[1:]])},
                 "tension then shear (xx, xy driven, the others stress-free)": {"xx": np.concatenate([up, np.full(n_, up[-1])]), "xy": np.concatenate([np.zeros(n_), np.linspace(0.0, 1.3 * amp, n_)])}}
        for pname, strain in paths.items():
            ident = dict(behavior=name, path=pname, amplitude=amp, steps=int(len(next(iter(strain.values())))))
            try:
                out = MaterialPoint(law).Run(strain=strain)
                eps_h, sig_h, st_h = np.asarray(out["strain"]), np.asarray(out["stress"]), np.asarray(out["state"])
                ph = np.asarray(out["p"]) if "p" in out else None
            except Exception as ex:  # noqa: BLE001
                res.fail(f"MaterialPoint.Run raises behavior={name}", f"{type(ex).__name__}: {str(ex)[:150]}", ident)
                continue
            res.case(("materialpoint", name, pname))
            res.count("materialpoint")
            zprev = None
            gap_s = gap_z = 0.0
            for k in range(len(eps_h)):
                s_k, _, z_k, ok_k = law.Integrate(fe(eps_h[k]), zprev)
                gap_s = max(gap_s, float(np.abs(np.asarray(s_k)[0, 0] - sig_h[k]).max()))
                gap_z = max(gap_z, float(np.abs(np.asarray(z_k)[0, 0] - st_h[k]).max()))
                zprev = fe(st_h[k])
            if not (gap_s <= 1e-7 * sy) or not (gap_z <= 1e-10):
                res.fail("MaterialPoint.Run: a recorded step is not one integration away from the previous recorded state",
                         f"max |stress_k - Integrate(strain_k, state_(k-1))| = {gap_s:.2e}, max state gap = {gap_z:.2e}: trial iterates of the stress-control loop advanced the history", ident)
                continue
            if ph is not None and not (np.diff(ph).min() >= -1e-13):
                res.fail("MaterialPoint.Run: accumulated plastic strain decreases", f"min increment {np.diff(ph).min():.2e}", ident)
            free = [i for i, c in enumerate(["xx", "yy", "zz", "yz", "xz", "xy"]) if c not in strain]
            if not (np.abs(sig_h[:, free]).max() <= 1e-6 * sy):
                res.fail("MaterialPoint.Run: a stress-controlled component is not stress-free", f"max |sigma_free| = {np.abs(sig_h[:, free]).max():.2e}", ident)

    answers = driver.ask(lines)
    if answers is None:
        res.disagree("driver", "model driver does not run: " + getattr(driver, "error", "")[:400])
    else:
        for (kind, real, ident), ans in zip(expect, answers):
            res.traces += 1
            if kind == "rr":
                try:
                    model = np.array([float(parse_frac(x)) for x in ans.split()])
                except Exception:  # noqa: BLE001
                    res.disagree("return-mapping", dict(ident, model=ans[:80]))
                    continue
                if not (np.abs(model - real).max() <= 1e-7 * (1 + np.abs(real).max())):
                    res.disagree("return-mapping", dict(ident, model=model.tolist(), real=real.tolist()))
            else:
                if int(ans.split()[2]) != real:
                    res.disagree("state-machine", dict(ident, model=ans, real_saved=real))
    res.search_note = "admissibility, monotonicity, dissipation, tangent consistency, solver agreement and purity hold on the sampled paths"
    res.write("19 behaviours (von Mises / Hill / Drucker-Prager; no / linear / Voce / Swift hardening; Prager / Armstrong-Frederick / Chaboche; Norton / Perzyna; Maxwell branches; 3D / plane strain / plane stress) "
              "along piecewise-linear strain paths with reversals and direction changes; per step: finiteness, purity and repeatability of Integrate, p monotone, traceless J2 flow, f <= 0, dissipation, sigma_zz in plane stress, "
              "tangent vs central differences; Newton vs spectral local solve; no internal variable = linear elasticity; committed state of Simulations.InElastic around Solve / Save_Iter / Set_Iter; "
              "distinct = distinct (behaviour, path, step)")


if __name__ == "__main__":
    from tools.harness._common import run

    run(main)
