"""C09 harness.
(a) correspondence: one loaded element at a time, the real nodal forces vs `Model/Loads.lean` evaluated
    exactly on the same wJ, N and density values; `Get_Elements_Nodes(exclusively=True)` vs the model selection;
(b) oracles on the real code, independent of the model: resultant and moment of `Bc_vector_Neumann()` against
    reference integrals (Gauss-Legendre on the parametrised region) for constant / callable / nodal-array
    densities on affine images of meshes of every element type, thickness factors, stray nodes, point
    loads, pressure on planar faces, beam line loads."""

from __future__ import annotations

import itertools
import warnings
from fractions import Fraction

import numpy as np

from tools.harness._common import Driver, Result, frac_str, parse_args, parse_frac, rng_for
from tools.harness import _meshes as M

from EasyFEA import Models, Simulations, Mesher, ElemType
from EasyFEA.Geoms import Domain, Point, Line

GL_X, GL_W = np.polynomial.legendre.leggauss(10)
GL_X, GL_W = (GL_X + 1) / 2, GL_W / 2  # on [0,1]


def fs(x):
    return frac_str(Fraction(float(x)))


class Poly:
    """random polynomial in x, y, z with small integer coefficients"""

    def __init__(self, rng, deg, dim):
        self.terms = []
        for i, j, k in itertools.product(range(deg + 1), repeat=3):
            if not (i + j + k > deg) and (dim == 3 or k == 0) and (dim >= 2 or j == 0):
                c = rng.randint(-3, 3)
                if c:
                    self.terms.append((c, i, j, k))
        if not self.terms:
            self.terms = [(2, 0, 0, 0)]

    def __call__(self, x, y, z):
        return sum(c * x**i * y**j * z**k for c, i, j, k in self.terms)

    def __repr__(self):
        return " + ".join(f"{c}*x^{i}*y^{j}*z^{k}" for c, i, j, k in self.terms)


def ref_integral(fun, y0, dirs, A, t):
    """∫ over {y0 + Σ s_k dirs_k, s in [0,1]^r} mapped by x = A y + t of fun(x) (array-valued allowed)"""
    r = len(dirs)
    G = np.array([A @ d for d in dirs]).T
    factor = np.sqrt(abs(np.linalg.det(G.T @ G)))
    total = 0
    for idx in itertools.product(range(len(GL_X)), repeat=r):
        s = [GL_X[i] for i in idx]
        w = np.prod([GL_W[i] for i in idx])
        y = y0 + sum(sk * dk for sk, dk in zip(s, dirs))
        x = A @ y + t
        total = total + w * np.asarray(fun(x), dtype=float)
    return total * factor


def rand_affine(rng, dim):
    while True:
        A = np.eye(3)
        for i in range(dim):
            for j in range(dim):
                A[i, j] = rng.randint(-4, 4) / 4
        if not (abs(np.linalg.det(A)) <= 0.3):
            return A, np.array([rng.randint(-4, 4) / 4 if i < dim else 0.0 for i in range(3)])


def build_sim(kind, mesh, thickness):
    dim = mesh.dim
    if kind == "elastic":
        return Simulations.Elastic(mesh, Models.Elastic.Isotropic(dim, E=10.0, v=0.25, planeStress=True, thickness=thickness)), dim
    if kind == "thermal":
        return Simulations.Thermal(mesh, Models.Thermal(2.0, 1.0, thickness=thickness)), 1
    if kind == "phasefield":
        mat = Models.Elastic.Isotropic(dim, E=10.0, v=0.25, planeStress=True, thickness=thickness)
        return Simulations.PhaseField(mesh, Models.PhaseField(mat, "Amor", "AT2", 1.0, 0.2)), dim
    if kind == "hyperelastic":
        return Simulations.HyperElastic(mesh, Models.HyperElastic.NeoHookean(dim, 2.0, 4.0, thickness=thickness) if False else Models.HyperElastic.SaintVenantKirchhoff(dim, 4.0, 4.0, thickness=thickness)), dim
    if kind == "inelastic":
        IE_ = Models.InElastic
        beh = IE_.Behavior(dim, Models.Elastic.Isotropic(3, E=10.0, v=0.25), yieldSurface=IE_.Yield.VonMises(1.0), hardening=IE_.IsotropicHardening.Linear(2.0), thickness=thickness)
        return Simulations.InElastic(mesh, beh), dim
    raise ValueError(kind)


def call_load(simu, kind, fname, nodes, values, unknowns):
    kw = {"problemType": simu.ProblemTypes.elastic} if kind == "phasefield" else {}
    return getattr(simu, fname)(nodes, values, unknowns, **kw)


def nvec_of(simu, kind):
    if kind == "phasefield":
        return simu.Bc_vector_Neumann(simu.ProblemTypes.elastic)
    return simu.Bc_vector_Neumann()


UNK = {1: ["t"], 2: ["x", "y"], 3: ["x", "y", "z"]}


def regions(dim, a, b, c):
    """loadable regions of the rectangle / box in reference coordinates:
    (name, integration dimension, predicate on reference coords, origin, directions)"""
    e = np.eye(3)
    if dim == 2:
        return [("edge y=b", 1, lambda Y: Y[:, 1] == b, np.array([0, b, 0.0]), [a * e[0]]),
                ("edge x=0", 1, lambda Y: Y[:, 0] == 0, np.zeros(3), [b * e[1]]),
                ("domain", 2, lambda Y: Y[:, 0] >= -1, np.zeros(3), [a * e[0], b * e[1]])]
    return [("edge y=0,z=0", 1, lambda Y: (Y[:, 1] == 0) & (Y[:, 2] == 0), np.zeros(3), [a * e[0]]),
            ("face z=c", 2, lambda Y: Y[:, 2] == c, np.array([0, 0, c]), [a * e[0], b * e[1]]),
            ("face x=a", 2, lambda Y: Y[:, 0] == a, np.array([a, 0, 0.0]), [b * e[1], c * e[2]]),
            ("domain", 3, lambda Y: Y[:, 0] >= -1, np.zeros(3), [a * e[0], b * e[1], c * e[2]])]


def cross_moment(X, F):
    """Σ x_n × f_n  (X: (n,3), F: (n,3))"""
    return np.cross(X, F).sum(0)


def main():
    args = parse_args()
    rng = rng_for(args)
    res = Result(args)
    driver = Driver("C09")
    warnings.filterwarnings("ignore")
    thorough = args.tier == "thorough"
    types2 = M.ALL_2D if thorough else ["TRI3", "TRI6", "TRI10", "QUAD4", "QUAD8", "QUAD9"]
    types3 = M.ALL_3D if thorough else ["TETRA4", "TETRA10", "HEXA8", "PRISM6", "PRISM15"]
    lines, expect = [], []
    a, b, c = 2.0, 1.0, 1.5
    kinds_cycle = itertools.cycle(["elastic", "thermal", "phasefield", "hyperelastic", "inelastic", "elastic"])

    for ktype, et in enumerate(types2 + types3):
        dim = M.dim_of(et)
        order = {"TRI3": 1, "TRI6": 2, "TRI10": 3, "TRI15": 4, "QUAD4": 1, "QUAD8": 2, "QUAD9": 2, "TETRA4": 1, "TETRA10": 2,
                 "HEXA8": 1, "HEXA20": 2, "HEXA27": 2, "PRISM6": 1, "PRISM15": 2, "PRISM18": 2}[et]
        mesh = M.mesh_2d(et, a, b, 1.0) if dim == 2 else M.mesh_3d(et, a, b, c, 1.0, 2)
        Y = mesh.coord.copy()
        A, t = rand_affine(rng, dim)
        if ktype % 2 == 1 and np.linalg.det(A[:dim, :dim]) > 0:
            A[:, 0] *= -1            # every other element type on a mirrored image (negative Jacobian everywhere)
        M.affine(mesh, A, t)
        X = mesh.coord
        try:
            # an unrelated read that evaluates signed Jacobians (point probing) before the loads are integrated
            mesh.Evaluate_dofsValues_at_coordinates(X[mesh.groupElem.connect[0]].mean(0)[None, :], X[:, 0].copy())
        except Exception:  # noqa: BLE001
            pass
        thickness = rng.choice([1.0, 0.5, 2.5]) if dim == 2 else 1.0
        kind = next(kinds_cycle)
        if kind == "inelastic" and dim == 2 and thickness == 1.0:
            thickness = 0.5     # the behaviour wraps a 3D elastic law whose own thickness is 1: the two must not be confused
        try:
            simu, ncomp = build_sim(kind, mesh, thickness)
        except Exception as ex:  # noqa: BLE001
            res.fail(f"simulation cannot be built sim={kind}", f"{kind} on {et}: {type(ex).__name__}: {str(ex)[:120]}", dict(sim=kind, elemType=et))
            kind = "elastic"
            simu, ncomp = build_sim(kind, mesh, thickness)
        unknowns = UNK[ncomp] if ncomp > 1 else ["t"]
        res.count(f"sim:{kind}")
        res.count(f"elem:{et}")
        cpt = np.array([rng.randint(-2, 2) / 2 for _ in range(3)])
        if dim == 2:
            cpt[2] = 0

        for (rname, idim, pred, y0, dirs) in regions(dim, a, b, c):
            nodes = np.where(pred(Y))[0]
            loaders = {1: [("add_lineLoad", 1.0)] + ([("add_surfLoad", thickness)] if dim == 2 else []),
                       2: [("add_volumeLoad", thickness)] if dim == 2 else [("add_surfLoad", 1.0)],
                       3: [("add_volumeLoad", 1.0)]}[idim]
            for (fname, factor) in loaders:
                for form in ("constant", "callable", "nodal"):
                    deg = 0 if form == "constant" else rng.randint(1, order)
                    polys = [Poly(rng, deg, dim) for _ in unknowns]
                    nodes = np.sort(nodes)
                    if form == "nodal" or not (rng.random() >= 0.3):
                        # a selection is a set of nodes: any listing order (unions of selections, nodes ordered along a line) is legitimate
                        nodes = nodes[np.array(rng.sample(range(len(nodes)), len(nodes)), dtype=int)]
                    if form == "constant":
                        values = [float(p.terms[0][0]) for p in polys]
                        for p in polys:
                            p.terms = [(p.terms[0][0], 0, 0, 0)]
                    elif form == "callable":
                        values = list(polys)
                    else:
                        values = [p(X[nodes, 0], X[nodes, 1], X[nodes, 2]) * np.ones(len(nodes)) for p in polys]
                    strays = []
                    if rname != "domain" and not (rng.random() >= 0.5):
                        interior = np.where((Y[:, 0] > 0) & (Y[:, 0] < a) & (Y[:, 1] > 0) & (Y[:, 1] < b) & ((dim == 2) | ((Y[:, 2] > 0) & (Y[:, 2] < c))))[0]
                        strays = list(interior[:2])
                    sel = np.concatenate([nodes, np.array(strays, dtype=int)]) if strays else nodes
                    vals = values
                    if form == "nodal" and strays:
                        vals = [np.concatenate([v, 7.0 * np.ones(len(strays))]) for v in values]
                    dup = 0
                    if form == "constant" or not (rng.random() >= 0.3):
                        # a selection built by concatenating two selections lists their common nodes twice
                        dup = min(2, len(nodes))
                        sel = np.concatenate([sel, nodes[:dup]])
                        if form == "nodal":
                            vals = [np.concatenate([v, v[:dup]]) for v in vals]
                    simu.Bc_Init()
                    ident = dict(elemType=et, sim=kind, load=fname, region=rname, form=form, density=[repr(p) for p in polys],
                                 A=A.tolist(), t=t.tolist(), thickness=thickness, strays=[int(s) for s in strays], node_order="shuffled" if np.any(np.diff(nodes) < 0) else "ascending", duplicated_nodes=int(dup))
                    try:
                        call_load(simu, kind, fname, sel, vals, unknowns)
                        F = np.asarray(nvec_of(simu, kind)).reshape(mesh.Nn, ncomp)
                    except Exception as ex:  # noqa: BLE001
                        res.fail(f"load raises {fname} elem={et} form={form}", f"{fname} raised {type(ex).__name__}: {str(ex)[:150]}", ident)
                        continue
                    res.case((et, kind, fname, rname, form))
                    qfun = lambda x: np.array([p(x[0], x[1], x[2]) for p in polys])  # noqa: E731
                    want_R = factor * ref_integral(qfun, y0, dirs, A, t)
                    got_R = F.sum(0)
                    scale = 1 + np.abs(want_R).max()
                    if not (np.abs(got_R - want_R).max() <= 1e-9 * scale):
                        res.fail(f"resultant {fname} form={form} elem={et}", f"Σ nodal forces = {got_R.tolist()} but ∫ density = {want_R.tolist()}", ident)
                        continue
                    if ncomp > 1:
                        F3 = np.zeros((mesh.Nn, 3))
                        F3[:, :ncomp] = F
                        got_M = cross_moment(X - cpt, F3)
                        q3 = lambda x: np.cross(x - cpt, np.concatenate([qfun(x), np.zeros(3 - ncomp)]))  # noqa: E731
                        want_M = factor * ref_integral(q3, y0, dirs, A, t)
                    else:
                        got_M = (X * F).sum(0)
                        want_M = factor * ref_integral(lambda x: x * qfun(x)[0], y0, dirs, A, t)
                    scale = 1 + np.abs(want_M).max()
                    if not (np.abs(got_M - want_M).max() <= 1e-9 * scale):
                        res.fail(f"moment {fname} form={form} elem={et}", f"moment of the nodal forces about {cpt.tolist()} = {got_M.tolist()} but the moment of the density = {want_M.tolist()}", ident)
                    if strays and np.abs(F[strays]).max() > 0:
                        res.fail(f"stray nodes loaded {fname} elem={et}", "selected nodes that bound no loaded element received a force", ident)

            # correspondence on single elements of the integrated groups
            for g in mesh.Get_list_groupElem(idim):
                els = g.Get_Elements_Nodes(nodes, exclusively=True)
                if len(els) == 0:
                    continue
                for e in list(els[:1]) + ([int(els[-1])] if thorough and len(els) > 1 else []):
                    conn = g.connect[e]
                    wJ = g.Get_weightedJacobian_e_pg("mass")[e]
                    N = g.Get_N_pg("mass")[:, 0, :]
                    xg = np.asarray(g.Get_GaussCoordinates_e_pg("mass", np.array([e])))[0]
                    p = Poly(rng, min(2, order), dim)
                    fname = loaders[0][0]
                    for form in ("gauss", "nodal"):
                        simu.Bc_Init()
                        if form == "gauss":
                            q = p(xg[:, 0], xg[:, 1], xg[:, 2]) * np.ones(len(wJ))
                            call_load(simu, kind, fname, conn, [p], [unknowns[0]])
                        else:
                            q = p(X[conn, 0], X[conn, 1], X[conn, 2]) * np.ones(len(conn))
                            call_load(simu, kind, fname, conn, [q], [unknowns[0]])
                        F = np.asarray(nvec_of(simu, kind)).reshape(mesh.Nn, ncomp)
                        lines.append(f"{form} {len(wJ)} {len(conn)} | " + " ".join(fs(v) for v in wJ) + " | " + " ".join(fs(v) for v in q) + " | " + " ".join(fs(v) for v in N.ravel()))
                        expect.append(("load", loaders[0][1], F[conn, 0].copy(), dict(elemType=et, group=str(g.elemType), element=int(e), form=form, load=fname)))
                # selection correspondence
                for _ in range(2 if thorough else 1):
                    k = rng.randint(1, max(1, g.Nn if hasattr(g, "Nn") else mesh.Nn))
                    pool = np.unique(g.connect.ravel())
                    S = np.array(sorted(rng.sample(list(pool), min(len(pool), max(1, int(len(pool) * rng.choice([0.3, 0.6, 0.9])))))))
                    if g.Ne > 60:
                        continue
                    got = sorted(int(x) for x in g.Get_Elements_Nodes(S, exclusively=True))
                    lines.append(f"select {g.Ne} {g.nPe} | " + " ".join(str(int(v)) for v in g.connect.ravel()) + " | " + " ".join(str(int(v)) for v in S))
                    expect.append(("select", None, got, dict(elemType=et, group=str(g.elemType), S=S.tolist())))
                    # independent oracle: exactly the elements whose nodes all lie in S
                    want = sorted(int(i) for i in range(g.Ne) if set(g.connect[i]) <= set(S.tolist()))
                    res.case((et, str(g.elemType), "select", tuple(S.tolist())))
                    if got != want:
                        res.fail(f"exclusive selection group={g.elemType}", f"Get_Elements_Nodes(exclusively=True) returned {got[:10]} but the elements with all nodes selected are {want[:10]}", dict(elemType=et, S=S.tolist()))

        # point loads and pressure (vector problems)
        simu.Bc_Init()
        nodes = np.where(regions(dim, a, b, c)[1][2](Y))[0]
        v = rng.randint(1, 9) / 2
        # the selection given as an array or as a plain list of node numbers (every other entry point accepts both)
        sel_form = nodes if ktype % 2 == 0 else [int(n) for n in nodes]
        try:
            call_load(simu, kind, 'add_neumann', sel_form, [v], [unknowns[0]])
        except Exception as ex:  # noqa: BLE001
            res.fail(f"point load raises selection={'array' if ktype % 2 == 0 else 'list'}", f"add_neumann raised {type(ex).__name__}: {str(ex)[:100]} for a selection given as a {'numpy array' if ktype % 2 == 0 else 'list'}",
                     dict(elemType=et, sim=kind))
            simu.Bc_Init()
            call_load(simu, kind, 'add_neumann', nodes, [v], [unknowns[0]])
        F = np.asarray(nvec_of(simu, kind)).reshape(mesh.Nn, ncomp)
        res.case((et, kind, "point"))
        if not (abs(F[:, 0].sum() - v) <= 1e-12 * (1 + v)) or np.abs(np.delete(F, nodes, 0)).max(initial=0) > 0:
            res.fail(f"point load total elem={et}", f"a concentrated load {v} on {len(nodes)} nodes has total {F[:, 0].sum()}", dict(elemType=et, sim=kind))
        if ncomp > 1:
            rname, idim, pred, y0, dirs = regions(dim, a, b, c)[1]
            nodes = np.where(pred(Y))[0]
            pr = rng.randint(1, 8) / 2
            simu.Bc_Init()
            simu.add_pressureLoad(nodes, pr, **({'problemType': simu.ProblemTypes.elastic} if kind == 'phasefield' else {}))
            F = np.asarray(nvec_of(simu, kind)).reshape(mesh.Nn, ncomp)
            F3 = np.zeros(3)
            F3[:ncomp] = F.sum(0)
            G = [A @ d for d in dirs]
            nvec = np.cross(G[0], np.array([0, 0, 1.0])) if dim == 2 else np.cross(G[0], G[1])
            area = np.linalg.norm(nvec) * (thickness if dim == 2 else 1.0)
            nhat = nvec / np.linalg.norm(nvec)
            res.case((et, kind, "pressure"))
            if not (abs(abs(F3 @ nhat) - pr * area) <= 1e-9 * (1 + pr * area)) or not (np.linalg.norm(np.cross(F3, nhat)) <= 1e-9 * (1 + pr * area)):
                res.fail(f"pressure resultant elem={et}", f"pressure {pr} on a planar face of measure {area}: resultant {F3.tolist()}, expected ±{(pr * area * nhat).tolist()}",
                         dict(elemType=et, sim=kind, A=A.tolist(), thickness=thickness))

    # ---------------- a selection spanning several faces (on a prism mesh: a triangulated cap and an adjacent quadrangle face) ----------------
    for et in (["PRISM6", "HEXA8", "TETRA4"] if not thorough else ["PRISM6", "PRISM15", "PRISM18", "HEXA8", "HEXA20", "TETRA4", "TETRA10"]):
        a_, b_, c_ = 2.0, 1.0, 1.5
        meshs = M.mesh_3d(et, a_, b_, c_, 0.75, 2)
        Xs = meshs.coord
        sel = np.unique(np.r_[np.flatnonzero(np.isclose(Xs[:, 2], c_)), np.flatnonzero(np.isclose(Xs[:, 0], a_))])   # top cap + the face x = a
        rs_ = rng_for(args)
        perm = list(sel)
        rs_.shuffle(perm)
        for form in ("constant", "callable"):
            ss_ = Simulations.Elastic(meshs, Models.Elastic.Isotropic(3, E=10.0, v=0.25))
            if form == "constant":
                ss_.add_surfLoad(np.array(perm), [0.75], ["z"])
                wantF = 0.75 * (a_ * b_ + b_ * c_)
                wantMy = -0.75 * (a_ * b_ * a_ / 2 + b_ * c_ * a_)          # M_y = -int x f_z dS about the origin
            else:
                ss_.add_surfLoad(np.array(perm), [lambda x, y, z: 0.5 + x], ["z"])
                wantF = (0.5 * a_ + a_**2 / 2) * b_ + (0.5 + a_) * b_ * c_
                wantMy = -((0.5 * a_**2 / 2 + a_**3 / 3) * b_ + (0.5 + a_) * a_ * b_ * c_)
            Fz = np.asarray(ss_.Bc_vector_Neumann(ss_.problemType) if hasattr(ss_, "Bc_vector_Neumann") else 0).ravel().reshape(-1, 3)
            res.case((et, "cap + side", form))
            res.count("multi-face selection")
            gotF, gotMy = Fz[:, 2].sum(), -(Xs[:, 0] * Fz[:, 2]).sum()
            if not (abs(gotF - wantF) <= 1e-9 * (1 + abs(wantF))) or not (abs(gotMy - wantMy) <= 1e-9 * (1 + abs(wantMy))):
                res.fail(f"surface load on a selection spanning two faces elem={et}", f"{form} load on the top cap and the face x = {a_}: resultant F_z = {gotF}, expected {wantF}; moment M_y = {gotMy}, expected {wantMy}",
                         dict(elemType=et, form=form, selection="nodes with z = c or x = a, shuffled"))

    # ---------------- beams ----------------
    for et in ["SEG2", "SEG3", "SEG4", "SEG5"]:
        for timo in (False, True):
            for bdim in ((2, 3) if thorough or et in ("SEG2", "SEG3") else (2 + (timo ^ (et == "SEG5")),)):
                L = 4.0
                sect = Mesher().Mesh_2D(Domain(Point(), Point(0.5, 0.25)))
                d = np.array([rng.randint(1, 4), rng.randint(-3, 3), rng.randint(-3, 3) if bdim == 3 else 0], dtype=float)
                d = d / np.linalg.norm(d) * L
                pA, pC = Point(0.5, -0.25, 0.0), Point(0.5 + d[0], -0.25 + d[1], d[2])
                beams = [Models.Beam.Isotropic(bdim, Line(pA, pC, L / 3), sect, 1000.0, 0.25)]
                mesh = Mesher().Mesh_Beams(beams, elemType=ElemType(et))
                try:
                    s = Simulations.Beam(mesh, Models.Beam.BeamStructure(beams), useTimoshenko=timo)
                except Exception as ex:  # noqa: BLE001
                    res.fail(f"beam simulation raises timo={timo} dim={bdim}", f"Simulations.Beam raised {type(ex).__name__}: {str(ex)[:120]}", dict(elemType=et, timoshenko=timo, dim=bdim))
                    continue
                X = mesh.coord
                dofn = 3 if bdim == 2 else 6
                unk = ["x", "y"] if bdim == 2 else ["x", "y", "z"]
                for form in ("constant", "callable", "nodal"):
                    deg = 0 if form == "constant" else 1
                    polys = [Poly(rng, deg, bdim) for _ in unk]
                    if form == "constant":
                        for p in polys:
                            p.terms = [(p.terms[0][0], 0, 0, 0)]
                        values = [float(p.terms[0][0]) for p in polys]
                    elif form == "callable":
                        values = list(polys)
                    else:
                        values = [p(X[:, 0], X[:, 1], X[:, 2]) * np.ones(mesh.Nn) for p in polys]
                    s.Bc_Init()
                    ident = dict(beam=et, timoshenko=timo, dim=bdim, form=form, direction=d.tolist(), density=[repr(p) for p in polys])
                    try:
                        s.add_lineLoad(mesh.nodes, values, unk)
                        F = np.asarray(s.Bc_vector_Neumann()).reshape(mesh.Nn, dofn)
                    except Exception as ex:  # noqa: BLE001
                        res.fail(f"beam load raises form={form}", f"Beam.add_lineLoad raised {type(ex).__name__}: {str(ex)[:150]}", ident)
                        continue
                    res.case(("beam", et, timo, bdim, form))
                    res.count("beam")
                    A0, t0 = np.eye(3), np.zeros(3)
                    y0 = np.array([0.5, -0.25, 0.0])
                    qfun = lambda x: np.array([p(x[0], x[1], x[2]) for p in polys] + [0.0] * (3 - len(unk)))  # noqa: E731
                    want_R = ref_integral(qfun, y0, [d], A0, t0)
                    F3 = np.zeros((mesh.Nn, 3))
                    F3[:, :len(unk)] = F[:, :len(unk)]
                    got_R = F3.sum(0)
                    if not (np.abs(got_R - want_R).max() <= 1e-9 * (1 + np.abs(want_R).max())):
                        res.fail(f"beam resultant timo={timo} dim={bdim} form={form}", f"Σ nodal forces = {got_R.tolist()} but ∫ density = {want_R.tolist()}", ident)
                        continue
                    Mn = np.zeros(3)
                    if bdim == 2:
                        Mn[2] = F[:, 2].sum()
                    else:
                        Mn = F[:, 3:6].sum(0)
                    got_M = cross_moment(X, F3) + Mn
                    want_M = ref_integral(lambda x: np.cross(x, qfun(x)), y0, [d], A0, t0)
                    if not (np.abs(got_M - want_M).max() <= 1e-9 * (1 + np.abs(want_M).max())):
                        res.fail(f"beam moment timo={timo} dim={bdim} form={form}", f"moment of nodal forces and couples about the origin = {got_M.tolist()} but the moment of the density = {want_M.tolist()}", ident)

    # ---------------- loads added after the mesh has moved, on a simulation that integrated loads before ----------------
    # [load on an edge / face, mesh.Translate or Rotate, a load given as a function of position on the same edge / face]: the density is
    # evaluated where the Gauss points are NOW.
    for et in (["TRI3", "QUAD8", "HEXA8"] if not thorough else ["TRI3", "TRI6", "QUAD4", "QUAD8", "TETRA4", "HEXA8", "PRISM6"]):
        dimv = M.dim_of(et)
        for mover in ("translate", "rotate quarter turn"):
            meshv = M.mesh_2d(et, 2.0, 1.0, 0.5) if dimv == 2 else M.mesh_3d(et, 2.0, 1.0, 1.5, 0.75, 2)
            thv = 0.5 if dimv == 2 else 1.0
            simv = Simulations.Elastic(meshv, Models.Elastic.Isotropic(dimv, E=10.0, v=0.25, **({"thickness": thv} if dimv == 2 else {})))
            selv = meshv.Nodes_Conditions(lambda x, y, z: x == 2.0)              # the edge / face x = 2 (length 1, or area 1 x 1.5)
            identV = dict(elemType=et, ops=["add_surfLoad(face x = 2, [1.0], ['x'])", mover, "add_surfLoad(same nodes, [lambda x, y, z: x + 2 y], ['y'])"], thickness=thv)
            res.case(("load after a move", et, mover))
            try:
                simv.add_surfLoad(selv, [1.0], ["x"])
                f0 = np.asarray(simv.Bc_vector_Neumann()).reshape(-1, dimv).sum(axis=0).copy()
                simv.Bc_Init()
                if mover == "translate":
                    meshv.Translate(0.0, 5.0, 0.0)
                    # the face is now x = 2, y in [5, 6]: integral of x + 2 y = (2 + 11) * measure
                    wantv = 13.0 * (1.0 if dimv == 2 else 1.5) * thv
                else:
                    meshv.Rotate(90.0, (0.0, 0.0, 0.0), (0.0, 0.0, 1.0))
                    # (x, y) -> (-y, x): the face is now y = 2, x in [-1, 0]: integral of x + 2 y = (-1/2 + 4) * measure
                    wantv = 3.5 * (1.0 if dimv == 2 else 1.5) * thv
                simv.add_surfLoad(selv, [lambda x, y, z: x + 2 * y], ["y"])
                fv = np.asarray(simv.Bc_vector_Neumann()).reshape(-1, dimv).sum(axis=0)
            except Exception as ex:  # noqa: BLE001
                res.fail(f"load after a move raises elem={et}", f"{type(ex).__name__}: {str(ex)[:200]}", identV)
                continue
            if not (abs(f0[0] - (1.0 if dimv == 2 else 1.5) * thv) <= 1e-9):
                res.fail(f"surface load resultant elem={et}", f"unit load on the face x = 2: resultant {f0[0]!r}", identV)
            if not (abs(fv[1] - wantv) <= 1e-9 * (1 + abs(wantv))):
                res.fail(f"load given as a function of position after the mesh moved ({mover}) elem={et}",
                         f"resultant {fv[1]!r} of the density x + 2 y on the moved face, expected {wantv!r} (the density evaluated at the positions before the move gives another value)", identV)

    # ---------------- merged meshes: a load on the common boundary of the two parts ----------------
    from EasyFEA.FEM import Mesh as _Mesh
    # (element types whose translated copy meets the first block in a CONFORMING interface: an unstructured tetrahedral mesh does not - the
    # triangulation of its face x = 1 is not the translate of the one of its face x = 0 -, and the merged mesh then rightly keeps both sets of triangles)
    for et in (["TRI3", "QUAD8", "HEXA8"] if not thorough else ["TRI3", "TRI6", "QUAD4", "QUAD8", "HEXA8", "PRISM6"]):
        dimm = M.dim_of(et)
        identM = dict(elemType=et, mesh="Mesh.Merge of the block [0, 1] x [0, 1] (x [0, 1.5]) and its translate by (1, 0, 0)", load="add_surfLoad(nodes on x = 1, [0.5 + y], ['x'])")
        res.case(("merged-mesh interface load", et))
        try:
            mA = M.mesh_2d(et, 1.0, 1.0, 0.5) if dimm == 2 else M.mesh_3d(et, 1.0, 1.0, 1.5, 0.75, 2)
            mB = mA.copy()
            mB.Translate(1.0, 0.0, 0.0)
            mm = _Mesh.Merge([mA, mB])
            simm = Simulations.Elastic(mm, Models.Elastic.Isotropic(dimm, E=10.0, v=0.25))
            selm = mm.Nodes_Conditions(lambda x, y, z: np.isclose(x, 1.0))
            simm.add_surfLoad(selm, [lambda x, y, z: 0.5 + y], ["x"])
            Fm = np.asarray(simm.Bc_vector_Neumann()).reshape(-1, dimm)
            gotm = Fm[:, 0].sum()
            gotMz = -(mm.coord[:, 1] * Fm[:, 0]).sum()
            hz = 1.0 if dimm == 2 else 1.5
            wantm, wantMz = 1.0 * hz, -(0.25 + 1.0 / 3.0) * hz
            used = np.unique(np.concatenate([g.connect.ravel() for g in mm.Get_list_groupElem(dimm)]))
        except Exception as ex:  # noqa: BLE001
            res.fail(f"merged mesh: interface load raises elem={et}", f"{type(ex).__name__}: {str(ex)[:200]}", identM)
            continue
        if not (abs(gotm - wantm) <= 1e-9) or not (abs(gotMz - wantMz) <= 1e-9):
            res.fail(f"merged mesh: load on the common boundary elem={et}", f"resultant {gotm!r} (expected {wantm!r}), moment about z {gotMz!r} (expected {wantMz!r}): "
                     f"the interface carries {sum(int(g.Ne) for g in mm.Get_list_groupElem(dimm - 1))} boundary elements in all groups of dimension {dimm - 1}", dict(identM, Nn=int(mm.Nn), used=int(used.size)))

    # ---------------- curved boundaries: the loaded region is the curve the boundary elements interpolate, not its chords ----------------
    # a disc meshed with 6- / 8- / 10-node elements: the boundary is a ring of SEG3 / SEG4 elements whose inner nodes lie on the circle.
    # The resultant of a unit traction is the length of that interpolated curve (computed here from the group's own shape derivative
    # tables, proved in C06, with a 10-point rule on |dx/dr|), its first moments likewise; the area of the same mesh follows the curve.
    from EasyFEA.Geoms import Circle as _Circle
    for et in (["TRI6", "QUAD8", "TRI10"] if thorough else ["TRI6", "QUAD8"]):
        identC = dict(elemType=et, region="circle of diameter 2 centred at (0.5, -0.25), mesh size 0.6", load="add_surfLoad(boundary nodes, [1.0], ['x']) and [x] on 'y'", thickness=0.5)
        res.case(("curved-boundary", et))
        try:
            circ = _Circle(Point(0.5, -0.25), 2.0, 0.6)
            meshC = Mesher().Mesh_2D(circ, [], ElemType(et))
            gB = meshC.Get_list_groupElem(1)[0]
            XB = meshC.coord[gB.connect]
            xi, wi = np.polynomial.legendre.leggauss(10)
            dNB = np.array([[f(x_) for f in np.asarray(gB._dN()).ravel()] for x_ in xi])
            NB = np.array([[f(x_) for f in np.asarray(gB._N()).ravel()] for x_ in xi])
            tB = np.einsum("pn,enj->epj", dNB, XB)
            xB = np.einsum("pn,enj->epj", NB, XB)
            ds = np.linalg.norm(tB, axis=2) * wi
            Lc, Mx = float(ds.sum()), float((ds * xB[..., 0]).sum())
            chord = float(np.linalg.norm(XB[:, 1] - XB[:, 0], axis=1).sum())
            simC = Simulations.Elastic(meshC, Models.Elastic.Isotropic(2, thickness=0.5))
            nodesC = meshC.Nodes_Circle(circ)
            simC.add_surfLoad(nodesC, [1.0], ["x"])
            simC.add_surfLoad(nodesC, [lambda x, y, z: x], ["y"])
            fC = np.asarray(simC.Bc_vector_Neumann()).reshape(-1, 2).sum(axis=0)
        except Exception as ex:  # noqa: BLE001
            res.fail(f"curved boundary raises elem={et}", f"{type(ex).__name__}: {str(ex)[:200]}", identC)
            continue
        wantC = np.array([0.5 * Lc, 0.5 * Mx])
        if not (Lc - chord > 1e-3):
            res.disagree("vacuous", dict(identC, note="the boundary elements are not curved"))
        if not (np.abs(fC - wantC).max() <= 2e-6 * abs(wantC[0])):
            res.fail(f"curved boundary: resultant of a distributed load elem={et}",
                     f"unit traction (thickness 0.5) on the boundary of a disc meshed with {et}: resultant {fC[0]!r}, thickness x length of the interpolated boundary = {wantC[0]!r} "
                     f"(thickness x sum of the chords = {0.5 * chord!r}); traction x on 'y': {fC[1]!r}, expected {wantC[1]!r}", dict(identC, boundary=gB.elemType.name))

    # ---------------- a warped 4-node face: the loaded region is the bilinear surface the face interpolates ----------------
    # (boundary faces of hexahedra with moved nodes, quadrangle meshes of curved surfaces): resultant of a unit traction = area of the
    # bilinear patch (12 x 12 Gauss points on |dx/dr x dx/ds|), not the area of its projection on a plane
    from EasyFEA.FEM import Mesh as _MeshW
    from EasyFEA.FEM._group_elem import GroupElemFactory as _GEFW
    for lift in ((0.6,) if not thorough else (0.6, -0.3, 1.0)):
        identW = dict(elemType="QUAD4 face of one HEXA8", lift=lift, load="add_surfLoad(nodes of the top face, [1.0], ['z'])")
        res.case(("warped face", lift))
        try:
            XW = np.array([[0, 0, 0], [1, 0, 0], [1, 1, 0], [0, 1, 0], [0, 0, 1], [1, 0, 1], [1, 1, 1 + lift], [0, 1, 1]], float)
            hexW = _GEFW.Create(ElemType.HEXA8, np.array([[0, 1, 2, 3, 4, 5, 6, 7]]), XW)
            topW = _GEFW.Create(ElemType.QUAD4, np.array([[4, 5, 6, 7]]), XW)
            meshW = _MeshW({ElemType.HEXA8: hexW, ElemType.QUAD4: topW})
            simW = Simulations.Elastic(meshW, Models.Elastic.Isotropic(3, E=10.0, v=0.25))
            simW.add_surfLoad(np.array([4, 5, 6, 7]), [1.0], ["z"])
            gotW = float(np.asarray(simW.Bc_vector_Neumann()).reshape(-1, 3)[:, 2].sum())
            xiW, wW = np.polynomial.legendre.leggauss(12)
            P4 = XW[[4, 5, 6, 7]]
            areaW = 0.0
            for a_, wa_ in zip(xiW, wW):
                for b_, wb_ in zip(xiW, wW):
                    dNr = np.array([-(1 - b_), (1 - b_), (1 + b_), -(1 + b_)]) / 4
                    dNs = np.array([-(1 - a_), -(1 + a_), (1 + a_), (1 - a_)]) / 4
                    areaW += wa_ * wb_ * np.linalg.norm(np.cross(dNr @ P4, dNs @ P4))
        except Exception as ex:  # noqa: BLE001
            res.fail("warped face raises", f"{type(ex).__name__}: {str(ex)[:200]}", identW)
            continue
        # the 'mass' rule of QUAD4 (2 x 2 points) integrates |dx/dr x dx/ds| of this patch to about 1e-4; the projection is off by 1e-1
        if not (abs(gotW - areaW) <= 2e-3 * areaW):
            res.fail("warped 4-node face: resultant of a distributed load", f"unit traction on the top face of a hexahedron whose corner is lifted by {lift}: resultant {gotW!r}, area of the bilinear face {areaW!r} "
                     f"(area of its projection on the plane of its first corners: 1.0)", identW)

    # ---------------- intensities owned by the caller: one array / function object given for several components, and given again in a second load case ----------------
    # (`f = ...; simu.add_neumann(nodes, [f, f], ["x", "y"])`, then the same f in the next load case.) Every component and every load case
    # must receive the forces of the intensity the caller wrote down: for a concentrated load value_i / N on selected node i, for a distributed
    # load the nodal forces a fresh simulation produces from a fresh copy of the values on one component.
    sh_types = (types2 + types3) if thorough else ["TRI3", "QUAD8", "TETRA4", "HEXA8"]
    for ksh, et in enumerate(sh_types):
        dim = M.dim_of(et)
        mesh = M.mesh_2d(et, a, b, 1.0) if dim == 2 else M.mesh_3d(et, a, b, c, 1.0, 2)
        X = mesh.coord
        thickness = 0.5 if dim == 2 else 1.0
        for kind in ["elastic", "thermal" if ksh % 2 == 0 else "phasefield"]:
            try:
                simu, ncomp = build_sim(kind, mesh, thickness)
            except Exception as ex:  # noqa: BLE001
                res.fail(f"simulation cannot be built sim={kind}", f"{kind} on {et}: {type(ex).__name__}: {str(ex)[:120]}", dict(sim=kind, elemType=et))
                continue
            unknowns = UNK[ncomp] if ncomp > 1 else ["t"]
            regs = regions(dim, a, b, c)
            todo = [("add_neumann", regs[1]), ("add_neumann", regs[-1])]
            for reg in regs:
                todo += [(fn, reg) for fn in {1: ["add_lineLoad"] + (["add_surfLoad"] if dim == 2 else []), 2: ["add_volumeLoad"] if dim == 2 else ["add_surfLoad"], 3: ["add_volumeLoad"]}[reg[1]]]
            for (fname, (rname, idim, pred, y0, dirs)) in todo:
                nodes = np.where(pred(X))[0]
                nodes = nodes[np.array(rng.sample(range(len(nodes)), len(nodes)), dtype=int)]
                p = Poly(rng, 1, dim)
                for form in ("nodal float array", "nodal integer array", "callable"):
                    if form == "nodal float array":
                        val = np.array(p(X[nodes, 0], X[nodes, 1], X[nodes, 2]) * np.ones(len(nodes)), dtype=float)
                    elif form == "nodal integer array":
                        val = np.array([rng.randint(-3, 3) for _ in nodes], dtype=np.int64)
                    else:
                        val = p
                    keep = None if form == "callable" else val.copy()
                    vn = np.array(p(X[nodes, 0], X[nodes, 1], X[nodes, 2]) * np.ones(len(nodes)), dtype=float) if keep is None else keep.astype(float)
                    ident = dict(elemType=et, sim=kind, load=fname, region=rname, form=form, density=repr(p) if form != "nodal integer array" else keep.tolist(),
                                 thickness=thickness, nodes=[int(n) for n in nodes[:40]])
                    # what one component must receive
                    if fname == "add_neumann":
                        w = np.zeros(mesh.Nn)
                        np.add.at(w, nodes, vn / len(nodes))
                    else:
                        try:
                            s2, _ = build_sim(kind, mesh, thickness)
                            call_load(s2, kind, fname, nodes.copy(), [p if keep is None else vn.copy()], [unknowns[0]])
                            w = np.asarray(nvec_of(s2, kind)).reshape(mesh.Nn, ncomp)[:, 0].copy()
                        except Exception as ex:  # noqa: BLE001
                            res.fail(f"load raises {fname} elem={et} form={form}", f"{fname} raised {type(ex).__name__}: {str(ex)[:150]}", ident)
                            continue
                    tol = 1e-12 * (1 + np.abs(w).max())
                    res.count("shared intensity object")
                    ok = True
                    for case_, vals_, unk_ in (("the same object for every component", [val] * ncomp, unknowns),
                                               ("the same object again in a second load case", [val], [unknowns[-1]])):
                        simu.Bc_Init()
                        try:
                            call_load(simu, kind, fname, nodes, vals_, unk_)
                            F = np.asarray(nvec_of(simu, kind)).reshape(mesh.Nn, ncomp)
                        except Exception as ex:  # noqa: BLE001
                            res.fail(f"load raises {fname} elem={et} form={form}", f"{fname} ({case_}) raised {type(ex).__name__}: {str(ex)[:150]}", dict(ident, case=case_))
                            ok = False
                            break
                        res.case((et, kind, fname, rname, form, case_))
                        want = np.zeros((mesh.Nn, ncomp))
                        for u_ in unk_:
                            want[:, unknowns.index(u_)] = w
                        err = np.abs(F - want).max(initial=0)
                        if not (err <= tol):
                            kbad = int(np.argmax(np.abs(F - want).max(0)))
                            res.fail(f"shared intensity {fname} form={form}", f"{case_}: component {unknowns[kbad]!r} has resultant {F[:, kbad].sum()} (expected {want[:, kbad].sum()}), "
                                     f"largest nodal difference {err}", dict(ident, case=case_))
                            ok = False
                            break
                    if ok and keep is not None and not np.array_equal(val, keep):
                        res.fail(f"caller's intensity array modified {fname}", f"the array of nodal intensities given to {fname} was changed in place (largest change {np.abs(val - keep).max()})", ident)

    answers = driver.ask(lines)
    if answers is None:
        res.disagree("driver", "model driver does not run: " + getattr(driver, "error", "")[:400])
    else:
        for (kind, factor, real, ident), ans in zip(expect, answers):
            res.traces += 1
            if kind == "select":
                got = [int(x) for x in ans.split()] if ans.strip() else []
                if got != real:
                    res.disagree("exclusive-selection", dict(ident, model=got[:12], real=real[:12]))
            else:
                try:
                    f = np.array([float(parse_frac(x)) for x in ans.split()]) * factor
                except Exception:  # noqa: BLE001
                    res.disagree("element-load", dict(ident, model=ans[:80]))
                    continue
                if f.shape != real.shape or not (np.abs(f - real).max() <= 1e-11 * (1 + np.abs(real).max())):
                    res.disagree("element-load", dict(ident, model=f.tolist(), real=real.tolist()))
    res.search_note = "resultants, moments, thickness factors, selections, point loads and pressure resultants all match on the sampled meshes"
    res.write("affine images of rectangle / box meshes of every 2D / 3D element type, loads on edges, faces and the whole domain through add_lineLoad / add_surfLoad / add_volumeLoad / "
              "add_pressureLoad / add_neumann, densities constant / polynomial callable / nodal array (degree ≤ element order), random thickness, stray nodes, "
              "one intensity object (float / integer nodal array, function) shared by several components and reused in a second load case, "
              "Elastic / Thermal / PhaseField / HyperElastic simulations, Euler-Bernoulli and Timoshenko beams in 2D and 3D; distinct = distinct (element type, simulation, loader, region, form)")


if __name__ == "__main__":
    from tools.harness._common import run

    run(main)
