"""C14 harness: random sequences of public modifications on real simulations; at every read the
matrices, the solution and a result are compared with a simulation built from scratch in the final
configuration; after every operation the `needUpdate` flag is compared with the Lean state machine."""

from __future__ import annotations

import warnings

import numpy as np

from tools.harness._common import Driver, Result, parse_args, rng_for
from tools.harness import _meshes as M

from EasyFEA import Models, Simulations, AlgoType


def dy(rng, lo, hi, den=8):
    return rng.randint(int(lo * den), int(hi * den)) / den


class Cfg:
    """final configuration, replayable on fresh objects"""

    def __init__(self, kind, et):
        self.kind, self.et = kind, et
        self.meshes = [dict(h=1.0, transforms=[])]
        self.cur = 0
        self.params = dict(E=8.0, v=0.25, thickness=1.0, k=2.0, c=1.0)
        self.rho = 1.0
        self.rayleigh = (0.0, 0.0)
        self.algo = None
        self.bc = None


def gen_mesh(et, h):
    return M.mesh_2d(et, a=2.0, b=1.0, h=h)


def apply_transform(mesh, t):
    k = t[0]
    if k == "translate":
        mesh.Translate(t[1], t[2])
    elif k == "rotate":
        mesh.Rotate(t[1], (t[2], t[3], 0), (0, 0, 1))
    elif k == "symmetry":
        mesh.Symmetry((t[1], t[2], 0), (t[3], t[4], 0))
    elif k == "coord":
        A = np.eye(3)
        A[0, 0], A[0, 1], A[1, 0], A[1, 1] = t[1:5]
        mesh.coord = mesh.coord @ A.T
    else:
        raise ValueError(k)


def make_model(cfg):
    p = cfg.params
    if cfg.kind == "thermal":
        return Models.Thermal(p["k"], p["c"], thickness=p["thickness"]) if True else None
    return Models.Elastic.Isotropic(2, E=p["E"], v=p["v"], planeStress=True, thickness=p["thickness"])


def make_sim(cfg, mesh, model):
    if cfg.kind == "thermal":
        return Simulations.Thermal(mesh, model)
    return Simulations.Elastic(mesh, model)


def apply_bc(simu, mesh, bc):
    simu.Bc_Init()
    if bc is None:
        return
    c = mesh.coord
    # selections by extreme coordinate along a stored direction (invariant under the rigid motions used)
    unk = simu.Get_unknowns()
    left = np.array(bc["left_nodes"])
    right = np.array(bc["right_nodes"])
    simu.add_dirichlet(left, [bc["dval"]] * len(unk), unk)
    simu.add_neumann(right, [bc["load"]] * len(unk), unk)


def set_algo(simu, cfg):
    a = cfg.algo
    if a is None:
        simu.Solver_Set_Elliptic_Algorithm()
    elif a[0] == "parabolic":
        simu.Solver_Set_Parabolic_Algorithm(a[1], a[2])
    else:
        simu.Solver_Set_Hyperbolic_Algorithm(a[1], AlgoType(a[0]), a[2], a[3], a[4])


def fresh(cfg):
    m = cfg.meshes[cfg.cur]
    mesh = gen_mesh(cfg.et, m["h"])
    for t in m["transforms"]:
        apply_transform(mesh, t)
    model = make_model(cfg)
    simu = make_sim(cfg, mesh, model)
    simu.rho = cfg.rho
    if cfg.kind == "elastic":
        simu.Set_Rayleigh_Damping_Coefs(*cfg.rayleigh)
    set_algo(simu, cfg)
    apply_bc(simu, mesh, cfg.bc)
    return simu, mesh


def main():
    args = parse_args()
    rng = rng_for(args)
    res = Result(args)
    driver = Driver("C14")
    warnings.filterwarnings("ignore")
    nhist = 10 if args.tier == "quick" else 40
    nops = 14 if args.tier == "quick" else 20
    if args.search:
        nhist, nops = 20, 12
    lines, expect = [], []

    for h in range(nhist):
        kind = "thermal" if h % 3 == 2 else "elastic"
        et = rng.choice(["TRI3", "QUAD4", "TRI6"])
        cfg = Cfg(kind, et)
        mesh0 = gen_mesh(et, 1.0)
        meshes = [mesh0]
        model = make_model(cfg)
        simu = make_sim(cfg, mesh0, model)
        simu.rho = cfg.rho
        ops_txt, model_ops, flags = [], [], []

        def note(tok, desc):
            model_ops.append(tok)
            ops_txt.append(desc)
            flags.append(bool(simu.needUpdate))

        note("setParam", "construct + rho")  # construction leaves the flag raised, like setParam
        def do_read(k):
            Ks = [A.toarray() for A in simu.Get_K_C_M_F()]
            note("read", "Get_K_C_M_F")
            fs, fm = fresh(cfg)
            Kf = [A.toarray() for A in fs.Get_K_C_M_F()]
            ident = dict(history=h, sim=kind, elemType=et, ops=list(ops_txt))
            res.case((h, k, "matrices"))
            bad = [n for n, a, b in zip("KCMF", Ks, Kf) if a.shape != b.shape or not (np.abs(a - b).max() <= 1e-9 * (1 + np.abs(b).max()))]
            if bad:
                res.fail(f"stale matrices sim={kind}", f"after the history, {bad} differ from those of a simulation built in the final configuration", ident)
                return
            if cfg.bc is not None and cfg.algo is None:
                try:
                    u = np.asarray(simu.Solve()).copy()
                    uf = np.asarray(fs.Solve()).copy()
                except Exception as ex:  # noqa: BLE001
                    res.fail(f"solve raises sim={kind}", f"Solve() raised {type(ex).__name__}: {str(ex)[:100]}", ident)
                    return
                note("read", "Solve")
                res.case((h, k, "solution"))
                if u.shape != uf.shape or not (np.abs(u - uf).max() <= 1e-8 * (1 + np.abs(uf).max())):
                    res.fail(f"stale solution sim={kind}", f"solution differs from the fresh simulation's by {np.abs(u - uf).max() if u.shape == uf.shape else 'shape'}", ident)
                if kind == "elastic":
                    r1 = np.asarray(simu.Result("Svm", nodeValues=False))
                    r2 = np.asarray(fs.Result("Svm", nodeValues=False))
                    res.case((h, k, "result"))
                    if r1.shape != r2.shape or not (np.abs(r1 - r2).max() <= 1e-7 * (1 + np.abs(r2).max())):
                        res.fail("stale result sim=elastic", "Result('Svm') differs from the fresh simulation's", ident)

        for k in range(nops):
            choices = ["param", "rho", "move", "move", "coord", "replace", "bc", "read", "read", "algo"]
            if kind == "elastic":
                choices.append("rayleigh")
            if len(meshes) > 1:
                choices.append("moveOld")
            op = rng.choice(choices)
            mesh = meshes[cfg.cur]
            if op == "param":
                if kind == "thermal":
                    name = rng.choice(["k", "c"])
                else:
                    name = rng.choice(["E", "v", "thickness"])
                val = dict(E=dy(rng, 2, 12), v=rng.choice([0.125, 0.25, 0.375]), thickness=rng.choice([0.5, 1.0, 2.0]), k=dy(rng, 1, 4), c=dy(rng, 1, 4))[name]
                setattr(model, name, val)
                cfg.params[name] = val
                note("setParam", f"model.{name} = {val}")
            elif op == "rho":
                cfg.rho = dy(rng, 0.5, 3)
                simu.rho = cfg.rho
                note("setParam", f"simu.rho = {cfg.rho}")
            elif op == "rayleigh":
                cfg.rayleigh = (rng.choice([0.0, 0.25]), rng.choice([0.0, 0.125]))
                simu.Set_Rayleigh_Damping_Coefs(*cfg.rayleigh)
                note("setParam", f"Rayleigh {cfg.rayleigh}")
            elif op in ("move", "moveOld", "coord"):
                target = cfg.cur if op != "moveOld" else rng.choice([i for i in range(len(meshes)) if i != cfg.cur])
                if op == "coord":
                    t = ("coord", rng.choice([1.0, 2.0, 0.5]), rng.choice([0.0, 0.25]), 0.0, rng.choice([1.0, 1.5]))
                else:
                    t = rng.choice([("translate", dy(rng, -2, 2), dy(rng, -2, 2)), ("rotate", rng.choice([30.0, 90.0, 45.0, 17.0]), dy(rng, -1, 1), dy(rng, -1, 1)),
                                    ("symmetry", dy(rng, -1, 1), dy(rng, -1, 1), rng.choice([1.0, 0.0, 0.6]), rng.choice([0.0, 1.0, 0.8]))])
                    if t[0] == "symmetry" and t[3] == 0.0 and t[4] == 0.0:
                        t = ("symmetry", 0.0, 0.0, 1.0, 0.0)
                apply_transform(meshes[target], t)
                cfg.meshes[target]["transforms"].append(t)
                note(f"move {target}", f"mesh[{target}].{t}")
            elif op == "replace":
                hh = rng.choice([1.0, 0.5])
                newm = gen_mesh(et, hh)
                meshes.append(newm)
                cfg.meshes.append(dict(h=hh, transforms=[]))
                cfg.cur = len(meshes) - 1
                simu.mesh = newm
                cfg.bc = None  # the mesh setter re-initialises the boundary conditions
                note("replace", f"simu.mesh = new mesh (h={hh})")
            elif op == "bc":
                c = meshes[cfg.cur].coord
                d = c[:, 0] * 0.8 + c[:, 1] * 0.6
                left = np.where(d <= np.sort(d)[2])[0]
                right = np.where(d >= np.sort(d)[-2])[0]
                cfg.bc = dict(left_nodes=left.tolist(), right_nodes=right.tolist(), dval=dy(rng, -1, 1), load=dy(rng, -2, 2))
                apply_bc(simu, meshes[cfg.cur], cfg.bc)
                note("bcO", "Bc_Init + add_dirichlet + add_neumann")
            elif op == "algo":
                if kind == "thermal":
                    cfg.algo = rng.choice([None, ("parabolic", 0.25, 0.5), ("parabolic", 0.5, 1.0)])
                else:
                    cfg.algo = rng.choice([None, ("newmark", 0.25, 0.25, 0.5, 0.0), ("midpoint", 0.5, 0.25, 0.5, 0.5), ("hht", 0.25, 0.3025, 0.6, 0.1)])
                set_algo(simu, cfg)
                note("algo", f"algorithm {cfg.algo}")
            else:  # read
                do_read(k)
        # always finish with boundary conditions, the static scheme and a read
        c = meshes[cfg.cur].coord
        d = c[:, 0] * 0.8 + c[:, 1] * 0.6
        cfg.bc = dict(left_nodes=np.where(d <= np.sort(d)[2])[0].tolist(), right_nodes=np.where(d >= np.sort(d)[-2])[0].tolist(), dval=dy(rng, -1, 1), load=dy(rng, -2, 2))
        apply_bc(simu, meshes[cfg.cur], cfg.bc)
        note("bcO", "Bc_Init + add_dirichlet + add_neumann")
        cfg.algo = None
        set_algo(simu, cfg)
        note("algo", "elliptic")
        do_read(nops)
        lines.append(" ".join(model_ops))
        expect.append((h, kind, list(ops_txt), flags))
        res.count("history:" + kind)
        res.sample(dict(history=h, sim=kind, ops=ops_txt[:8]))

    # ---------------- systematic pass: [read, one modification, read] for every kind of modification ----------------
    def compare(simu, cfg, ident, tag):
        Ks = [A.toarray() for A in simu.Get_K_C_M_F()]
        fs, _ = fresh(cfg)
        Kf = [A.toarray() for A in fs.Get_K_C_M_F()]
        res.case(("single", ident["sim"], ident["elemType"], tag))
        bad = [n for n, a, b in zip("KCMF", Ks, Kf) if a.shape != b.shape or not (np.abs(a - b).max() <= 1e-9 * (1e-300 + np.abs(b).max()))]
        if bad:
            res.fail(f"stale after {tag} sim={ident['sim']}", f"[read, {tag}, read]: {bad} differ from those of a simulation built in the final configuration", dict(ident, modification=tag))

    for kind in ("elastic", "thermal"):
        for et in (["TRI3", "QUAD4"] if args.tier == "quick" else ["TRI3", "QUAD4", "TRI6", "QUAD8"]):
            mods = ["thickness", "rho", "rho-tiny", "translate", "rotate", "symmetry", "coord", "replace"]
            mods += ["E", "v", "E-tiny-change", "rayleigh", "rayleigh-off", "E-array-in-place", "rho-array-in-place"] if kind == "elastic" else ["k", "c", "c-tiny", "k-array-in-place", "rho-array-in-place"]
            for mod in mods:
                cfg = Cfg(kind, et)
                mesh = gen_mesh(et, 1.0)
                model = make_model(cfg)
                simu = make_sim(cfg, mesh, model)
                if mod == "rho-tiny":
                    cfg.rho = 7.85e-9
                if mod == "c-tiny":
                    cfg.params["c"] = 4e-9
                    model.c = 4e-9
                simu.rho = cfg.rho
                arr_ = None
                if mod.endswith("array-in-place"):
                    # a per-element array owned by the caller, edited in place and assigned again (the same object) after a read
                    pn_ = mod.split("-")[0]
                    arr_ = np.array([1.0 + 0.25 * (i % 3) for i in range(mesh.Ne)]) * (cfg.params[pn_] if pn_ != "rho" else 1.0)
                    if pn_ == "rho":
                        simu.rho = arr_
                    else:
                        setattr(model, pn_, arr_)
                if mod == "rayleigh-off":
                    simu.Set_Rayleigh_Damping_Coefs(0.25, 0.125)
                simu.Get_K_C_M_F()
                if arr_ is not None:
                    arr_ *= 1.5
                    arr_[0] *= 2.0
                    if pn_ == "rho":
                        simu.rho = arr_
                        cfg.rho = arr_.copy()
                    else:
                        setattr(model, pn_, arr_)
                        cfg.params[pn_] = arr_.copy()
                elif mod == "rayleigh-off":
                    cfg.rayleigh = (0.0, 0.0)
                    simu.Set_Rayleigh_Damping_Coefs(0.0, 0.0)
                elif mod in ("E", "v", "thickness", "k", "c"):
                    val = dict(E=5.0, v=0.375, thickness=2.0, k=3.5, c=2.5)[mod]
                    setattr(model, mod, val)
                    cfg.params[mod] = val
                elif mod == "E-tiny-change":
                    val = cfg.params["E"] * (1 + 2.0 ** -20)
                    model.E = val
                    cfg.params["E"] = val
                elif mod == "c-tiny":
                    model.c = 9e-9
                    cfg.params["c"] = 9e-9
                elif mod == "rho":
                    cfg.rho = 2.5
                    simu.rho = cfg.rho
                elif mod == "rho-tiny":
                    cfg.rho = 2.7e-9
                    simu.rho = cfg.rho
                elif mod == "rayleigh":
                    cfg.rayleigh = (0.25, 0.125)
                    simu.Set_Rayleigh_Damping_Coefs(*cfg.rayleigh)
                elif mod in ("translate", "rotate", "symmetry", "coord"):
                    t = dict(translate=("translate", 1.5, -0.5), rotate=("rotate", 30.0, 0.5, 0.25), symmetry=("symmetry", 0.25, 0.0, 0.6, 0.8),
                             coord=("coord", 2.0, 0.25, 0.0, 1.5))[mod]
                    apply_transform(mesh, t)
                    cfg.meshes[0]["transforms"].append(t)
                elif mod == "replace":
                    newm = gen_mesh(et, 0.5)
                    cfg.meshes.append(dict(h=0.5, transforms=[]))
                    cfg.cur = 1
                    simu.mesh = newm
                    simu.Get_K_C_M_F()
                    t = ("coord", 2.0, 0.0, 0.0, 2.0)
                    apply_transform(newm, t)
                    cfg.meshes[1]["transforms"].append(t)
                compare(simu, cfg, dict(sim=kind, elemType=et), mod)

    # ---------------- a saved simulation: restore an iteration living on an earlier mesh (read back from the disk), then move that mesh ----------------
    import shutil
    import tempfile
    for kind_ in ("elastic", "thermal"):
        tmpd = tempfile.mkdtemp(prefix="c14save_")
        ident = dict(sim=kind_, history="solve on mesh 1, simu.mesh = mesh 2, solve, Save(folder), Set_Iter(0), read, mesh.Rotate(30 deg), read")
        res.case(("saved-mesh-moved", kind_))
        res.count("saved-mesh-moved")
        try:
            mk_law = (lambda: Models.Elastic.Isotropic(2, E=10.0, v=0.25, planeStress=True, thickness=0.5)) if kind_ == "elastic" else (lambda: Models.Thermal(2.0, 1.0, thickness=0.5))
            Sim_ = Simulations.Elastic if kind_ == "elastic" else Simulations.Thermal
            m1_, m2_ = M.mesh_2d("TRI3", 2.0, 1.0, 0.5), M.mesh_2d("TRI3", 2.0, 1.0, 0.4)
            sv_ = Sim_(m1_, mk_law())
            unk_ = sv_.Get_unknowns()
            for mm_, val_ in ((m1_, 0.1), (m2_, 0.2)):
                if mm_ is not m1_:
                    sv_.mesh = mm_
                sv_.Bc_Init()
                sv_.add_dirichlet(mm_.Nodes_Conditions(lambda x, y, z: x == 0), [0.0] * len(unk_), unk_)
                sv_.add_dirichlet(mm_.Nodes_Conditions(lambda x, y, z: x == 2.0), [val_], unk_[:1])
                sv_.Solve()
                sv_.Save_Iter()
            sv_.Save(tmpd)
            sv_.Set_Iter(0)
            sv_.Get_K_C_M_F()
            sv_.mesh.Rotate(30.0, (0.0, 0.0, 0.0), (0, 0, 1))
            got_ = [A_.toarray() for A_ in sv_.Get_K_C_M_F()[:3]]
            ref_ = [A_.toarray() for A_ in Sim_(sv_.mesh.copy(), mk_law()).Get_K_C_M_F()[:3]]
            gap_ = max(np.abs(a_ - b_).max() / max(1e-300, np.abs(b_).max()) for a_, b_ in zip(got_, ref_) if b_.size and np.abs(b_).max() > 0)
            if not (gap_ <= 1e-9):
                res.fail(f"stale after moving a mesh read back from the saved history sim={kind_}",
                         f"after Save, Set_Iter(0) (mesh 1 is read from the disk) and mesh.Rotate(30), the matrices differ from those of a new simulation on the moved mesh by {gap_:.3e} (relative)", ident)
        except Exception as ex:  # noqa: BLE001
            res.fail(f"saved-mesh scenario raises sim={kind_}", f"{type(ex).__name__}: {str(ex)[:160]}", ident)
        finally:
            shutil.rmtree(tmpd, ignore_errors=True)

    # ---------------- units and position: [read + solve, one motion of the mesh, read + solve] on meshes given in other units ----------------
    # The same plate described in nanometres, in tenths of millimetres, in hundreds of kilometres, or geo-referenced (far from the
    # origin); the motions are O(1) relative to the plate (rotation, reflection, stretch, shear) or small relative to it (a rotation of
    # 0.01 degree, a smooth nudge of 1e-4 of its size). The reference is a mesh object built directly from the final coordinates
    # (no motion, no earlier read), with a new model and a new simulation.
    from EasyFEA import Mesh as _Mesh
    from EasyFEA.FEM._group_elem import GroupElemFactory as _GEF

    def mesh_from(base, coord):
        return _Mesh({g.elemType: _GEF.Create(g.elemType, np.array(g.connect), np.array(coord, dtype=float)) for g in base.dict_groupElem.values()})

    placements = [("unit", 1.0, (0.0, 0.0)), ("scale 1e-9", 1e-9, (0.0, 0.0)), ("scale 1e-4", 1e-4, (0.0, 0.0)), ("scale 1e5", 1e5, (0.0, 0.0)),
                  ("offset (650000, 4800000)", 1.0, (650000.0, 4800000.0)), ("scale 1e-3, offset (1000, -2000)", 1e-3, (1000.0, -2000.0))]
    motions = ["rotate 10 deg about the centre", "rotate 0.01 deg about the centre", "symmetry through the centre", "coord: stretch x by 1.3 about the centre",
               "coord: shear 0.25", "coord: smooth nudge of 1e-4 of the size"]

    def do_motion(mesh, mv, L):
        c = np.array(mesh.center, dtype=float)
        if mv.startswith("rotate"):
            mesh.Rotate(float(mv.split()[1]), tuple(c), (0, 0, 1))
        elif mv.startswith("symmetry"):
            mesh.Symmetry(tuple(c), (0.6, 0.8, 0))
        else:
            X = np.array(mesh.coord, dtype=float)
            if "stretch" in mv:
                X[:, 0] = c[0] + 1.3 * (X[:, 0] - c[0])
            elif "shear" in mv:
                X[:, 0] = X[:, 0] + 0.25 * (X[:, 1] - c[1])
            else:
                X[:, 1] = X[:, 1] + 1e-4 * L * np.sin(3.0 * (X[:, 0] - c[0]) / L)
            mesh.coord = X

    def up_solve(simu, kind, lft, rgt, L):
        simu.Solver_Set_Elliptic_Algorithm()
        simu.Bc_Init()
        unk = simu.Get_unknowns()
        simu.add_dirichlet(lft, [0.0] * len(unk), unk)
        simu.add_dirichlet(rgt, [0.125 * L], unk[-1:])
        mats = [A.toarray() for A in simu.Get_K_C_M_F()]
        out = dict(zip("KCMF", mats))
        out["solution"] = np.asarray(simu.Solve()).copy()
        if kind == "elastic":
            out["Svm"] = np.asarray(simu.Result("Svm", nodeValues=False)).copy()
        return out

    for et in (["TRI3", "QUAD4"] if args.tier == "quick" else ["TRI3", "QUAD4", "TRI6", "QUAD8"]):
        base = gen_mesh(et, 0.5)
        X0 = np.array(base.coord, dtype=float)
        lft = np.where(X0[:, 0] == 0.0)[0]
        rgt = np.where(X0[:, 0] == 2.0)[0]
        for kind in ("elastic", "thermal"):
            for pname_, s_, off_ in placements:
                Xp = X0 * s_
                Xp[:, 0] += off_[0]
                Xp[:, 1] += off_[1]
                for mv in motions:
                    ident = dict(sim=kind, elemType=et, mesh=f"rectangle 2 x 1 (h = 0.5), coordinates * {s_} + {off_}", placement=pname_, motion=mv,
                                 scenario="mesh built from these coordinates; simulation; Get_K_C_M_F + Solve; motion; Get_K_C_M_F + Solve, against a mesh, model and simulation built from the final coordinates")
                    try:
                        cfg = Cfg(kind, et)
                        mesh = mesh_from(base, Xp)
                        simu = make_sim(cfg, mesh, make_model(cfg))
                        simu.rho = cfg.rho
                        up_solve(simu, kind, lft, rgt, s_)
                        do_motion(mesh, mv, s_)
                        got = up_solve(simu, kind, lft, rgt, s_)
                        Xf = np.array(mesh.coord, dtype=float)
                        res.case(("units-position", kind, et, pname_, mv))
                        res.count("units-position:" + kind)
                        if not (np.abs(Xf - Xp).max() > 0):
                            res.fail(f"mesh motion does nothing sim={kind}", "the coordinates of the mesh are unchanged after the motion", ident)
                            continue
                        fsim = make_sim(cfg, mesh_from(base, Xf), make_model(cfg))
                        fsim.rho = cfg.rho
                        want = up_solve(fsim, kind, lft, rgt, s_)
                        bad = []
                        for n in got:
                            a, b = got[n], want[n]
                            tol = 1e-9 if n in "KCMF" else 1e-7
                            if a.shape != b.shape or not (np.abs(a - b).max() <= tol * (1e-300 + np.abs(b).max())):
                                bad.append(n if a.shape != b.shape else f"{n} (rel. {np.abs(a - b).max() / (1e-300 + np.abs(b).max()):.2e})")
                        if bad:
                            res.fail(f"stale after a mesh motion (units / position of the mesh) sim={kind}",
                                     f"mesh in '{pname_}', [read, solve, {mv}, read, solve]: {bad} differ from those of a simulation built on a mesh created from the final coordinates", ident)
                    except Exception as ex:  # noqa: BLE001
                        res.fail(f"units-position scenario raises sim={kind}", f"{type(ex).__name__}: {str(ex)[:150]}", ident)

    # ---------------- going back to an earlier mesh through Set_Iter, then moving that mesh ----------------
    for kind in ("elastic", "thermal"):
        for et in (["TRI3", "QUAD4"] if args.tier == "quick" else ["TRI3", "QUAD4", "TRI6"]):
            for tmove in (("rotate", 30.0, 0.5, 0.25), ("coord", 2.0, 0.25, 0.0, 1.5), ("translate", 1.5, -0.5), ("symmetry", 0.25, 0.0, 0.6, 0.8)):
                cfg = Cfg(kind, et)
                mesh = gen_mesh(et, 1.0)
                model = make_model(cfg)
                simu = make_sim(cfg, mesh, model)
                simu.rho = cfg.rho
                ident = dict(sim=kind, elemType=et, scenario=f"read, Save_Iter, simu.mesh = finer mesh, read, Save_Iter, Set_Iter(0), read, mesh0.{tmove[0]}, read")
                try:
                    simu.Get_K_C_M_F()
                    simu.Save_Iter()
                    newm = gen_mesh(et, 0.5)
                    simu.mesh = newm
                    simu.Get_K_C_M_F()
                    simu.Save_Iter()
                    simu.Set_Iter(0)
                    simu.Get_K_C_M_F()
                    apply_transform(mesh, tmove)
                    cfg.meshes[0]["transforms"].append(tmove)
                    res.case(("back-to-old-mesh", kind, et, tmove[0]))
                    if simu.mesh is not mesh:
                        res.notes.append("Set_Iter(0) did not put the first mesh back; scenario not applicable")
                        continue
                    Ks = [A.toarray() for A in simu.Get_K_C_M_F()]
                    fs, _ = fresh(cfg)
                    Kf = [A.toarray() for A in fs.Get_K_C_M_F()]
                    bad = [n for n, a, b in zip("KCMF", Ks, Kf) if a.shape != b.shape or not (np.abs(a - b).max() <= 1e-9 * (1e-300 + np.abs(b).max()))]
                    if bad:
                        res.fail(f"stale after moving a mesh restored by Set_Iter sim={kind}", f"{bad} differ from those of a simulation built on the moved mesh (needUpdate = {bool(simu.needUpdate)})", ident)
                except Exception as ex:  # noqa: BLE001
                    res.fail(f"back-to-old-mesh scenario raises sim={kind}", f"{type(ex).__name__}: {str(ex)[:150]}", ident)

    # ---------------- replacing the mesh after going back to an earlier one, then restoring the newest iteration ----------------
    for kind in ("elastic", "thermal"):
        for et in (["QUAD4"] if args.tier == "quick" else ["TRI3", "QUAD4", "TRI6"]):
            cfg = Cfg(kind, et)
            mesh0 = gen_mesh(et, 1.0)
            model = make_model(cfg)
            simu = make_sim(cfg, mesh0, model)
            simu.rho = cfg.rho
            ident = dict(sim=kind, elemType=et, scenario="read, Save_Iter, simu.mesh = mesh1, read, Save_Iter, Set_Iter(0), simu.mesh = mesh2, read, Save_Iter, Set_Iter(0), Set_Iter(2), read")
            try:
                simu.Get_K_C_M_F()
                simu.Save_Iter()
                mesh1 = gen_mesh(et, 1.0)
                apply_transform(mesh1, ("coord", 2.0, 0.25, 0.0, 1.5))        # same topology, other geometry
                simu.mesh = mesh1
                simu.Get_K_C_M_F()
                simu.Save_Iter()
                simu.Set_Iter(0)
                mesh2 = gen_mesh(et, 1.0)
                t2 = ("coord", 0.5, 0.0, 0.25, 3.0)
                apply_transform(mesh2, t2)
                simu.mesh = mesh2
                simu.Get_K_C_M_F()
                simu.Save_Iter()
                simu.Set_Iter(0)
                simu.Set_Iter(2)
                res.case(("replace-after-going-back", kind, et))
                cfg.meshes = [dict(h=1.0, transforms=[t2])]
                cfg.cur = 0
                Ks = [A.toarray() for A in simu.Get_K_C_M_F()]
                fs, _ = fresh(cfg)
                Kf = [A.toarray() for A in fs.Get_K_C_M_F()]
                bad = [n for n, a, b in zip("KCMF", Ks, Kf) if a.shape != b.shape or not (np.abs(a - b).max() <= 1e-9 * (1e-300 + np.abs(b).max()))]
                if simu.mesh is not mesh2 or bad:
                    res.fail(f"wrong mesh after restoring an iteration saved on a mesh assigned after going back sim={kind}",
                             f"Set_Iter(2) {'did not reattach the third mesh' if simu.mesh is not mesh2 else ''}; {bad} differ from those of a simulation built on that mesh", ident)
            except Exception as ex:  # noqa: BLE001
                res.fail(f"replace-after-going-back scenario raises sim={kind}", f"{type(ex).__name__}: {str(ex)[:150]}", ident)

    # ---------------- beams: [read, one modification of the beam model, read] against a model built in the final configuration ----------------
    from EasyFEA import Mesher as _Mesher, ElemType as _ET
    from EasyFEA.Geoms import Line as _Line, Point as _Pt, Domain as _Dom
    for bdim in (2, 3):
        for timo in (False, True):
            def bbuild(E=1000.0, v=0.25, yAxis=(0, 1, 0), size=(0.5, 0.25)):
                sect = _Mesher().Mesh_2D(_Dom(_Pt(), _Pt(*size)))
                beam = Models.Beam.Isotropic(bdim, _Line(_Pt(0.5, -0.25, 0.0), _Pt(2.5, 1.0, 0.75 if bdim == 3 else 0.0), 1.0), sect, E, v, yAxis)
                meshb = _Mesher().Mesh_Beams([beam], elemType=_ET.SEG3)
                return Simulations.Beam(meshb, Models.Beam.BeamStructure([beam]), useTimoshenko=timo), beam
            for mod in (("E", "v", "section", "yAxis") if bdim == 3 else ("E", "v", "section")):
                ident = dict(sim="Beam", dim=bdim, timoshenko=timo, modification=mod)
                try:
                    sb, beam = bbuild()
                    sb.Get_K_C_M_F()
                    if mod == "E":
                        beam.E = 1500.0
                        ref = bbuild(E=1500.0)[0]
                    elif mod == "v":
                        beam.v = 0.35
                        ref = bbuild(v=0.35)[0]
                    elif mod == "section":
                        # a thin, deep section instead of the stocky one: area, inertias and shear correction factors all change
                        beam.section = _Mesher().Mesh_2D(_Dom(_Pt(), _Pt(0.0625, 1.0)))
                        ref = bbuild(size=(0.0625, 1.0))[0]
                    else:
                        beam.yAxis = (0.0, 0.6, 0.8)
                        ref = bbuild(yAxis=(0.0, 0.6, 0.8))[0]
                    res.case(("single", "Beam", bdim, timo, mod))
                    Ks = [A.toarray() for A in sb.Get_K_C_M_F()]
                    Kf = [A.toarray() for A in ref.Get_K_C_M_F()]
                    bad = [n for n, a, b in zip("KCMF", Ks, Kf) if a.shape != b.shape or not (np.abs(a - b).max() <= 1e-9 * (1e-300 + np.abs(b).max()))]
                    if bad:
                        res.fail(f"stale after {mod} sim=Beam", f"[read, beam.{mod} changed, read]: {bad} differ from those of a beam model built in the final configuration", ident)
                except Exception as ex:  # noqa: BLE001
                    res.fail("beam modification scenario raises", f"{type(ex).__name__}: {str(ex)[:150]}", ident)

    # ---------------- phase-field: every parameter of the phase-field model invalidates both systems ----------------
    try:
        meshr = gen_mesh("TRI3", 0.5)
        leftr = meshr.Nodes_Conditions(lambda x, y, z: x == 0)
        rightr = meshr.Nodes_Conditions(lambda x, y, z: x == 2.0)

        def pbuild(Gc=0.5, l0=0.2, split="Amor", reg="AT2"):
            pfm_ = Models.PhaseField(Models.Elastic.Isotropic(2, E=210.0, v=0.3, planeStress=True, thickness=1.0), split, reg, Gc, l0)
            return Simulations.PhaseField(meshr, pfm_), pfm_
        s0_, _ = pbuild()
        s0_.add_dirichlet(leftr, [0, 0], ["x", "y"])
        s0_.add_dirichlet(rightr, [0.04], ["x"])
        s0_.Solve()
        ur, dr = np.asarray(s0_.displacement).copy(), np.asarray(s0_.damage).copy()
        # a damaged band across the plate (the first staggered pass leaves d = 0, and at d = 0 every split gives the same displacement system)
        dr = np.maximum(dr, 0.625 * np.exp(-((meshr.coord[:, 0] - 1.0) ** 2) / 0.08))
        for pname, kw, setter in (("Gc", dict(Gc=0.8), lambda m: setattr(m, "Gc", 0.8)), ("l0", dict(l0=0.3), lambda m: setattr(m, "l0", 0.3)),
                                  ("split", dict(split="Miehe"), lambda m: setattr(m, "split", "Miehe")), ("regularization", dict(reg="AT1"), lambda m: setattr(m, "regularization", "AT1"))):
            sa, pa = pbuild()
            sa._Set_solutions("elastic", ur.copy())
            sa._Set_solutions("damage", dr.copy())
            sa.Get_K_C_M_F("damage")
            sa.Get_K_C_M_F("elastic")
            setter(pa)
            sr_, _ = pbuild(**kw)
            sr_._Set_solutions("elastic", ur.copy())
            sr_._Set_solutions("damage", dr.copy())
            res.case(("phasefield", "model-parameter", pname))
            for pt in ("damage", "elastic"):
                got = [A.toarray() for A in sa.Get_K_C_M_F(pt)]
                want = [A.toarray() for A in sr_.Get_K_C_M_F(pt)]
                bad = [n for n, a, b in zip("KCMF", got, want) if a.shape != b.shape or not (np.abs(a - b).max() <= 1e-9 * (1e-300 + np.abs(b).max()))]
                if bad:
                    res.fail(f"stale phase-field {pt} system after a change of {pname}", f"after phaseFieldModel.{pname} was changed on a loaded state, {bad} of the {pt} problem differ from a fresh simulation in the same state", dict(sim="PhaseField", parameter=pname))
    except Exception as ex:  # noqa: BLE001
        res.fail("phase-field model-parameter scenario raises", f"{type(ex).__name__}: {str(ex)[:150]}", dict(sim="PhaseField"))

    # ---------------- phase-field: a change of the elastic law invalidates BOTH staggered systems (psi+ enters the damage system) ----------------
    try:
        meshq = gen_mesh("TRI3", 0.5)
        leftq = meshq.Nodes_Conditions(lambda x, y, z: x == 0)
        rightq = meshq.Nodes_Conditions(lambda x, y, z: x == 2.0)
        # every split reads the law in its own way (C, S, their square roots, the Lame constants): each of them follows the change
        combos = [("Amor", "E", 150.0), ("Amor", "v", 0.2), ("Amor", "planeStress", False), ("He", "v", 0.2), ("He", "E", 150.0), ("Zhang", "v", 0.15), ("Miehe", "v", 0.2)]
        if args.tier == "thorough":
            combos += [(sp_, "v", 0.2) for sp_ in ("Bourdin", "AnisotStress", "Stress", "AnisotStrain")] + [("He", "planeStress", False)]
        for splitq, pname, pval in combos:
            matq = Models.Elastic.Isotropic(2, E=210.0, v=0.3, planeStress=True, thickness=1.0)
            sq = Simulations.PhaseField(meshq, Models.PhaseField(matq, splitq, "AT2", 0.5, 0.2))
            sq.add_dirichlet(leftq, [0, 0], ["x", "y"])
            sq.add_dirichlet(rightq, [0.04], ["x"])
            sq.Solve()
            sq.Get_K_C_M_F("damage")
            sq.Get_K_C_M_F("elastic")
            uq, dq = np.asarray(sq.displacement).copy(), np.asarray(sq.damage).copy()
            dq = np.maximum(dq, 0.625 * np.exp(-((meshq.coord[:, 0] - 1.0) ** 2) / 0.08))      # a damaged band: psi+ and g(d) both matter
            sq._Set_solutions("damage", dq.copy())
            sq.Get_K_C_M_F("damage")
            sq.Get_K_C_M_F("elastic")
            setattr(matq, pname, pval)
            got = {pt: [A.toarray() for A in sq.Get_K_C_M_F(pt)] for pt in ("damage", "elastic")}
            kw = dict(E=210.0, v=0.3, planeStress=True)
            kw[pname] = pval
            sf2 = Simulations.PhaseField(meshq, Models.PhaseField(Models.Elastic.Isotropic(2, thickness=1.0, **kw), splitq, "AT2", 0.5, 0.2))
            sf2._Set_solutions("elastic", uq.copy())
            sf2._Set_solutions("damage", dq.copy())
            res.case(("phasefield", "elastic-law", splitq, pname))
            for pt in ("damage", "elastic"):
                want = [A.toarray() for A in sf2.Get_K_C_M_F(pt)]
                bad = [n for n, a, b in zip("KCMF", got[pt], want) if a.shape != b.shape or not (np.abs(a - b).max() <= 1e-9 * (1e-300 + np.abs(b).max()))]
                if bad:
                    res.fail(f"stale phase-field {pt} system after a change of the elastic law", f"after material.{pname} = {pval} on a loaded state, {bad} of the {pt} problem differ from a fresh simulation in the same state",
                             dict(sim="PhaseField", split=splitq, parameter=pname, value=pval, max_damage=float(dq.max())))
    except Exception as ex:  # noqa: BLE001
        res.fail("phase-field elastic-law scenario raises", f"{type(ex).__name__}: {str(ex)[:150]}", dict(sim="PhaseField"))

    # ---------------- phase-field: restoring an iteration invalidates both staggered systems ----------------
    try:
        meshp = gen_mesh("TRI3", 0.5)
        left = meshp.Nodes_Conditions(lambda x, y, z: x == 0)
        right = meshp.Nodes_Conditions(lambda x, y, z: x == 2.0)

        def pf_sim():
            matp = Models.Elastic.Isotropic(2, E=210.0, v=0.3, planeStress=True, thickness=1.0)
            pfm = Models.PhaseField(matp, "Amor", "AT2", 0.5, 0.2)
            return Simulations.PhaseField(meshp, pfm)

        sp = pf_sim()
        states = []
        for ud in (0.0, 0.02, 0.05, 0.08):
            sp.Bc_Init()
            sp.add_dirichlet(left, [0, 0], ["x", "y"])
            sp.add_dirichlet(right, [ud], ["x"])
            sp.Solve()
            sp.Save_Iter()
            states.append((sp.displacement.copy(), sp.damage.copy()))
        sp.Set_Iter(1)
        Ku = sp.Get_K_C_M_F("elastic")[0].toarray()
        sf = pf_sim()
        sf._Set_solutions("elastic", states[1][0].copy())
        sf._Set_solutions("damage", states[1][1].copy())
        Kf = sf.Get_K_C_M_F("elastic")[0].toarray()
        res.case(("phasefield", "set_iter"))
        if not (np.abs(Ku - Kf).max() <= 1e-8 * np.abs(Kf).max()):
            res.fail("stale phase-field displacement system after Set_Iter", f"after Set_Iter(1) the elastic matrix differs from a fresh simulation in that state by {np.abs(Ku - Kf).max() / np.abs(Kf).max():.3e} (relative)",
                     dict(sim="PhaseField", steps=[0.0, 0.02, 0.05, 0.08], restored=1, max_damage=[float(d.max()) for _, d in states]))
    except Exception as ex:  # noqa: BLE001
        res.fail("phase-field Set_Iter scenario raises", f"{type(ex).__name__}: {str(ex)[:150]}", dict(sim="PhaseField"))

    # ---------------- history-dependent material: the elastic law inside a Behavior is changed ----------------
    # (a) the same Behavior object given to a new simulation must act like a Behavior built with the final parameters (model shared
    #     between simulations); (b) in the elastic range the tangent read after the change is the one of a fresh simulation
    try:
        IE_ = Models.InElastic
        meshi = gen_mesh("QUAD4", 0.5)
        lefti = meshi.Nodes_Conditions(lambda x, y, z: x == 0)
        righti = meshi.Nodes_Conditions(lambda x, y, z: x == 2.0)

        def ibuild(E_, v_, solver_):
            el_ = Models.Elastic.Isotropic(3, E=E_, v=v_)
            bh_ = IE_.Behavior(2, el_, yieldSurface=IE_.Yield.VonMises(1.0), hardening=IE_.IsotropicHardening.Linear(20.0), solver=solver_, thickness=1.0)
            return el_, bh_

        def isolve(bh_, val):
            si_ = Simulations.InElastic(meshi, bh_)
            si_.add_dirichlet(lefti, [0.0, 0.0], ["x", "y"])
            si_.add_dirichlet(righti, [val], ["x"])
            si_.Solve()
            return si_

        for solver_ in ("auto", "newton"):
            for pname, kwf in (("E", dict(E_=250.0, v_=0.3)), ("v", dict(E_=100.0, v_=0.15))):
                identi = dict(sim="InElastic", local_solver=solver_, parameter=pname)
                el_, bh_ = ibuild(100.0, 0.3, solver_)
                s1_ = isolve(bh_, 0.05)                      # past yield: every cached quantity of the behaviour has been used
                setattr(el_, pname, kwf["E_"] if pname == "E" else kwf["v_"])
                s2_ = isolve(bh_, 0.05)                      # new simulation, same (modified) behaviour object
                _, bf_ = ibuild(solver_=solver_, **kwf)
                s3_ = isolve(bf_, 0.05)                      # behaviour built in the final configuration
                res.case(("inelastic", "shared-behaviour", solver_, pname))
                bad = [n for n in ("displacement", "Svm") if not (np.abs(np.asarray(s2_.Result(n)) - np.asarray(s3_.Result(n))).max() <= 1e-7 * (1 + np.abs(np.asarray(s3_.Result(n))).max()))]
                if bad:
                    res.fail(f"stale behaviour after a change of the elastic law sim=InElastic solver={solver_}",
                             f"elastic.{pname} changed after a first solve: a simulation using the same Behavior gives {bad} that differ from those of a Behavior built with the final parameters "
                             f"(max gap {max(np.abs(np.asarray(s2_.Result(n)) - np.asarray(s3_.Result(n))).max() for n in bad):.3e})", identi)
                # (b) elastic range, same simulation: [solve, read, change, read]
                el_, bh_ = ibuild(100.0, 0.3, solver_)
                s4_ = isolve(bh_, 0.0005)
                s4_.Get_K_C_M_F()
                setattr(el_, pname, kwf["E_"] if pname == "E" else kwf["v_"])
                Kgot = s4_.Get_K_C_M_F()[0].toarray()
                _, bf_ = ibuild(solver_=solver_, **kwf)
                s5_ = isolve(bf_, 0.0005)
                s5_._Set_solutions(s5_.problemType, np.asarray(s4_.displacement).copy())
                s5_.Need_Update()
                Kwant = s5_.Get_K_C_M_F()[0].toarray()
                res.case(("inelastic", "tangent-after-change", solver_, pname))
                if not (np.abs(Kgot - Kwant).max() <= 1e-9 * np.abs(Kwant).max()):
                    res.fail(f"stale tangent after a change of the elastic law sim=InElastic",
                             f"[solve in the elastic range, read, elastic.{pname} changed, read]: K differs from the one of a simulation built with the final parameters in the same state "
                             f"(relative gap {np.abs(Kgot - Kwant).max() / np.abs(Kwant).max():.3e})", identi)
    except Exception as ex:  # noqa: BLE001
        res.fail("inelastic elastic-law scenario raises", f"{type(ex).__name__}: {str(ex)[:150]}", dict(sim="InElastic"))

    # ---------------- hyperelasticity: a law parameter changed between two solves ----------------
    try:
        meshh = gen_mesh("QUAD4", 0.5)
        lefth = meshh.Nodes_Conditions(lambda x, y, z: x == 0)
        righth = meshh.Nodes_Conditions(lambda x, y, z: x == 2.0)
        for lawn, mk_, pname, pval in (("NeoHookean", lambda K=2.0: Models.HyperElastic.NeoHookean(2, K), "K", 3.5),
                                       ("SaintVenantKirchhoff", lambda lmbda=4.0: Models.HyperElastic.SaintVenantKirchhoff(2, lmbda, 4.0), "lmbda", 7.0)):
            def hsolve(law_):
                sh_ = Simulations.HyperElastic(meshh, law_)
                sh_.add_dirichlet(lefth, [0.0, 0.0], ["x", "y"])
                sh_.add_dirichlet(righth, [0.1, 0.02], ["x", "y"])
                sh_.add_surfLoad(meshh.Nodes_Conditions(lambda x, y, z: y == 1.0), [-0.05], ["y"])
                sh_.Solve()
                return sh_
            law_ = mk_()
            sh1_ = hsolve(law_)
            setattr(law_, pname, pval)
            sh1_.Solve()
            sh2_ = hsolve(mk_(pval))
            res.case(("hyperelastic", "law-parameter", lawn))
            gap = np.abs(np.asarray(sh1_.displacement) - np.asarray(sh2_.displacement)).max()
            if not (gap <= 1e-6 * (1 + np.abs(np.asarray(sh2_.displacement)).max())):
                res.fail(f"stale after a change of the law sim=HyperElastic law={lawn}", f"[solve, {lawn}.{pname} = {pval}, solve]: the displacement differs from a fresh simulation with the final parameter by {gap:.3e}",
                         dict(sim="HyperElastic", law=lawn, parameter=pname, value=pval))
    except Exception as ex:  # noqa: BLE001
        res.fail("hyperelastic law-parameter scenario raises", f"{type(ex).__name__}: {str(ex)[:150]}", dict(sim="HyperElastic"))

    # ---------------- one model shared by several simulations: each of them follows its modifications ----------------
    try:
        for kind_, mkmodel, mksim, pname, pval in (
                ("Elastic", lambda: Models.Elastic.Isotropic(2, E=100.0, v=0.3, planeStress=True, thickness=1.0), lambda m_, mo_: Simulations.Elastic(m_, mo_), "E", 250.0),
                ("Thermal", lambda: Models.Thermal(2.0, 1.0), lambda m_, mo_: Simulations.Thermal(m_, mo_), "k", 3.5)):
            shared = mkmodel()
            sims_ = [mksim(gen_mesh("TRI3", h_), shared) for h_ in (1.0, 0.5, 0.7)]      # built one after the other, all alive
            for s_ in sims_:
                s_.Get_K_C_M_F()
            setattr(shared, pname, pval)
            ref_model = mkmodel()
            setattr(ref_model, pname, pval)
            for k_, s_ in enumerate(sims_):
                Kgot = s_.Get_K_C_M_F()[0].toarray()
                Kwant = mksim(s_.mesh, ref_model).Get_K_C_M_F()[0].toarray()
                res.case(("shared-model", kind_, k_))
                if not (np.abs(Kgot - Kwant).max() <= 1e-9 * np.abs(Kwant).max()):
                    res.fail(f"stale simulation sharing its model sim={kind_}", f"three simulations share one model; after model.{pname} = {pval}, simulation number {k_} (in construction order) still returns the former K "
                             f"(relative gap {np.abs(Kgot - Kwant).max() / np.abs(Kwant).max():.3e})", dict(sim=kind_, parameter=pname, simulation=k_))
    except Exception as ex:  # noqa: BLE001
        res.fail("shared-model scenario raises", f"{type(ex).__name__}: {str(ex)[:150]}", dict(scenario="shared model"))

    # ---------------- a simulation that was copied (copy.deepcopy) or saved and read back (Save / Load_Simu): it follows the changes of ITS objects ----------------
    import copy as _copy
    import shutil as _shutil
    import tempfile as _tempfile
    from EasyFEA.Simulations import Load_Simu as _Load_Simu
    for how in ("deepcopy", "Save + Load_Simu"):
        for kindc in ("elastic", "thermal"):
            identc = dict(sim=kindc, how=how, ops=["build, solve, read K", how, "material parameter assigned on the copy's model", "read K", "copy's mesh.coord stretched", "read K, solve"])
            scratch_ = None
            res.case(("copied simulation", how, kindc))
            try:
                meshc = gen_mesh("QUAD4", 0.5)

                def buildc(mesh_, E_=None, k_=None):
                    if kindc == "elastic":
                        s_ = Simulations.Elastic(mesh_, Models.Elastic.Isotropic(2, E=E_ or 10.0, v=0.25, planeStress=True, thickness=1.0))
                        s_.add_dirichlet(mesh_.Nodes_Conditions(lambda x, y, z: x == 0), [0.0, 0.0], ["x", "y"])
                        s_.add_surfLoad(mesh_.Nodes_Conditions(lambda x, y, z: x == x.max()), [0.5], ["x"])
                    else:
                        s_ = Simulations.Thermal(mesh_, Models.Thermal(k_ or 2.0, 1.0))
                        s_.add_dirichlet(mesh_.Nodes_Conditions(lambda x, y, z: x == 0), [1.0], ["t"])
                        s_.add_surfLoad(mesh_.Nodes_Conditions(lambda x, y, z: x == x.max()), [0.5], ["t"])
                    return s_
                s0c = buildc(meshc)
                s0c.Solve()
                s0c.Save_Iter()
                s0c.Get_K_C_M_F()
                if how == "deepcopy":
                    s1c = _copy.deepcopy(s0c)
                else:
                    scratch_ = _tempfile.mkdtemp(prefix="c14_copy_")
                    s0c.Save(scratch_)
                    s1c = _Load_Simu(scratch_)
                s1c.Get_K_C_M_F()
                if kindc == "elastic":
                    s1c.model.E = 35.0
                else:
                    s1c.model.k = 5.0
                K1 = s1c.Get_K_C_M_F()[0].toarray()
                Kf = buildc(meshc.copy(), E_=35.0, k_=5.0).Get_K_C_M_F()[0].toarray()
                if not (np.abs(K1 - Kf).max() <= 1e-9 * np.abs(Kf).max()):
                    res.fail(f"stale matrices in a copied simulation ({how}) after a parameter change sim={kindc}", f"after the model parameter of the copy was assigned, its K differs from a fresh simulation by "
                             f"{np.abs(K1 - Kf).max() / np.abs(Kf).max():.2e} (relative); needUpdate = {s1c.needUpdate}", identc)
                    continue
                Xc = s1c.mesh.coord
                Xc[:, 1] *= 2.0
                s1c.mesh.coord = Xc
                K2 = s1c.Get_K_C_M_F()[0].toarray()
                meshs = meshc.copy()
                Xs = meshs.coord
                Xs[:, 1] *= 2.0
                meshs.coord = Xs
                sfc = buildc(meshs, E_=35.0, k_=5.0)
                Kf2 = sfc.Get_K_C_M_F()[0].toarray()
                if not (np.abs(K2 - Kf2).max() <= 1e-9 * np.abs(Kf2).max()):
                    res.fail(f"stale matrices in a copied simulation ({how}) after its mesh was stretched sim={kindc}", f"after mesh.coord of the copy was stretched, its K differs from a fresh simulation on the stretched mesh by "
                             f"{np.abs(K2 - Kf2).max() / np.abs(Kf2).max():.2e} (relative); needUpdate = {s1c.needUpdate}", identc)
            except Exception as ex:  # noqa: BLE001
                res.fail(f"copied simulation scenario raises ({how}) sim={kindc}", f"{type(ex).__name__}: {str(ex)[:200]}", identc)
            finally:
                if scratch_:
                    _shutil.rmtree(scratch_, ignore_errors=True)

    # ---------------- what a caller does with an array READ from a parameter: the simulation is the one of the parameters its model reports ----------------
    for kindg in ("elastic", "thermal"):
        identg_ = dict(sim=kindg, ops=["model with a per-element parameter field", "read K", "x = model.<parameter>", "x *= 2 (in place)", "read K", "compare with a simulation built from the parameters the model reports now"])
        res.case(("edit what a parameter read returned", kindg))
        try:
            meshg = gen_mesh("QUAD4", 0.5)
            fld = 1.0 + np.arange(meshg.Ne) / meshg.Ne
            if kindg == "elastic":
                modg = Models.Elastic.Isotropic(2, E=10.0 * fld, v=0.25, planeStress=True, thickness=1.0)
                sg_ = Simulations.Elastic(meshg, modg)
                pname_ = "E"
            else:
                modg = Models.Thermal(2.0 * fld, 1.0)
                sg_ = Simulations.Thermal(meshg, modg)
                pname_ = "k"
            sg_.Get_K_C_M_F()
            xg = getattr(modg, pname_)
            xg *= 2.0
            Kg1 = sg_.Get_K_C_M_F()[0].toarray()
            repg = np.asarray(getattr(modg, pname_), float).copy()
            if kindg == "elastic":
                sfr = Simulations.Elastic(meshg.copy(), Models.Elastic.Isotropic(2, E=repg, v=0.25, planeStress=True, thickness=1.0))
            else:
                sfr = Simulations.Thermal(meshg.copy(), Models.Thermal(repg, 1.0))
            Kfr = sfr.Get_K_C_M_F()[0].toarray()
            if not (np.abs(Kg1 - Kfr).max() <= 1e-9 * np.abs(Kfr).max()):
                res.fail(f"stale matrices after a caller edited in place the array a parameter read returned sim={kindg}",
                         f"after `x = model.{pname_}; x *= 2` the model reports {pname_}[0] = {repg[0]!r} while K differs from a simulation built with the reported field by {np.abs(Kg1 - Kfr).max() / np.abs(Kfr).max():.2e} (relative)", identg_)
        except Exception as ex:  # noqa: BLE001
            res.fail(f"editing what a parameter read returned raises sim={kindg}", f"{type(ex).__name__}: {str(ex)[:150]}", identg_)

    # ---------------- who observes whom ----------------
    # every parameter holder reachable from the model must notify the simulation; the dependency table of Model/Sources.lean and
    # the registrations extracted from the constructors (Gen/C14/Observers.lean) are compared with the running code
    from tools.harness import _wiring as W
    wlines, wexpect = [], []
    for cname, mk in W.builders().items():
        try:
            simu = mk()
            ans = driver.ask([f"wiring {cname}"])
            if ans is None or "deps=" not in ans[0]:
                res.disagree("wiring table", f"the model has no wiring for simulation class {cname}: {ans}")
                continue
            deps = ans[0].split("deps=")[1].split(" ")[0].split(";")
            observed = ans[0].split("observed=")[1].split(";")
            res.count(f"wiring:{cname}")
            dep_objs = {e: W.evaluate(e, simu) for e in deps if e != "mesh"}
            # (1) the extracted registrations really are observers at run time
            for e in observed:
                for o in W.evaluate(e, simu):
                    res.case(("wiring", cname, e, "registered"))
                    if simu not in o.observers:
                        res.disagree("wiring table", f"{cname}: the constructor registers with '{e}' but the simulation is not among the observers of that object")
            # (2) every parameter holder reachable from the model is in the dependency table, and is observed
            hs = W.holders(simu)
            for path, o in hs:
                role = next((e for e, objs in dep_objs.items() if any(o is x for x in objs)), None)
                res.case(("wiring", cname, path, "holder"))
                if role is None:
                    res.disagree("wiring table", f"{cname}: parameter holder {path} ({type(o).__name__}) is reachable from the model but missing from the dependency table of Model/Sources.lean")
            # (3) histories: [read, assign a parameter of one holder, read, ...] — the flag against the model, and a lowered flag
            #     never sits on matrices that a forced rebuild changes
            ops_m, flags = [], []
            mats = W.read(simu, True)
            ops_m.append("read")
            flags.append(bool(simu.needUpdate))
            targets = [(next((e for e, objs in dep_objs.items() if any(o is x for x in objs)), None), path, o) for path, o in hs]
            targets = [(role, path, o) for role, path, o in targets if role is not None and W.float_params(o)]
            targets.append(("mesh", "mesh", simu.mesh))
            rng.shuffle(targets)
            for role, path, o in targets:
                if role == "mesh":
                    o.Translate(0.125, 0.0, 0.0)
                    what = "mesh.Translate(0.125)"
                else:
                    pn = rng.choice(W.float_params(o))
                    W.assign(o, pn)
                    what = f"{path}.{pn} *= 1.0625"
                ops_m += ["set", role]
                flags.append(bool(simu.needUpdate))
                res.case(("wiring", cname, path, "assign"))
                if not simu.needUpdate:
                    # the flag stays down: are the matrices of a read now those of a forced rebuild?
                    got = W.read(simu, False)
                    simu.Need_Update()
                    forced = W.read(simu, False)
                    bad = [f"{pt}:{n}" for pt in got for n, a, b in zip("KCMF", got[pt], forced[pt]) if a.shape != b.shape or not (np.abs(a - b).max() <= 1e-9 * (1e-300 + np.abs(b).max()))]
                    if bad:
                        res.fail(f"stale matrices: the simulation is not notified sim={cname} holder={role}",
                                 f"[read, {what}, read]: the flag stays down and {bad} differ from what the same simulation assembles once it is told to rebuild", dict(sim=cname, holder=path, operation=what))
                W.read(simu, False)
                ops_m.append("read")
                flags.append(bool(simu.needUpdate))
            wlines.append(f"hist {cname} " + " ".join(ops_m))
            wexpect.append((cname, list(ops_m), flags))
        except Exception as ex:  # noqa: BLE001
            res.fail(f"wiring scenario raises sim={cname}", f"{type(ex).__name__}: {str(ex)[:150]}", dict(sim=cname))
    wans = driver.ask(wlines)
    if wans is None:
        res.disagree("driver", "model driver does not run (wiring histories): " + getattr(driver, "error", "")[:300])
    else:
        for (cname, ops_m, flags), a in zip(wexpect, wans):
            res.traces += 1
            if [t == "1" for t in a.split()] != flags:
                res.disagree("wiring flags", dict(sim=cname, ops=ops_m, model=a, impl=["1" if f else "0" for f in flags]))

    answers = driver.ask(lines)
    if answers is None:
        res.disagree("driver", "model driver does not run: " + getattr(driver, "error", "")[:400])
    else:
        for (h, kind, ops_txt, flags), ans in zip(expect, answers):
            res.traces += 1
            mflags = [t == "1" for t in ans.split()]
            if mflags != flags:
                k = next((i for i, (a, b) in enumerate(zip(mflags, flags)) if a != b), None)
                res.disagree("needUpdate-flag", dict(history=h, sim=kind, first_difference=k, op=ops_txt[k] if k is not None and k < len(ops_txt) else None,
                                                     model=mflags, real=flags))
    res.search_note = "random modification histories compared with fresh simulations found no stale matrix, solution or result"
    res.write("seeded histories of public modifications (model parameters, density, damping, translate / rotate / reflect / re-coordinate the current or a previous mesh, "
              "replace the mesh, re-initialise boundary conditions, switch time scheme) interleaved with reads on Elastic and Thermal simulations; every read compared with a "
              "simulation rebuilt from scratch; non-trivial = read preceded by at least one modification; distinct = distinct (history, position, check)")


if __name__ == "__main__":
    from tools.harness._common import run

    run(main)
