"""C11 harness.
(B) property oracle on the real law classes: symmetry, positive definiteness, C.S = I, plane
    reductions of the 3D law, Voigt vs Kelvin-Mandel input, axis scaling, rotated axes = rotated
    4th-order tensor (independent tensor rotation), orthogonality of Get_Pmat for scalar / per-element /
    per-Gauss-point axes, per-element parameter fields, parameter change -> law changes on next read
    (incl. in-place mutation then re-assignment).
(A) correspondence: the generated constitutive matrices (drivers/C11.lean, exact rationals) vs the real ones."""

from __future__ import annotations

from fractions import Fraction

import numpy as np

from tools.harness._common import Driver, Result, frac_str, parse_args, parse_frac, rng_for

from EasyFEA import Models
from EasyFEA.Models import Get_Pmat, Apply_Pmat, KelvinMandel_Matrix

E_ = Models.Elastic


def q(rng, lo, hi, den=8):
    return rng.randint(int(lo * den), int(hi * den)) / den


def rand_rotation(rng, dim):
    """rational rotation (and optionally reflection handled by caller): Pythagorean angles composed"""
    pyth = [(3 / 5, 4 / 5), (5 / 13, 12 / 13), (8 / 17, 15 / 17), (7 / 25, 24 / 25), (1.0, 0.0), (0.0, 1.0)]
    if dim == 2:
        c, s = rng.choice(pyth)
        if not (rng.random() >= 0.5):
            s = -s
        return np.array([[c, -s], [s, c]])
    R = np.eye(3)
    for ax in rng.sample([0, 1, 2], 3):
        c, s = rng.choice(pyth)
        if not (rng.random() >= 0.5):
            s = -s
        i, j = [k for k in range(3) if k != ax]
        G = np.eye(3)
        G[i, i], G[i, j], G[j, i], G[j, j] = c, -s, s, c
        R = R @ G
    return R


MANDEL = [(0, 0), (1, 1), (2, 2), (1, 2), (0, 2), (0, 1)]


def to_tensor(Cm):
    """6x6 Kelvin-Mandel matrix -> 3x3x3x3 tensor"""
    T = np.zeros((3, 3, 3, 3))
    w = [1, 1, 1, np.sqrt(2), np.sqrt(2), np.sqrt(2)]
    for a, (i, j) in enumerate(MANDEL):
        for b, (k, l) in enumerate(MANDEL):
            v = Cm[a, b] / (w[a] * w[b])
            for (p, r) in {(i, j), (j, i)}:
                for (s, t) in {(k, l), (l, k)}:
                    T[p, r, s, t] = v
    return T


def to_mandel(T):
    w = [1, 1, 1, np.sqrt(2), np.sqrt(2), np.sqrt(2)]
    M = np.zeros((6, 6))
    for a, (i, j) in enumerate(MANDEL):
        for b, (k, l) in enumerate(MANDEL):
            M[a, b] = T[i, j, k, l] * w[a] * w[b]
    return M


def rotate_mandel(Cm, Q):
    T = to_tensor(Cm)
    Tr = np.einsum("ip,jq,kr,ls,pqrs->ijkl", Q, Q, Q, Q, T)
    return to_mandel(Tr)


def law_3d(kind, p, a1=(1, 0, 0), a2=(0, 1, 0), dim=3, ps=True):
    if kind == "iso":
        return E_.Isotropic(dim, E=p["E"], v=p["v"], planeStress=ps)
    if kind == "ti":
        return E_.TransverselyIsotropic(dim, p["El"], p["Et"], p["Gl"], p["vl"], p["vt"], axis_l=a1, axis_t=a2, planeStress=ps)
    return E_.Orthotropic(dim, p["E1"], p["E2"], p["E3"], p["G23"], p["G13"], p["G12"], p["v23"], p["v13"], p["v12"], axis_1=a1, axis_2=a2, planeStress=ps)


def draw(rng, kind):
    if kind == "iso":
        return dict(E=q(rng, 1, 20), v=rng.choice([-0.5, -0.25, 0.0, 0.125, 0.25, 0.3, 0.375, 0.45]))
    if kind == "ti":
        return dict(El=q(rng, 8, 20), Et=q(rng, 2, 8), Gl=q(rng, 1, 6), vl=rng.choice([0.0, 0.125, 0.25]), vt=rng.choice([0.1, 0.25, 0.375]))
    return dict(E1=q(rng, 10, 20), E2=q(rng, 5, 10), E3=q(rng, 2, 5), G23=q(rng, 1, 4), G13=q(rng, 1, 4), G12=q(rng, 1, 4),
                v23=rng.choice([0.1, 0.2, 0.25]), v13=rng.choice([0.05, 0.1, 0.2]), v12=rng.choice([0.1, 0.25, 0.3]))


def main():
    args = parse_args()
    rng = rng_for(args)
    res = Result(args)
    driver = Driver("C11")
    lines, expect = [], []
    nrep = 6 if args.tier == "quick" else 30
    if args.search:
        nrep = 24
    TOL = 1e-9

    for rep in range(nrep):
        for kind in ("iso", "ti", "ortho"):
            p = draw(rng, kind)
            ident = dict(law=kind, params=p)
            res.count("law:" + kind)
            m3 = law_3d(kind, p)
            C3, S3 = m3.C, m3.S
            sc = np.abs(C3).max()
            res.case((rep, kind, "3d-basic"))
            if not (np.abs(C3 - C3.T).max() <= TOL * sc):
                res.fail(f"law={kind} symmetric", "3D stiffness is not symmetric", ident)
            if np.linalg.eigvalsh((C3 + C3.T) / 2).min() <= 0:
                res.fail(f"law={kind} positive-definite", f"3D stiffness has eigenvalue {np.linalg.eigvalsh((C3 + C3.T) / 2).min():.3e} <= 0 for admissible parameters", ident)
            if not (np.abs(C3 @ S3 - np.eye(6)).max() <= 1e-9):
                res.fail(f"law={kind} C.S=I", f"|C S - I| = {np.abs(C3 @ S3 - np.eye(6)).max():.3e}", ident)
            # correspondence with the generated matrices
            if kind == "iso":
                for tag, dim, ps in (("3d", 3, False), ("pstrain", 2, False), ("pstress", 2, True)):
                    lines.append(f"iso {tag} {frac_str(Fraction(p['E']))} {frac_str(Fraction(p['v']))}")
                    expect.append((ident, tag, law_3d("iso", p, dim=dim, ps=ps).C, None))
            elif kind == "ti":
                lines.append("ti " + " ".join(frac_str(Fraction(p[k])) for k in ("El", "Et", "vl", "vt", "Gl")))
                expect.append((ident, "ti", C3, S3))
            else:
                lines.append("ortho " + " ".join(frac_str(Fraction(p[k])) for k in ("E1", "E2", "E3", "G23", "G13", "G12", "v23", "v13", "v12")))
                expect.append((ident, "ortho", C3, S3))
            # plane reductions of the 3D law
            idx = [0, 1, 5]
            for ps in (True, False):
                m2 = law_3d(kind, p, dim=2, ps=ps)
                res.case((rep, kind, "plane", ps))
                want = np.linalg.inv(S3[np.ix_(idx, idx)]) if ps else C3[np.ix_(idx, idx)]
                if not (np.abs(m2.C - want).max() <= TOL * sc):
                    res.fail(f"law={kind} plane-{'stress' if ps else 'strain'}-reduction",
                             f"2D law differs from the {'plane-stress condensation' if ps else 'plane-strain restriction'} of the 3D law by {np.abs(m2.C - want).max():.3e}", ident)
                if not (np.abs(m2.C @ m2.S - np.eye(3)).max() <= 1e-9):
                    res.fail(f"law={kind} 2D C.S=I", "2D C S != I", ident)
            if kind == "iso":
                continue
            # rotated axes = rotated tensor; axis scaling; 2D axes
            for dim in (3, 2):
                Q = rand_rotation(rng, dim)
                Q3 = np.eye(3)
                Q3[:dim, :dim] = Q
                # lengths from 1e-3 to a few thousands (a direction read off a mesh in millimetres)
                scale1, scale2 = rng.choice([1.0, 2.0, 0.5, 3.0, 1000.0, 250.0, 1e-3]), rng.choice([1.0, 0.25, 5.0, 1000.0, 4000.0])
                a1, a2 = Q3[:, 0] * scale1, Q3[:, 1] * scale2
                ident2 = dict(ident, axis_1=a1.tolist(), axis_2=a2.tolist(), dim=dim)
                res.case((rep, kind, "rotated", dim))
                try:
                    mr = law_3d(kind, p, a1=a1[:dim] if False else a1, a2=a2, dim=3)
                except Exception as ex:  # noqa: BLE001
                    res.fail(f"law={kind} rotated-axes raises", f"constructor raised {ex!r} for orthogonal unnormalised axes", ident2)
                    continue
                want = rotate_mandel(C3, Q3)
                if not (np.abs(mr.C - want).max() <= 1e-8 * sc):
                    res.fail(f"law={kind} rotated-tensor", f"law with axes rotated by Q differs from the Q-rotated tensor by {np.abs(mr.C - want).max():.3e}", ident2)
                if not (np.abs(mr.C @ mr.S - np.eye(6)).max() <= 1e-8):
                    res.fail(f"law={kind} rotated C.S=I", "C S != I for rotated axes", ident2)
            # 2D laws whose material axes are tilted OUT of the (x, y) plane: the 2D law is still the reduction of the rotated 3D law
            # (zero out-of-plane STRESS, shear components included, in plane stress; zero out-of-plane strain in plane strain)
            Qt = rand_rotation(rng, 3)
            a1t, a2t = Qt[:, 0] * rng.choice([1.0, 2.0]), Qt[:, 1] * rng.choice([1.0, 0.5])
            C3t = rotate_mandel(C3, Qt)
            S3t = np.linalg.inv(C3t)
            for ps in (True, False):
                identt = dict(ident, axis_1=a1t.tolist(), axis_2=a2t.tolist(), dim=2, planeStress=ps)
                res.case((rep, kind, "tilted-plane", ps))
                try:
                    m2t = law_3d(kind, p, a1=a1t, a2=a2t, dim=2, ps=ps)
                except Exception as ex:  # noqa: BLE001
                    res.fail(f"law={kind} 2D law with axes out of the plane raises", f"constructor raised {ex!r}", identt)
                    continue
                wantt = np.linalg.inv(S3t[np.ix_(idx, idx)]) if ps else C3t[np.ix_(idx, idx)]
                if not (np.abs(m2t.C - wantt).max() <= 1e-8 * sc):
                    res.fail(f"law={kind} plane-{'stress' if ps else 'strain'}-reduction with axes out of the plane",
                             f"2D law differs from the {'plane-stress condensation' if ps else 'plane-strain restriction'} of the rotated 3D law by {np.abs(m2t.C - wantt).max():.3e}", identt)
        # unit systems: the law is homogeneous of degree one in the moduli. The same material entered in another unit
        # (MPa -> Pa, GPa, N/mm^2 -> TPa ...), with material axes that are not the global ones, has C multiplied and S
        # divided by the unit factor, S stays the symmetric positive definite inverse of C, and the 2D laws stay the reductions.
        for kind in ("iso", "ti", "ortho", "aniso"):
            unit = rng.choice([1e-9, 1e-6, 1e-3, 1e3, 1e6, 1e9, 1e11])
            dimu, psu = rng.choice([(3, False), (3, False), (2, True), (2, False)])
            Qu = rand_rotation(rng, 3 if kind != "aniso" else dimu)
            Q3u = np.eye(3)
            Q3u[:Qu.shape[0], :Qu.shape[0]] = Qu
            a1u, a2u = tuple(Q3u[:, 0]), tuple(Q3u[:, 1])
            identu = dict(law=kind, dim=dimu, planeStress=psu, unit=unit, axis_1=list(a1u), axis_2=list(a2u))
            res.case((rep, "units", kind, dimu, psu, unit))
            try:
                if kind == "aniso":
                    baseu = law_3d("ortho", draw(rng, "ortho"), dim=dimu, ps=False).C
                    nu_ = baseu.shape[0]
                    Gu = np.array([[q(rng, -1, 1) for _ in range(nu_)] for _ in range(nu_)])
                    baseu = baseu + 0.25 * (Gu + Gu.T)
                    wu, _ = np.linalg.eigh(baseu)
                    if not (wu.min() >= 0.5):
                        baseu = baseu + (0.5 - wu.min()) * np.eye(nu_)
                    identu["C_mandel"] = baseu.tolist()
                    m_one = E_.Anisotropic(dimu, baseu, False, a1u, a2u)
                    m_unit = E_.Anisotropic(dimu, baseu * unit, False, a1u, a2u)
                else:
                    pu = draw(rng, kind)
                    identu["params"] = pu
                    pscaled = {k_: (v_ if k_.startswith("v") else v_ * unit) for k_, v_ in pu.items()}
                    m_one = law_3d(kind, pu, a1u, a2u, dim=dimu, ps=psu)
                    m_unit = law_3d(kind, pscaled, a1u, a2u, dim=dimu, ps=psu)
                C1u, S1u = np.asarray(m_one.C, float), np.asarray(m_one.S, float)
                Cuu, Suu = np.asarray(m_unit.C, float), np.asarray(m_unit.S, float)
            except Exception as ex:  # noqa: BLE001
                res.fail(f"law={kind} in another unit system raises", f"{type(ex).__name__}: {str(ex)[:150]}", identu)
                continue
            nu_ = C1u.shape[-1]
            errC = np.abs(Cuu - unit * C1u).max() / np.abs(unit * C1u).max()
            errS = np.abs(Suu - S1u / unit).max() / np.abs(S1u / unit).max()
            if not (errC <= 1e-9):
                res.fail(f"law={kind} stiffness depends on the unit system", f"C(unit * moduli) differs from unit * C(moduli) by a relative {errC:.3e} (unit factor {unit:g})", identu)
            if not (errS <= 1e-9):
                res.fail(f"law={kind} compliance depends on the unit system", f"S(unit * moduli) differs from S(moduli) / unit by a relative {errS:.3e} (unit factor {unit:g})", identu)
            if not (np.abs(Cuu @ Suu - np.eye(nu_)).max() <= 1e-8):
                res.fail(f"law={kind} C.S=I in another unit system", f"|C S - I| = {np.abs(Cuu @ Suu - np.eye(nu_)).max():.3e} (unit factor {unit:g})", identu)
            if not (np.linalg.eigvalsh((Suu + Suu.T) / 2).min() > 0):
                res.fail(f"law={kind} compliance positive-definite in another unit system", f"S has eigenvalue {np.linalg.eigvalsh((Suu + Suu.T) / 2).min():.3e} <= 0 (unit factor {unit:g})", identu)
        # the exported change of basis is linear in the matrix: Apply_Pmat(P, M) is P M P^T (P^T M P towards the material frame)
        # whatever the magnitude of M (a stiffness in Pa, a compliance in 1/Pa), for one frame or one frame per element
        for dim in (2, 3):
            nd = 3 if dim == 2 else 6
            nfr = rng.choice([0, 3])
            Qm = [rand_rotation(rng, dim) for _ in range(max(nfr, 1))]
            A1m = np.array([Q_[:, 0] for Q_ in Qm])
            A2m = np.array([Q_[:, 1] for Q_ in Qm])
            mag = rng.choice([1e-12, 1e-9, 1e-6, 1.0, 1e6, 1e11])
            Gm = np.array([[q(rng, -1, 1) for _ in range(nd)] for _ in range(nd)])
            Mm = (Gm + Gm.T + 4 * np.eye(nd)) * mag
            identm = dict(dim=dim, frames=nfr, axis_1=A1m.tolist(), axis_2=A2m.tolist(), M=Mm.tolist())
            res.case((rep, "apply-pmat-magnitude", dim, nfr, mag))
            try:
                Pm = Get_Pmat(A1m if nfr else A1m[0], A2m if nfr else A2m[0])
                Mg = np.asarray(Apply_Pmat(Pm, Mm, toGlobal=True), float).reshape(-1, nd, nd)
                Ml = np.asarray(Apply_Pmat(Pm, Mm, toGlobal=False), float).reshape(-1, nd, nd)
            except Exception as ex:  # noqa: BLE001
                res.fail(f"Apply_Pmat dim={dim} raises", f"{type(ex).__name__}: {str(ex)[:150]}", identm)
                continue
            Pf = np.asarray(Pm, float).reshape(-1, nd, nd)
            for k in range(Pf.shape[0]):
                eg = np.abs(Mg[k] - Pf[k] @ Mm @ Pf[k].T).max() / np.abs(Mm).max()
                el = np.abs(Ml[k] - Pf[k].T @ Mm @ Pf[k]).max() / np.abs(Mm).max()
                if not (eg <= 1e-12) or not (el <= 1e-12):
                    res.fail(f"Apply_Pmat dim={dim} is not P M P^T for a matrix of small or large magnitude",
                             f"Apply_Pmat(P, M) differs from the matrix product by a relative {max(eg, el):.3e} for |M| ~ {mag:g}", identm)
                    break
        # Get_Pmat for scalar / per-element / per-Gauss-point axes, orthonormal or merely orthogonal
        for dim in (2, 3):
            shape = rng.choice([(), (3,), (2, 2)])
            n = int(np.prod(shape)) if shape else 1
            A1 = np.zeros((n, dim))
            A2 = np.zeros((n, dim))
            Qs = []
            for k in range(n):
                Q = rand_rotation(rng, dim)
                if not (rng.random() >= 0.3) and dim == 2:
                    Q = Q @ np.diag([1, -1])  # reflection
                Qs.append(Q)
                A1[k], A2[k] = Q[:, 0] * rng.choice([1.0, 2.0, 0.5]), Q[:, 1] * rng.choice([1.0, 3.0, 0.25])
            a1 = A1.reshape(shape + (dim,)) if shape else A1[0]
            a2 = A2.reshape(shape + (dim,)) if shape else A2[0]
            ident3 = dict(dim=dim, axes_shape=list(shape), axis_1=np.asarray(a1).tolist(), axis_2=np.asarray(a2).tolist())
            res.case((rep, "pmat", dim, shape))
            try:
                P = Get_Pmat(a1, a2)
            except Exception as ex:  # noqa: BLE001
                res.fail(f"Get_Pmat dim={dim} raises", f"Get_Pmat raised {ex!r} for orthogonal axes", ident3)
                continue
            nd = 3 if dim == 2 else 6
            Pf = np.asarray(P).reshape(-1, nd, nd)
            for k in range(n):
                if not (np.abs(Pf[k] @ Pf[k].T - np.eye(nd)).max() <= 1e-9):
                    res.fail(f"Get_Pmat dim={dim} orthogonal", f"P P^T - I = {np.abs(Pf[k] @ Pf[k].T - np.eye(nd)).max():.3e} for orthogonal (unnormalised) axes", ident3)
                    break
                # tensor rotation of a random symmetric strain
                if dim == 3 and not (abs(np.linalg.det(Qs[k]) - 1) >= 1e-9):
                    e = np.array([[q(rng, -1, 1) for _ in range(3)] for _ in range(3)])
                    e = (e + e.T) / 2
                    w = np.array([1, 1, 1, np.sqrt(2), np.sqrt(2), np.sqrt(2)])
                    vec = lambda t: np.array([t[i, j] for (i, j) in MANDEL]) * w  # noqa: E731
                    if not (np.abs(Pf[k] @ vec(e) - vec(Qs[k] @ e @ Qs[k].T)).max() <= 1e-9):
                        res.fail("Get_Pmat dim=3 tensor-rotation", "P vec(eps) != vec(Q eps Q^T)", ident3)
                        break
                if dim == 2:
                    # axes given with two components (the 2D branch of Get_Pmat); also for a reflected frame
                    e2 = np.array([[q(rng, -1, 1) for _ in range(2)] for _ in range(2)])
                    e2 = (e2 + e2.T) / 2
                    vec2 = lambda t: np.array([t[0, 0], t[1, 1], np.sqrt(2) * t[0, 1]])  # noqa: E731
                    if not (np.abs(Pf[k] @ vec2(e2) - vec2(Qs[k] @ e2 @ Qs[k].T)).max() <= 1e-9):
                        res.fail("Get_Pmat dim=2 tensor-rotation", "P vec(eps) != vec(Q eps Q^T) for axes given with two components", ident3)
                        break
        # Voigt vs Kelvin-Mandel input for the anisotropic law
        for dim in (2, 3):
            base = law_3d("ortho", draw(rng, "ortho"), dim=dim, ps=False).C
            n = base.shape[0]
            if rep % 2 == 1:
                # fully populated (triclinic) symmetric positive definite stiffness: every coupling entry is exercised
                G_ = np.array([[q(rng, -1, 1) for _ in range(n)] for _ in range(n)])
                base = base + 0.5 * (G_ + G_.T) + 0.0 * np.eye(n)
                w_, _ = np.linalg.eigh(base)
                if not (w_.min() >= 0.5):
                    base = base + (0.5 - w_.min()) * np.eye(n)
            nn = 2 if dim == 2 else 3
            voigt = base.copy()
            voigt[nn:, nn:] /= 2
            voigt[:nn, nn:] /= np.sqrt(2)
            voigt[nn:, :nn] /= np.sqrt(2)
            Q = rand_rotation(rng, dim)
            Q3 = np.eye(3)
            Q3[:dim, :dim] = Q
            a1, a2 = Q3[:, 0], Q3[:, 1]
            Am = E_.Anisotropic(dim, base, False, a1, a2)
            Av = E_.Anisotropic(dim, voigt, True, a1, a2)
            res.case((rep, "aniso", dim))
            if not (np.abs(Am.C - Av.C).max() <= 1e-9 * np.abs(base).max()):
                res.fail(f"anisotropic voigt-vs-mandel dim={dim}", f"same material entered in Voigt and Kelvin-Mandel notation gives laws differing by {np.abs(Am.C - Av.C).max():.3e}", dict(dim=dim))
            if not (np.abs(Am.C @ Am.S - np.eye(n)).max() <= 1e-8):
                res.fail(f"anisotropic C.S=I dim={dim}", "C S != I", dict(dim=dim))
            # a table of moduli typed in as whole numbers (integer dtype) is the same material as the same table in floats
            vint = np.diag([40, 30, 20, 6, 5, 4][:n] if dim == 3 else [40, 30, 6]).astype(np.int64)
            vint[0, 1] = vint[1, 0] = 7
            vint[0, n - 1] = vint[n - 1, 0] = 3
            try:
                Ai = E_.Anisotropic(dim, vint, True, a1, a2)
                Af = E_.Anisotropic(dim, vint.astype(float), True, a1, a2)
                res.case((rep, "aniso-int", dim))
                if not (np.abs(np.asarray(Ai.C, float) - Af.C).max() <= 1e-9 * np.abs(Af.C).max()):
                    res.fail(f"anisotropic integer Voigt input dim={dim}", f"the Voigt matrix given with an integer dtype gives a law differing by {np.abs(np.asarray(Ai.C, float) - Af.C).max():.3e} from the same matrix in floats",
                             dict(dim=dim, voigt=vint.tolist()))
            except Exception as ex:  # noqa: BLE001
                res.fail(f"anisotropic integer Voigt input raises dim={dim}", f"{type(ex).__name__}: {str(ex)[:120]}", dict(dim=dim, voigt=vint.tolist()))
        # the anisotropic class asked for a 2D law from the FULL 3D stiffness of the material (6x6, Voigt or Kelvin-Mandel,
        # homogeneous / per element / per Gauss point) and its axes: the 2D law is the plane-strain reduction of the 3D law,
        # i.e. the (xx, yy, xy) block of the independently rotated 4th-order tensor, as in the other law classes
        for src in ("iso", "ti", "ortho", "triclinic"):
            psrc = draw(rng, src if src != "triclinic" else "ortho")
            C3m = np.asarray(law_3d(src if src != "triclinic" else "ortho", psrc).C, float)
            if src == "triclinic":
                Gt = np.array([[q(rng, -1, 1) for _ in range(6)] for _ in range(6)])
                C3m = C3m + 0.25 * (Gt + Gt.T)
                wt_, _ = np.linalg.eigh(C3m)
                if not (wt_.min() >= 0.5):
                    C3m = C3m + (0.5 - wt_.min()) * np.eye(6)
            useV = bool(rng.random() >= 0.5)
            shape = rng.choice([(), (), (3,), (2, 2)])
            npts = int(np.prod(shape)) if shape else 1
            facs = np.array([1.0, 0.875, 1.25, 0.5][:npts])
            Qa = rand_rotation(rng, 3) if rng.random() >= 0.25 else np.eye(3)
            a1a, a2a = Qa[:, 0] * rng.choice([1.0, 2.0, 0.5]), Qa[:, 1] * rng.choice([1.0, 3.0, 0.25])
            Cin1 = C3m.copy()
            if useV:
                Cin1[3:, 3:] /= 2
                Cin1[:3, 3:] /= np.sqrt(2)
                Cin1[3:, :3] /= np.sqrt(2)
            Cin = (facs[:, None, None] * Cin1[None]).reshape(shape + (6, 6)) if shape else Cin1
            identa = dict(source_law=src, dim=2, voigt=useV, field_shape=list(shape), field_factors=facs.tolist(),
                          axis_1=a1a.tolist(), axis_2=a2a.tolist(), C_given=Cin1.tolist())
            res.case((rep, "aniso-2d-from-3d", src, useV, shape))
            res.count("aniso-2d-from-3d")
            try:
                ma = E_.Anisotropic(2, Cin, useV, tuple(a1a), tuple(a2a))
                Ca, Sa = np.asarray(ma.C, float), np.asarray(ma.S, float)
            except Exception as ex:  # noqa: BLE001
                res.fail("anisotropic 2D law from a 3D stiffness raises", f"{type(ex).__name__}: {str(ex)[:150]}", identa)
                continue
            if Ca.shape != tuple(shape) + (3, 3) or Sa.shape != tuple(shape) + (3, 3):
                res.fail("anisotropic 2D law from a 3D stiffness is not a 3x3 law", f"C has shape {Ca.shape}, S has shape {Sa.shape} for a 2D model and a stiffness of shape {np.shape(Cin)}", identa)
                continue
            want1 = rotate_mandel(C3m, Qa)[np.ix_(idx, idx)]
            Ca, Sa = Ca.reshape(npts, 3, 3), Sa.reshape(npts, 3, 3)
            for e in range(npts):
                wante = facs[e] * want1
                erra = np.abs(Ca[e] - wante).max() / np.abs(wante).max()
                if not (erra <= 1e-8):
                    res.fail("anisotropic 2D law is not the plane-strain reduction of the 3D stiffness it was given",
                             f"entry {e}: C of Anisotropic(2, C(6,6) {'Voigt' if useV else 'Kelvin-Mandel'}) differs from the (xx, yy, xy) block of the rotated 3D tensor by a relative {erra:.3e}", identa)
                    break
                if not (np.abs(Ca[e] @ Sa[e] - np.eye(3)).max() <= 1e-8):
                    res.fail("anisotropic 2D law from a 3D stiffness C.S=I", f"entry {e}: |C S - I| = {np.abs(Ca[e] @ Sa[e] - np.eye(3)).max():.3e}", identa)
                    break
            else:
                if src in ("ti", "ortho") and not shape:
                    # the same material through its own class, plane strain
                    try:
                        mo = law_3d(src, psrc, a1=tuple(a1a), a2=tuple(a2a), dim=2, ps=False)
                        erro = np.abs(Ca[0] - mo.C).max() / np.abs(mo.C).max()
                    except Exception as ex:  # noqa: BLE001
                        res.fail(f"law={src} 2D law with axes out of the plane raises", f"constructor raised {ex!r}", identa)
                        continue
                    if not (erro <= 1e-8):
                        res.fail("anisotropic 2D law differs from the plane-strain law of the same material in its own class",
                                 f"Anisotropic(2, C3D, axes) differs from {src}(2, planeStress=False, axes) by a relative {erro:.3e}", dict(identa, params=psrc))
        # heterogeneous parameter fields, per element (Ne,) and per Gauss point (Ne, nPg), with rotated material axes:
        # every entry of the field law is the scalar law of that entry's parameters
        for kind in ("iso", "ti", "ortho"):
            for dim, ps in ((2, True), (2, False), (3, False)):
                shape = rng.choice([(3,), (2, 2)])
                npts = int(np.prod(shape))
                plist = [draw(rng, kind) for _ in range(npts)]
                Qh = rand_rotation(rng, dim)
                Q3h = np.eye(3)
                Q3h[:dim, :dim] = Qh
                a1h, a2h = tuple(Q3h[:, 0]), tuple(Q3h[:, 1])
                pfield = {k_: np.array([pp[k_] for pp in plist], dtype=float).reshape(shape) for k_ in plist[0]}
                res.case((rep, "field", kind, dim, ps, shape))
                identh = dict(law=kind, dim=dim, planeStress=ps, field_shape=list(shape), axis_1=list(a1h), axis_2=list(a2h))
                try:
                    Cf = np.asarray(law_3d(kind, pfield, a1h, a2h, dim=dim, ps=ps).C)
                    Sf = np.asarray(law_3d(kind, pfield, a1h, a2h, dim=dim, ps=ps).S)
                except Exception as ex:  # noqa: BLE001
                    res.fail(f"heterogeneous law raises law={kind}", f"{type(ex).__name__}: {str(ex)[:150]}", identh)
                    continue
                nn_ = Cf.shape[-1]
                Cf, Sf = Cf.reshape(npts, nn_, nn_), Sf.reshape(npts, nn_, nn_)
                for e in range(npts):
                    ref = law_3d(kind, plist[e], a1h, a2h, dim=dim, ps=ps)
                    if not (np.abs(Cf[e] - ref.C).max() <= 1e-9 * np.abs(ref.C).max()) or not (np.abs(Sf[e] - ref.S).max() <= 1e-9 * np.abs(ref.S).max()):
                        res.fail(f"heterogeneous law differs from the scalar law law={kind} planeStress={ps} field={'per Gauss point' if len(shape) == 2 else 'per element'}",
                                 f"entry {e} of C / S built from parameter arrays of shape {shape} differs from the law of the same parameters given as scalars by {np.abs(Cf[e] - ref.C).max():.3e}", identh)
                        break
        # a field on ONE parameter only, the others staying scalars (a stiffness map identified on a single modulus)
        for kind in ("ti", "ortho"):
            p0 = draw(rng, kind)
            for name_ in p0:
                dim, ps = rng.choice([(2, True), (2, False), (3, False)])
                shape = rng.choice([(3,), (2, 2)])
                npts = int(np.prod(shape))
                vals = np.array([p0[name_] * f_ for f_ in (1.0, 0.875, 1.125, 0.9375)][:npts], dtype=float)
                pone = dict(p0)
                pone[name_] = vals.reshape(shape)
                res.case((rep, "field-one", kind, name_, dim, ps, shape))
                ident1 = dict(law=kind, dim=dim, planeStress=ps, field_on=name_, field_shape=list(shape), params={k_: (v_ if k_ != name_ else vals.tolist()) for k_, v_ in p0.items()})
                try:
                    m1 = law_3d(kind, pone, dim=dim, ps=ps)
                    Cf, Sf = np.asarray(m1.C, dtype=float), np.asarray(m1.S, dtype=float)
                except Exception as ex:  # noqa: BLE001
                    res.fail(f"heterogeneous law raises law={kind} field on {name_} only", f"{type(ex).__name__}: {str(ex)[:150]}", ident1)
                    continue
                nn_ = Cf.shape[-1]
                if Cf.size != npts * nn_ * nn_:
                    res.fail(f"heterogeneous law is not a field law={kind} field on {name_} only", f"C has shape {Cf.shape} for a parameter of shape {shape}", ident1)
                    continue
                Cf, Sf = Cf.reshape(npts, nn_, nn_), Sf.reshape(npts, nn_, nn_)
                for e in range(npts):
                    ref = law_3d(kind, dict(p0, **{name_: float(vals[e])}), dim=dim, ps=ps)
                    if not (np.abs(Cf[e] - ref.C).max() <= 1e-9 * np.abs(ref.C).max()) or not (np.abs(Sf[e] - ref.S).max() <= 1e-9 * np.abs(ref.S).max()):
                        res.fail(f"heterogeneous law differs from the scalar law law={kind} field on {name_} only",
                                 f"entry {e} of C / S differs from the law of the same parameters given as scalars by {np.abs(Cf[e] - ref.C).max():.3e}", ident1)
                        break
        # parameter change -> law changes on next read (scalar, array, in-place + re-assignment)
        for dim, ps in ((2, True), (3, False)):
            mat = E_.Isotropic(dim, E=4.0, v=0.25, planeStress=ps)
            _ = mat.C
            Ne = 3
            Earr = np.array([q(rng, 1, 9) for _ in range(Ne)])
            mat.E = Earr
            C1 = mat.C
            res.case((rep, "param-array", dim))
            for e in range(Ne):
                ref = E_.Isotropic(dim, E=float(Earr[e]), v=0.25, planeStress=ps).C
                if not (np.abs(C1[e] - ref).max() <= 1e-9 * np.abs(ref).max()):
                    res.fail("per-element parameter field", f"entry {e} of the heterogeneous law differs from the scalar formula", dict(dim=dim, E=Earr.tolist()))
                    break
            Earr *= 0.5
            mat.E = Earr
            C2 = mat.C
            ref = E_.Isotropic(dim, E=float(Earr[0]), v=0.25, planeStress=ps).C
            res.case((rep, "param-inplace", dim))
            if not (np.abs(C2[0] - ref).max() <= 1e-9 * np.abs(ref).max()):
                res.fail("parameter changed in place then re-assigned", "material.C still returns the law of the old values after `E *= 0.5; mat.E = E`", dict(dim=dim))
            mat.v = 0.125
            ref = E_.Isotropic(dim, E=float(Earr[0]), v=0.125, planeStress=ps).C
            if not (np.abs(mat.C[0] - ref).max() <= 1e-9 * np.abs(ref).max()):
                res.fail("parameter change not seen", "material.C does not follow v", dict(dim=dim))
            # tiny changes (finite-difference sensitivities, ramps in small increments): every change counts, however small
            mt = E_.Isotropic(dim, E=4.0, v=0.25, planeStress=ps)
            _ = mt.C, mt.S
            for name_, new_ in (("E", 4.0 * (1 + 1e-7)), ("v", 0.25 + 2e-9)):
                setattr(mt, name_, new_)
                kw_ = dict(E=float(mt.E), v=float(mt.v))
                reft = E_.Isotropic(dim, planeStress=ps, **kw_)
                res.case((rep, "param-tiny", dim, name_))
                if not (np.abs(mt.C - reft.C).max() <= 1e-13 * np.abs(reft.C).max()) or not (np.abs(mt.S - reft.S).max() <= 1e-13 * np.abs(reft.S).max()):
                    res.fail("tiny parameter change not seen", f"after {name_} was changed by a relative 1e-7 / absolute 2e-9, C or S is still the law of the old value (difference to a new law {np.abs(mt.C - reft.C).max() / np.abs(reft.C).max():.2e})",
                             dict(dim=dim, parameter=name_, new_value=new_))
            El0 = 10.0
            mti = E_.TransverselyIsotropic(dim, El0, 4.0, 2.0, 0.25, 0.3, planeStress=ps)
            _ = mti.C
            for kk in range(50):
                mti.El = El0 * (1 + 2e-6) ** (kk + 1)
            refi = E_.TransverselyIsotropic(dim, float(mti.El), 4.0, 2.0, 0.25, 0.3, planeStress=ps)
            res.case((rep, "param-ramp", dim))
            if not (np.abs(mti.C - refi.C).max() <= 1e-12 * np.abs(refi.C).max()):
                res.fail("parameter ramped in small increments not seen", f"after 50 increments of 2e-6 (relative) of El the law differs from a new law with the final value by {np.abs(mti.C - refi.C).max() / np.abs(refi.C).max():.2e}", dict(dim=dim))

        # the law is the law of the parameters the material REPORTS: whatever a caller does with an array obtained from the material
        # (a read hands out the values; writing into what was handed out is either invisible or followed by the law)
        for kindr in ("iso", "ti", "ortho"):
            dimr = 3
            pr = draw(rng, kindr)
            namer = {"iso": "E", "ti": "Gl", "ortho": "E2"}[kindr]
            fieldr = np.array([float(pr[namer]) * (1 + 0.125 * k_) for k_ in range(4)])
            matr = law_3d(kindr, dict(pr, **{namer: fieldr.copy()}), dim=dimr, ps=False)
            _ = matr.C, matr.S
            identr = dict(law=kindr, dim=dimr, parameter=namer, ops=[f"x = material.{namer}", "x[1] *= 0.1", "material.C"])
            res.case((rep, "edit-what-a-read-returned", kindr))
            try:
                got_ = getattr(matr, namer)
                got_[1] *= 0.1
                rep_ = np.asarray(getattr(matr, namer), float)
                Cr, Sr = np.asarray(matr.C), np.asarray(matr.S)
                for e in range(4):
                    refr = law_3d(kindr, dict(pr, **{namer: float(rep_[e])}), dim=dimr, ps=False)
                    if not (np.abs(Cr[e] - refr.C).max() <= 1e-9 * np.abs(refr.C).max()) or not (np.abs(Sr[e] - refr.S).max() <= 1e-9 * np.abs(refr.S).max()):
                        res.fail(f"law differs from the parameters the material reports law={kindr}",
                                 f"after `x = material.{namer}; x[1] *= 0.1` the material reports {namer} = {rep_.tolist()} while entry {e} of C / S is the law of another value "
                                 f"(relative difference {np.abs(Cr[e] - refr.C).max() / np.abs(refr.C).max():.2e})", identr)
                        break
            except Exception as ex:  # noqa: BLE001
                res.fail(f"editing what a parameter read returned raises law={kindr}", f"{type(ex).__name__}: {str(ex)[:150]}", identr)
        # every way of reading the law follows a parameter change, whichever is used FIRST after the change: C, S, and the Walpole decomposition
        for kindw in ("ti", "ortho"):
            pw = draw(rng, kindw)
            namew = {"ti": "El", "ortho": "E1"}[kindw]
            for first in ("C", "Walpole"):
                for fieldw in (False,):       # (a field on one parameter only is refused by Walpole_Decomposition itself)
                    identw = dict(law=kindw, parameter=namew, field=fieldw, first_read_after_the_change=first)
                    res.case((rep, "walpole-after-change", kindw, first, fieldw))
                    try:
                        v0 = np.array([float(pw[namew]), float(pw[namew]) * 1.25]) if fieldw else float(pw[namew])
                        matw = law_3d(kindw, dict(pw, **{namew: v0}), dim=3, ps=False)
                        _ = matw.C, matw.S
                        ci0, Ei0 = matw.Walpole_Decomposition()
                        setattr(matw, namew, v0 * 2)
                        if first == "C":
                            _ = matw.C
                        ciw, Eiw = matw.Walpole_Decomposition()
                        Cw = np.asarray(matw.C, float)
                        ciw, Eiw = np.asarray(ciw, float), np.asarray(Eiw, float)
                        sumw = np.einsum("i...,ijk->...jk", ciw, Eiw) if ciw.ndim > 1 else np.einsum("i,ijk->jk", ciw, Eiw)
                        reffw = law_3d(kindw, dict(pw, **{namew: (v0 * 2)[0] if fieldw else v0 * 2}), dim=3, ps=False).C
                        gotw = sumw[0] if fieldw else sumw
                        Cw0 = Cw[0] if fieldw else Cw
                        if not (np.abs(gotw - reffw).max() <= 1e-9 * np.abs(reffw).max()) or not (np.abs(Cw0 - reffw).max() <= 1e-9 * np.abs(reffw).max()):
                            res.fail(f"Walpole decomposition does not follow a parameter change law={kindw}",
                                     f"after material.{namew} was doubled, sum c_i E_i differs from the law of the new parameters by {np.abs(gotw - reffw).max() / np.abs(reffw).max():.2e} "
                                     f"(C itself by {np.abs(Cw0 - reffw).max() / np.abs(reffw).max():.2e}) when the first read after the change is {first}", identw)
                    except AssertionError as ex:
                        res.fail(f"Walpole decomposition does not follow a parameter change law={kindw}", f"AssertionError inside Walpole_Decomposition() after material.{namew} was doubled (first read: {first}): {str(ex)[:100]}", identw)
                    except Exception as ex:  # noqa: BLE001
                        res.fail(f"Walpole decomposition after a parameter change raises law={kindw}", f"{type(ex).__name__}: {str(ex)[:150]}", identw)

    answers = driver.ask(lines)
    if answers is None:
        res.disagree("driver", "model driver does not run: " + getattr(driver, "error", "")[:400])
    else:
        for (ident, tag, C, S), ans in zip(expect, answers):
            res.traces += 1
            parts = [p_.strip() for p_ in ans.split("|")]
            try:
                mats = [np.array([float(parse_frac(t)) for t in p_.split()]) for p_ in parts]
            except Exception:  # noqa: BLE001
                res.disagree("model-answer", dict(ident=ident, tag=tag, answer=ans[:100]))
                continue
            n = C.shape[0]
            if not (np.abs(mats[0].reshape(n, n) - C).max() <= 1e-9 * np.abs(C).max()):
                res.disagree("stiffness", dict(ident=ident, tag=tag, maxdev=float(np.abs(mats[0].reshape(n, n) - C).max())))
            if S is not None and len(mats) > 1 and not (np.abs(mats[1].reshape(n, n) - S).max() <= 1e-9 * np.abs(S).max()):
                res.disagree("compliance", dict(ident=ident, tag=tag))
        res.sample(dict(request=lines[0], model=answers[0][:120]))
    res.search_note = "random admissible materials, axes and parameter histories found no violated law identity"
    res.write("seeded admissible parameters for the isotropic / transversely isotropic / orthotropic / anisotropic laws, rational rotations composed from Pythagorean angles, "
              "axes scaled by random factors, scalar / per-element / per-Gauss axes, 2D and 3D; non-trivial = non-identity rotation or heterogeneous input; "
              "distinct = distinct (repetition, law, check)")


if __name__ == "__main__":
    from tools.harness._common import run

    run(main)
