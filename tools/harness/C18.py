"""C18 harness.
(a) correspondence: W, dW/de, d²W/de² of the real laws (NeoHookean, MooneyRivlin, SaintVenantKirchhoff) at the Gauss points of
    deformed elements vs the translated invariants / law tables combined by the driver;
(b) the property on the real code, for every law (also CiarletGeymonat, HolzapfelOgden, a user energy through AutoDiff), 2D / 3D:
    dW/de and d²W/de² against central finite differences of W and dW/de along random symmetric strain directions,
    invariance under a superposed rotation, energy- and stress-free reference; every nonlinear element operator: tangent
    against finite differences of its residual; free motion under the midpoint scheme with the energy-conserving stresses:
    kinetic + stored energy over many steps."""

from __future__ import annotations

import warnings
from fractions import Fraction

import numpy as np
import scipy.linalg as sla

from tools.harness._common import Driver, Result, frac_str, parse_args, parse_frac, rng_for
from tools.harness import _meshes as M
from tools.harness.C10 import rodrigues

from EasyFEA import Models, Simulations, MatrixType, AlgoType
from EasyFEA.Models.HyperElastic import HyperElasticState
from EasyFEA.FEM import Operators, FeArray

H_ = Models.HyperElastic
S2 = np.sqrt(2)


def fs(x):
    return frac_str(Fraction(float(x)))


def kelvin(T):
    if T.shape[0] == 2:
        return np.array([T[0, 0], T[1, 1], S2 * T[0, 1]])
    return np.array([T[0, 0], T[1, 1], T[2, 2], S2 * T[1, 2], S2 * T[0, 2], S2 * T[0, 1]])


def make_laws(dim, rng):
    laws = [("NeoHookean", H_.NeoHookean(dim, 2.5), [2.5]),
            ("MooneyRivlin", H_.MooneyRivlin(dim, 1.5, 0.75, 4.0), [1.5, 0.75, 4.0]),
            ("SaintVenantKirchhoff", H_.SaintVenantKirchhoff(dim, 3.0, 2.0, 0.0), [3.0, 2.0, 0.0])]
    try:
        laws.append(("CiarletGeymonat", H_.CiarletGeymonat(dim, 2.0, 1.0, 0.5), None))
    except Exception:  # noqa: BLE001
        pass
    if dim == 3:
        try:
            T1 = np.array([1.0, 0.0, 0.0]); T2 = np.array([0.0, 1.0, 0.0])
            laws.append(("HolzapfelOgden", H_.HolzapfelOgden(3, 0.5, 4.0, 1.2, 5.0, 0.6, 3.0, 0.3, 2.0, 10.0, 0.2, 0.1, T1, T2), None))
            # fibre and sheet directions out of every coordinate plane (orthonormal, rational: a Pythagorean rotation of e_x, e_y)
            Rf = np.array([[2, -2, 1], [1, 2, 2], [-2, -1, 2]], dtype=float) / 3.0
            laws.append(("HolzapfelOgden", H_.HolzapfelOgden(3, 0.5, 4.0, 1.2, 5.0, 0.6, 3.0, 0.3, 2.0, 10.0, 0.2, 0.1, Rf[:, 0].copy(), Rf[:, 1].copy()), None))
        except Exception as ex:  # noqa: BLE001
            pass
    return laws


def homogeneous_state(et, F):
    """a one-/few-element mesh carrying the affine displacement u = (F - I) x"""
    dim = F.shape[0]
    mesh = M.mesh_2d(et, 1.0, 1.0, 1.0) if dim == 2 else M.mesh_3d(et, 1.0, 1.0, 1.0, 1.0, 1)
    X = mesh.coord[:, :dim]
    u = (X @ (F - np.eye(dim)).T)
    U = np.zeros((mesh.Nn, dim)); U[:, :] = u
    return mesh, U.ravel()


def law_values(law, mesh, u, mt=MatrixType.rigi):
    st = HyperElasticState(mesh.groupElem, u, mt)
    W = np.asarray(law.Compute_W(st))[0, 0]
    dW = np.asarray(law.Compute_dWde(st))[0, 0]
    d2W = np.asarray(law.Compute_d2Wde(st))[0, 0]
    return float(W), dW, d2W


def F_of_E(E):
    """symmetric F (stretch) with Green-Lagrange strain E"""
    C = 2 * E + np.eye(E.shape[0])
    return np.real(sla.sqrtm(C))


def main():
    args = parse_args()
    rng = rng_for(args)
    res = Result(args)
    driver = Driver("C18")
    warnings.filterwarnings("ignore")
    thorough = args.tier == "thorough"
    lines, expect = [], []

    def rand_sym(dim, amp, admissible=False):
        # admissible: the deformation F = sqrt(I + 2E) must exist with det F > 0, away from the singular limit
        # (the property quantifies over deformations with positive Jacobian); states outside are redrawn, not tested
        while True:
            A = np.array([[rng.gauss(0, 1) for _ in range(dim)] for _ in range(dim)])
            S = amp * (A + A.T) / 2
            if not admissible or not (np.linalg.eigvalsh(2 * S + np.eye(dim)).min() <= 0.35):
                return S

    # ---------------- law level ----------------
    for dim in (3, 2):
        et = "HEXA8" if dim == 3 else "QUAD4"
        for name, law, params in make_laws(dim, rng):
            res.count(f"law:{name}")
            for rep in range(3 if not thorough else 8):
                E0 = rand_sym(dim, 0.15, admissible=True)
                ident = dict(law=name, dim=dim, E=E0.tolist())
                try:
                    F0 = F_of_E(E0)
                    mesh, u = homogeneous_state(et, F0)
                    W0, dW0, d2W0 = law_values(law, mesh, u)
                except Exception as ex:  # noqa: BLE001
                    res.fail(f"law raises law={name} dim={dim}", f"{type(ex).__name__}: {str(ex)[:150]}", ident)
                    break
                res.case((name, dim, rep, "derivatives"))
                if not (np.isfinite(W0) and np.all(np.isfinite(dW0)) and np.all(np.isfinite(d2W0))):
                    res.fail(f"non-finite law={name}", "W, dW/de or d2W/de2 is not finite at an admissible deformation", ident)
                    continue
                # finite differences along a random symmetric direction
                dE = rand_sym(dim, 1.0)
                h = 1e-5
                vals = {}
                for sgn in (+1, -1):
                    m_, u_ = homogeneous_state(et, F_of_E(E0 + sgn * h * dE))
                    vals[sgn] = law_values(law, m_, u_)
                dWfd = (vals[1][0] - vals[-1][0]) / (2 * h)
                got1 = float(dW0 @ kelvin(dE))
                sc = 1 + abs(got1)
                if not (abs(dWfd - got1) <= 2e-7 * sc):
                    res.fail(f"stress is not the derivative of the energy law={name} dim={dim}", f"dW/de : dE = {got1} but the central difference of W along dE is {dWfd}", ident)
                d2fd = (vals[1][1] - vals[-1][1]) / (2 * h)
                got2 = d2W0 @ kelvin(dE)
                if not (np.abs(d2fd - got2).max() <= 2e-6 * (1 + np.abs(got2).max())):
                    res.fail(f"tangent is not the derivative of the stress law={name} dim={dim}", f"d2W/de2 · dE differs from the central difference of dW/de by {np.abs(d2fd - got2).max():.2e}", ident)
                if not (np.abs(d2W0 - d2W0.T).max() <= 1e-9 * (1 + np.abs(d2W0).max())):
                    res.fail(f"tangent not symmetric law={name} dim={dim}", f"max |d2W - d2W^T| = {np.abs(d2W0 - d2W0.T).max():.2e}", ident)
                # superposed rotation
                Q = rodrigues((0, 0, 1) if dim == 2 else (1, 2, -1), 0.7 + rep)[:dim, :dim]
                mq, uq = homogeneous_state(et, Q @ F0)
                Wq, dWq, d2Wq = law_values(law, mq, uq)
                res.case((name, dim, rep, "rotation"))
                if not (abs(Wq - W0) <= 1e-9 * (1 + abs(W0))) or not (np.abs(dWq - dW0).max() <= 1e-8 * (1 + np.abs(dW0).max())):
                    res.fail(f"energy not frame-indifferent law={name} dim={dim}", f"W(QF) - W(F) = {Wq - W0:.2e}, max |S(QF) - S(F)| = {np.abs(dWq - dW0).max():.2e}", ident)
                # correspondence with the translated tables (3D, translated laws)
                if params is not None and dim == 3:
                    st = HyperElasticState(mesh.groupElem, u, MatrixType.rigi)
                    C9 = [np.asarray(c)[0, 0] for c in st._Compute_C()]
                    cxx, cxy, cxz, _, cyy, cyz, _, _, czz = C9
                    I3 = float(np.asarray(st.Compute_I3())[0, 0])
                    lines.append(f"law {name} | " + " ".join(fs(v) for v in (cxx, cyy, czz, cyz, cxz, cxy)) + " | " + fs(I3 ** (1 / 6)) + " | " + " ".join(fs(v) for v in params))
                    expect.append((W0, dW0, d2W0, dict(ident)))
            # reference configuration
            try:
                mesh, u = homogeneous_state(et, np.eye(dim))
                Wr, dWr, _ = law_values(law, mesh, u)
                res.case((name, dim, "reference"))
                if not (abs(Wr) <= 1e-12) or not (np.abs(dWr).max() <= 1e-10):
                    res.fail(f"reference configuration not stress-free law={name} dim={dim}", f"W(I) = {Wr}, max |S(I)| = {np.abs(dWr).max():.2e}", dict(law=name, dim=dim))
            except Exception as ex:  # noqa: BLE001
                res.fail(f"law raises at the reference law={name} dim={dim}", f"{type(ex).__name__}: {str(ex)[:150]}", dict(law=name, dim=dim))

    # ---------------- element operators: tangent = d residual / d u ----------------
    for et in (["TETRA4", "HEXA8", "PRISM6", "TRI3", "QUAD4"] if not thorough else ["TETRA4", "TETRA10", "HEXA8", "PRISM6", "TRI3", "TRI6", "QUAD4", "QUAD8"]):
        dim = M.dim_of(et)
        mesh = M.mesh_2d(et, 1.0, 1.0, 1.0) if dim == 2 else M.mesh_3d(et, 1.0, 1.0, 1.0, 1.0, 1)
        g = mesh.groupElem
        law = H_.NeoHookean(dim, 2.0, thickness=[0.375, 2.5][len(et) % 2]) if dim == 2 else H_.MooneyRivlin(dim, 1.5, 0.75, 4.0)   # a 2D law carries a thickness: every operator scales with it
        u0 = np.array([rng.gauss(0, 0.03) for _ in range(mesh.Nn * dim)])
        v0 = np.array([rng.gauss(0, 0.1) for _ in range(mesh.Nn * dim)])
        asm = np.asarray(g.Get_assembly_e(dim))

        def fd_check(opname, fun, uu, tol=5e-6):
            """fun(u) -> (K_e, R_e): compares K_e with the central difference of R_e w.r.t. the element dofs"""
            try:
                K_e, R_e = fun(uu)[:2]
            except Exception as ex:  # noqa: BLE001
                res.fail(f"operator raises op={opname}", f"{type(ex).__name__}: {str(ex)[:150]}", dict(elemType=et, operator=opname))
                return
            K_e, R_e = np.asarray(K_e), np.asarray(R_e)
            e = rng.randrange(g.Ne)
            h = 1e-6
            Kfd = np.zeros_like(K_e[e])
            for j, dof in enumerate(asm[e]):
                up, um = uu.copy(), uu.copy()
                up[dof] += h
                um[dof] -= h
                Rp = np.asarray(fun(up)[1])[e].ravel()
                Rm = np.asarray(fun(um)[1])[e].ravel()
                Kfd[:, j] = (Rp - Rm) / (2 * h)
            res.case((et, opname))
            res.count(f"operator:{opname}")
            err = np.abs(Kfd - K_e[e]).max() / (1 + np.abs(K_e[e]).max())
            if not (err <= tol):
                res.fail(f"tangent is not the derivative of the residual op={opname}", f"max |K_e - dR_e/du| / |K_e| = {err:.2e} on {et}", dict(elemType=et, operator=opname, element=e))

        fd_check("SecondPiolaKirchhoffStressTensor", lambda uu: Operators.NonLinear.SecondPiolaKirchhoffStressTensor(law, HyperElasticState(g, uu, MatrixType.rigi)), u0)
        un = u0 * 0.5
        # discrete-gradient and path-quadrature stresses: unknown u_{n+1}, midpoint state (u_n + u_{n+1}) / 2; d/du_{n+1} of the residual = coefK K_e with coefK = 1/2
        def gonz(uu):
            K_e, R_e = Operators.NonLinear.GonzalezStressTensor(law, HyperElasticState(g, un, MatrixType.rigi), HyperElasticState(g, (un + uu) / 2, MatrixType.rigi), HyperElasticState(g, uu, MatrixType.rigi))
            return np.asarray(K_e) * 0.5, R_e
        fd_check("GonzalezStressTensor", gonz, u0, tol=2e-5)
        def quad(uu):
            out = Operators.NonLinear.TimeQuadratureStressTensor(law, HyperElasticState(g, un, MatrixType.rigi), HyperElasticState(g, (un + uu) / 2, MatrixType.rigi), HyperElasticState(g, uu, MatrixType.rigi), 0.5, 3)
            return np.asarray(out[0]) * 0.5, out[1]
        fd_check("TimeQuadratureStressTensor", quad, u0, tol=2e-5)
        # other time schemes: u_t = u_n + coefK (u_{n+1} - u_n), coefK = 1 (newmark), 1 - alpha (hht); fixed and adaptive rules
        for coefK_, npts_, tol_ in ((1.0, 2, None), (0.7, 3, None), (1.0, 4, None), (0.7, 1, 1e-8)):
            def quad2(uu, coefK_=coefK_, npts_=npts_, tol_=tol_):
                ut = un + coefK_ * (uu - un)
                out = Operators.NonLinear.TimeQuadratureStressTensor(law, HyperElasticState(g, un, MatrixType.rigi), HyperElasticState(g, ut, MatrixType.rigi), HyperElasticState(g, uu, MatrixType.rigi), coefK_, npts_, tol_)
                return np.asarray(out[0]) * coefK_, out[1]
            fd_check(f"TimeQuadratureStressTensor coefK={coefK_} nPoints={npts_} tol={tol_}", quad2, u0, tol=2e-5)
        # Kelvin-Voigt viscous element: F_visco(u, v) = C(u) v; the configuration tangent is d(C v)/du at fixed velocity
        try:
            law.eta = 0.35
            Kg_, Rv_, Cv_ = (np.asarray(a) for a in Operators.NonLinear.KelvinVoigtDamping(law, HyperElasticState(g, u0, MatrixType.rigi), v0))
            ve_ = v0[asm]
            res.case((et, "KelvinVoigt residual = C v"))
            res.count("operator:KelvinVoigtDamping")
            gapCv = np.abs(np.einsum("eij,ej->ei", Cv_, ve_) - Rv_).max() / (1e-300 + np.abs(Rv_).max())
            if not (gapCv <= 1e-9):
                res.fail("viscous residual is not C v op=KelvinVoigtDamping", f"max |R_e - C_e v_e| / |R_e| = {gapCv:.2e} on {et}", dict(elemType=et, operator="KelvinVoigtDamping"))
            if not (np.abs(Cv_ - np.swapaxes(Cv_, 1, 2)).max() <= 1e-10 * np.abs(Cv_).max()):
                res.fail("damping matrix not symmetric op=KelvinVoigtDamping", f"max |C_e - C_e'| = {np.abs(Cv_ - np.swapaxes(Cv_, 1, 2)).max():.2e} on {et}", dict(elemType=et, operator="KelvinVoigtDamping"))
            fd_check("KelvinVoigtDamping", lambda uu: Operators.NonLinear.KelvinVoigtDamping(law, HyperElasticState(g, uu, MatrixType.rigi), v0)[:2], u0)
        except Exception as ex:  # noqa: BLE001
            res.fail("operator raises op=KelvinVoigtDamping", f"{et}: {type(ex).__name__}: {str(ex)[:120]}", dict(elemType=et, operator="KelvinVoigtDamping"))
        finally:
            law.eta = 0.0
        # penalty contact against a rigid plane: gap g = (X + u - x0) . n at the surface Gauss points; R_e pushes the body out, K_e = -dR_e/du
        try:
            for bndc in mesh.Get_list_groupElem(dim - 1):
                mtc = MatrixType.mass
                Nc_ = np.asarray(bndc.Get_N_pg(mtc))[:, 0, :]
                nrm_ = np.array([0.6, 0.8, 0.0]) if dim == 2 else np.array([0.48, 0.6, 0.64])
                Xc_ = mesh.coord[np.asarray(bndc.connect)]
                x0_ = Xc_.reshape(-1, 3).mean(0)          # plane through the centroid of the boundary nodes: about half of the points penetrate
                asm_c = np.asarray(bndc.Get_assembly_e(dim))

                def contact(uu, bndc=bndc, Nc_=Nc_, Xc_=Xc_, x0_=x0_, nrm_=nrm_, mtc=mtc):
                    ue_ = np.zeros_like(Xc_)
                    ue_[..., :dim] = uu.reshape(-1, dim)[np.asarray(bndc.connect)]
                    xg_ = np.einsum("pn,enc->epc", Nc_, Xc_ + ue_)
                    gap_ = FeArray.asfearray((xg_ - x0_) @ nrm_)
                    nn_ = FeArray.asfearray(np.broadcast_to(nrm_, xg_.shape).copy())
                    return Operators.NonLinear.PenaltyContact(bndc, 50.0, gap_, nn_, None, mtc), gap_
                (Kc_, Rc_), gap0_ = contact(u0)
                Kc_, Rc_ = np.asarray(Kc_), np.asarray(Rc_)
                gap0_ = np.asarray(gap0_)
                hc = 1e-7
                for e in sorted({0, bndc.Ne // 2, bndc.Ne - 1}):
                    if not (np.abs(gap0_[e]).min() >= 1e-4):
                        continue   # a point on the obstacle surface: the force has a kink there
                    Kfd = np.zeros_like(Kc_[e])
                    for j, dof in enumerate(asm_c[e]):
                        up, um = u0.copy(), u0.copy(); up[dof] += hc; um[dof] -= hc
                        Kfd[:, j] = -(np.asarray(contact(up)[0][1])[e] - np.asarray(contact(um)[0][1])[e]) / (2 * hc)
                    res.case((et, str(bndc.elemType), e, "PenaltyContact"))
                    res.count("operator:PenaltyContact")
                    err = np.abs(Kfd - Kc_[e]).max() / (1 + np.abs(Kc_[e]).max())
                    if not (err <= 5e-6):
                        res.fail("tangent is not the derivative of the residual op=PenaltyContact", f"max |K_e + dR_e/du| = {err:.2e} on element {e} of the {bndc.elemType} boundary group of {et}", dict(elemType=et, operator="PenaltyContact"))
                        break
                # the force: only penetrating points push, along the normal, and the total equals penalty * int <-g> dGamma n
                wJc_ = np.asarray(bndc.Get_weightedJacobian_e_pg(mtc))
                tot = Rc_.reshape(bndc.Ne, -1, dim).sum((0, 1))
                wantc = 50.0 * (wJc_ * np.where(gap0_ < 0, -gap0_, 0.0)).sum() * nrm_[:dim]
                res.case((et, str(bndc.elemType), "PenaltyContact force"))
                if not (np.abs(tot - wantc).max() <= 1e-9 * (1e-300 + np.abs(wantc).max())):
                    res.fail("contact force is not penalty x penetration along the normal op=PenaltyContact", f"sum of R_e = {tot.tolist()}, penalty int <-g> n = {wantc.tolist()} on the {bndc.elemType} boundary group of {et}", dict(elemType=et, operator="PenaltyContact"))
        except Exception as ex:  # noqa: BLE001
            res.fail("operator raises op=PenaltyContact", f"{et}: {type(ex).__name__}: {str(ex)[:120]}", dict(elemType=et, operator="PenaltyContact"))
        if dim == 3:
            try:
                nPg_ = np.asarray(g.Get_weightedJacobian_e_pg(MatrixType.rigi)).shape[1]
                law.Set_active_stress_vec(FeArray.asfearray(np.broadcast_to(np.array([1.0, 0.5, 0.25]), (g.Ne, nPg_, 3)).copy()))
                law.active_stress = 0.3
                fd_check("ActiveStressTensor", lambda uu: Operators.NonLinear.ActiveStressTensor(law, HyperElasticState(g, uu, MatrixType.rigi)), u0)
            except Exception as ex:  # noqa: BLE001
                res.fail("operator raises op=ActiveStressTensor", f"ActiveStressTensor on {et}: {type(ex).__name__}: {str(ex)[:120]}", dict(elemType=et, operator="ActiveStressTensor"))
            try:
                # a finer mesh with interior nodes, its nodes renumbered at random: the numbering inside a surface group then differs from the mesh numbering
                from tools.harness.C03 import permuted_mesh
                import random as _random
                rp_ = _random.Random(1000 * args.seed + len(et))
                meshp = permuted_mesh(M.mesh_3d(et, 1.0, 1.0, 1.0, 0.5, 2), rp_)
                up0 = np.array([rp_.gauss(0, 0.03) for _ in range(meshp.Nn * 3)])
                # every surface group of the mesh (a prism mesh has a triangle group and a quadrangle group, whose node
                # numbering inside the group differs from the numbering of the mesh), first / middle / last element of each
                for bnd in meshp.Get_list_groupElem(2):
                    asm_b = np.asarray(bnd.Get_assembly_e(3))
                    def follow(uu, bnd=bnd):
                        return Operators.NonLinear.FollowingPressure(bnd, uu, 0.7)
                    K_e, R_e = follow(up0)
                    K_e, R_e = np.asarray(K_e), np.asarray(R_e)
                    h = 1e-6
                    identb = dict(elemType=et, surfaceGroup=str(bnd.elemType), operator="FollowingPressure")
                    for e in sorted({0, bnd.Ne // 2, bnd.Ne - 1}):
                        Kfd = np.zeros_like(K_e[e])
                        for j, dof in enumerate(asm_b[e]):
                            up, um = up0.copy(), up0.copy(); up[dof] += h; um[dof] -= h
                            # documented convention of this operator: R_e is the follower force F and K_e = -dF/du (the simulation subtracts F)
                            Kfd[:, j] = -(np.asarray(follow(up)[1])[e].ravel() - np.asarray(follow(um)[1])[e].ravel()) / (2 * h)
                        res.case((et, str(bnd.elemType), e, "FollowingPressure"))
                        res.count("operator:FollowingPressure")
                        err = np.abs(Kfd - K_e[e]).max() / (1 + np.abs(K_e[e]).max())
                        if not (err <= 5e-6):
                            res.fail("tangent is not the derivative of the residual op=FollowingPressure", f"max |K_e - dR_e/du| = {err:.2e} on element {e} of the {bnd.elemType} boundary group of {et}", identb)
                            break
                    # the force itself from the deformed positions of the element's own nodes: F_i = p sum_g w_g N_i (dx/dr x dx/ds)
                    mt = MatrixType.rigi
                    N_ = np.asarray(bnd.Get_N_pg(mt))[:, 0, :]
                    dN_ = np.asarray(bnd.Get_dN_pg(mt))
                    w_ = np.asarray(bnd.Get_gauss(mt).weights)
                    x_ = (meshp.coord + up0.reshape(-1, 3))[np.asarray(bnd.connect)]
                    nrm = np.cross(np.einsum("pn,enc->epc", dN_[:, 0, :], x_), np.einsum("pn,enc->epc", dN_[:, 1, :], x_))
                    Fref = 0.7 * np.einsum("p,pn,epc->enc", w_, N_, nrm).reshape(bnd.Ne, -1)
                    res.case((et, str(bnd.elemType), "FollowingPressure force"))
                    errF = np.abs(R_e - Fref).max() / (1e-300 + np.abs(Fref).max())
                    if not (errF <= 1e-9):
                        res.fail("residual is not the follower force op=FollowingPressure", f"max |R_e - p int N (dx/dr x dx/ds)| / |F| = {errF:.2e} on the {bnd.elemType} boundary group of {et} (deformed positions of the element's own nodes)", identb)
            except Exception as ex:  # noqa: BLE001
                res.fail("operator raises op=FollowingPressure", f"FollowingPressure on the boundary groups of {et}: {type(ex).__name__}: {str(ex)[:120]}", dict(elemType=et, operator="FollowingPressure"))

    # ---------------- the path-quadrature rule itself ----------------
    cc = getattr(Operators.NonLinear, "__clenshaw_curtis", None) or Operators.NonLinear.__dict__.get("__clenshaw_curtis")
    if cc is None:
        res.notes.append("Clenshaw-Curtis rule not reachable as Operators.NonLinear.__clenshaw_curtis")
    else:
        for npts in range(1, 12):
            nodes, weights = (np.array(a, float) for a in cc(npts))
            res.case(("clenshaw-curtis", npts))
            bad = []
            if not (abs(weights.sum() - 1) <= 1e-13):
                bad.append(f"weights sum to {weights.sum()}")
            # a rule with n points on Chebyshev extrema integrates polynomials of degree < n exactly on [0, 1]
            for deg in range(npts if npts > 1 else 2):
                if not (abs(weights @ nodes ** deg - 1 / (deg + 1)) <= 1e-12):
                    bad.append(f"degree {deg}: {weights @ nodes ** deg} instead of {1 / (deg + 1)}")
                    break
            if bad:
                res.fail(f"path quadrature rule nPoints={npts}", f"Clenshaw-Curtis rule with {npts} points on [0, 1]: " + "; ".join(bad), dict(nPoints=npts))

    # ---------------- large meshes: the tangent of EVERY element is the derivative of its residual ----------------
    # (the checks above look at one element of a few-element mesh; here a mesh of several thousand elements, a smooth random
    #  displacement and one random direction du: K_e du_e against the central difference of R_e along du, on all the elements at once)
    def smooth_u(coord, dim, amp):
        X = coord[:, :dim] / coord[:, :dim].max(0)
        u = np.zeros((coord.shape[0], dim))
        for c in range(dim):
            for _ in range(3):
                k = np.array([rng.uniform(0.5, 3.0) for _ in range(dim)]) * np.pi
                ph = np.array([rng.uniform(0, 2 * np.pi) for _ in range(dim)])
                u[:, c] += amp * rng.gauss(0, 1) * np.prod(np.sin(X * k + ph), axis=1) * coord[:, c].max() / k[c]
        return u.ravel()

    big = [("QUAD4", 2), ("TRI3", 2), ("HEXA8", 3)] if not thorough else [("QUAD4", 2), ("TRI3", 2), ("QUAD8", 2), ("HEXA8", 3), ("PRISM6", 3)]
    for et, dim in big:
        try:
            if dim == 2:
                nx, ny = rng.randint(64, 100), rng.randint(66, 90)
                mesh = M.mesh_2d(et, float(nx), float(ny), 1.0 if et in M.QUAD else 1.45)
            else:
                nx, ny, nz = rng.randint(17, 21), rng.randint(17, 20), rng.randint(15, 18)
                mesh = M.mesh_3d(et, float(nx), float(ny), float(nz), 1.0, nz)
        except Exception as ex:  # noqa: BLE001
            res.fail(f"large mesh raises elemType={et}", f"{type(ex).__name__}: {str(ex)[:150]}", dict(elemType=et))
            continue
        g = mesh.groupElem
        identL = dict(elemType=et, Ne=int(g.Ne), size=[nx, ny] if dim == 2 else [nx, ny, nz])
        law = H_.MooneyRivlin(dim, 0.5, 0.3, 1.0) if dim == 2 else H_.NeoHookean(dim, 2.0)
        unL = smooth_u(mesh.coord, dim, 0.05)
        u1L = unL + smooth_u(mesh.coord, dim, 0.05)
        vL = smooth_u(mesh.coord, dim, 0.1)
        duL = np.array([rng.gauss(0, 1) for _ in range(mesh.Nn * dim)])
        asmL = np.asarray(g.Get_assembly_e(dim))
        stL = lambda uu, g=g: HyperElasticState(g, uu, MatrixType.rigi)  # noqa: E731
        opsL = [("SecondPiolaKirchhoffStressTensor", 1.0, lambda uu: Operators.NonLinear.SecondPiolaKirchhoffStressTensor(law, stL(uu))),
                ("GonzalezStressTensor", 0.5, lambda uu: Operators.NonLinear.GonzalezStressTensor(law, stL(unL), stL((unL + uu) / 2), stL(uu))),
                ("TimeQuadratureStressTensor", 0.5, lambda uu: Operators.NonLinear.TimeQuadratureStressTensor(law, stL(unL), stL((unL + uu) / 2), stL(uu), 0.5, 3)[:2]),
                ("KelvinVoigtDamping", 1.0, lambda uu: Operators.NonLinear.KelvinVoigtDamping(law, stL(uu), vL)[:2])]
        for opname, coefL, fun in opsL:
            identO = dict(identL, operator=opname)
            try:
                law.eta = 0.35 if opname == "KelvinVoigtDamping" else 0.0
                hL = 1e-6
                K_e = np.asarray(fun(u1L)[0])
                dR = (np.asarray(fun(u1L + hL * duL)[1]) - np.asarray(fun(u1L - hL * duL)[1])).reshape(g.Ne, -1) / (2 * hL)
                Kdu = coefL * np.einsum("eij,ej->ei", K_e, duL[asmL])
            except Exception as ex:  # noqa: BLE001
                res.fail(f"operator raises on a large mesh op={opname}", f"{et}, {g.Ne} elements: {type(ex).__name__}: {str(ex)[:150]}", identO)
                continue
            finally:
                law.eta = 0.0
            res.case((et, "large", opname))
            res.count(f"operator-large:{opname}")
            err_e = np.abs(Kdu - dR).max(axis=1) / np.abs(dR).max()
            bad = ~(err_e <= 2e-6)
            if bad.any():
                res.fail(f"tangent is not the derivative of the residual on every element of a large mesh op={opname}",
                         f"{int(bad.sum())} of {g.Ne} {et} elements (first: {int(np.argmax(bad))}) have |K_e du - dR_e/du . du| / max|dR/du . du| up to {np.nanmax(err_e):.2e}", identO)

    # ---------------- free motion: kinetic + stored energy under the midpoint scheme ----------------
    # The energy balance is a property of the steps taken, not of what the user chooses to store: the same motion is run with every
    # step saved, with one saved iteration every few steps (long runs) and without saving at all; each must conserve kinetic + stored
    # energy, and all must follow the same trajectory.
    def free_motion(stress, et, lawname, dt, npts, nSteps, saveEvery):
        dim = M.dim_of(et)
        mesh = M.mesh_2d(et, 2.0, 1.0, 1.0) if dim == 2 else M.mesh_3d(et, 2.0, 1.0, 1.0, 1.0, 1)
        law = dict(NeoHookean=lambda: H_.NeoHookean(dim, 2.5), MooneyRivlin=lambda: H_.MooneyRivlin(dim, 1.5, 0.75, 4.0), SaintVenantKirchhoff=lambda: H_.SaintVenantKirchhoff(dim, 3.0, 2.0, 0.0))[lawname]()
        s = Simulations.HyperElastic(mesh, law, relTol=1e-13, absTol=1e-12, incTol=1e-13, maxIter=40)
        s.rho = 1.5
        # the midpoint rule has no parameter: whatever Newmark / HHT parameters are passed along with it (a script switching from a damped
        # Newmark run keeps them) are not part of the scheme
        extra = {} if (saveEvery in (1, None) and lawname == "NeoHookean") else dict(beta=0.3025, gamma=0.6)
        s.Solver_Set_Hyperbolic_Algorithm(dt, algo=AlgoType.midpoint, **extra)
        s.Solver_Set_Stress(stress, nPoints=npts) if stress == "quadrature" else s.Solver_Set_Stress(stress)
        X = mesh.coord
        v0 = np.zeros((mesh.Nn, dim))
        v0[:, 0] = 0.15 * np.sin(np.pi * X[:, 1]) + 0.1 * X[:, 0]
        v0[:, 1] = -0.1 * X[:, 0] ** 2
        s._Set_solutions(s.problemType, np.zeros(mesh.Nn * dim), v0.ravel(), np.zeros(mesh.Nn * dim))
        Mm = None
        energies = []
        for k in range(1, nSteps + 1):
            s.Solve()
            if saveEvery and k % saveEvery == 0:
                s.Save_Iter()
            if Mm is None:
                Mm = s.Get_K_C_M_F()[2]
            v = np.asarray(s.speed)
            energies.append(0.5 * float(v @ (Mm @ v)) + float(s._Calc_W()))
        E0 = 0.5 * float(v0.ravel() @ (Mm @ v0.ravel()))
        return np.array(energies), E0, np.array(s.displacement, dtype=float).copy()

    for stress in ("gonzalez", "quadrature"):
        for et, lawname in ((("QUAD4", "NeoHookean"), ("HEXA8", "MooneyRivlin")) if not thorough else (("QUAD4", "NeoHookean"), ("TRI6", "SaintVenantKirchhoff"), ("HEXA8", "MooneyRivlin"), ("TETRA4", "NeoHookean"))):
            dt = rng.choice([0.05, 0.1, 0.2])
            npts = rng.choice([8, 9, 10])
            nSteps = 12 if not thorough else 40
            tol = 1e-8 if stress == "gonzalez" else 1e-6
            uRef = None
            for saveEvery in (1, rng.choice([2, 3, 5]), 0):
                ident = dict(elemType=et, law=lawname, stress=stress, dt=dt, passed_along_with_midpoint=("nothing" if (saveEvery in (1, None) and lawname == "NeoHookean") else "beta=0.3025, gamma=0.6"))
                cadence = ""
                if saveEvery != 1:
                    ident["saveEvery"] = saveEvery
                    cadence = " when the steps are not all saved"
                try:
                    E, E0, uEnd = free_motion(stress, et, lawname, dt, npts, nSteps, saveEvery)
                except Exception as ex:  # noqa: BLE001
                    res.fail(f"free motion raises{cadence} stress={stress}", f"{et}/{lawname}: {type(ex).__name__}: {str(ex)[:120]}", ident)
                    continue
                res.case((stress, et, lawname, saveEvery))
                res.count(f"free-motion:{stress}")
                drift = np.abs(E - E0).max() / abs(E0)
                how = "every step saved" if saveEvery == 1 else f"one saved iteration every {saveEvery} steps" if saveEvery else "no iteration saved"
                if not np.all(np.isfinite(E)) or not (drift <= tol):
                    res.fail(f"energy not conserved{cadence} stress={stress}", f"kinetic + stored energy drifts by {drift:.2e} (relative) over {len(E)} midpoint steps of size {dt} ({et}, {lawname}, {how})", ident)
                if saveEvery == 1:
                    uRef = uEnd
                elif uRef is not None:
                    gapU = np.abs(uEnd - uRef).max() / (1e-300 + np.abs(uRef).max())
                    if not (gapU <= 1e-8):
                        res.fail(f"trajectory depends on which steps are saved stress={stress}", f"displacement after {nSteps} midpoint steps of size {dt} differs by {gapU:.2e} (relative) between {how} and every step saved ({et}, {lawname})", ident)

    answers = driver.ask(lines)
    if answers is None:
        res.disagree("driver", "model driver does not run: " + getattr(driver, "error", "")[:400])
    else:
        for (W0, dW0, d2W0, ident), ans in zip(expect, answers):
            res.traces += 1
            try:
                a, b, c = ans.split("|")
                Wm = float(parse_frac(a.strip()))
                pv = lambda toks: np.array([float(parse_frac(toks[2 * i])) + S2 * float(parse_frac(toks[2 * i + 1])) for i in range(len(toks) // 2)])  # noqa: E731
                dWm = pv(b.split())
                d2Wm = pv(c.split()).reshape(6, 6)
            except Exception:  # noqa: BLE001
                res.disagree("law-tables", dict(ident, model=ans[:80]))
                continue
            tol = 1e-9
            if not (abs(Wm - W0) <= tol * (1 + abs(W0))) or not (np.abs(dWm - dW0).max() <= tol * (1 + np.abs(dW0).max())) or not (np.abs(d2Wm - d2W0).max() <= tol * (1 + np.abs(d2W0).max())):
                res.disagree("law-tables", dict(ident, dW=float(np.abs(dWm - dW0).max()), d2W=float(np.abs(d2Wm - d2W0).max()), W=abs(Wm - W0)))
    res.search_note = "stress = dW/de, tangent = d stress/de, operator tangents = d residual/du and energy conservation hold on the sampled states"
    res.write("five laws (NeoHookean, MooneyRivlin, SaintVenantKirchhoff, CiarletGeymonat, HolzapfelOgden with two fibre families) in 3D and plane strain at random homogeneous deformations (|E| ~ 0.15): "
              "central finite differences of W and dW/de, symmetry, superposed rotations, reference configuration; operators SecondPiolaKirchhoff / Gonzalez / TimeQuadrature / ActiveStress / FollowingPressure: tangent vs "
              "central differences of the residual on random displaced meshes, and on every element of meshes of several thousand elements along one random direction; free motion under the midpoint scheme with the gonzalez and quadrature stresses, every step / some steps / no step saved; distinct = distinct (law or operator, dimension, check)")


if __name__ == "__main__":
    from tools.harness._common import run

    run(main)
