"""C04 harness.
(B) property oracle on the real solver paths: random boundary-condition programs (overlapping,
    duplicated, permuted; constants, arrays, functions of position) on Elastic/Thermal simulations:
    constrained values (sum convention), Bc_vector_Dirichlet, residual on free dofs, agreement of all
    installed backends; orphan nodes; beam connections through Lagrange multipliers vs elimination;
    incremental Dirichlet values in Newton iterations (HyperElastic); the same Dirichlet data grouped into
    one / several conditions (entered data untouched by the solve, second solve); bounded least squares along
    a load / unload damage history; prescribed values with every hyperbolic time scheme; a connection entered twice.
(A) correspondence with the executable Lean model (dof lookup, Dirichlet vector, elimination solve,
    bordered Lagrange system) in exact rationals."""

from __future__ import annotations

import warnings
from fractions import Fraction

import numpy as np

from tools.harness._common import Driver, Result, frac_str, parse_args, parse_frac, rng_for
from tools.harness import _meshes as M

from EasyFEA import Models, Simulations, SolverType, Mesher, ElemType
from EasyFEA.FEM import Mesh, BoundaryCondition
from EasyFEA.FEM._group_elem import GroupElemFactory
from EasyFEA.Geoms import Point, Line, Domain

BACKENDS = ["scipy", "cg", "bicg", "gmres", "lgmres"]  # lsq_linear needs bounds (damage problems only)


def dy(rng, lo, hi, den=8):
    return rng.randint(int(lo * den), int(hi * den)) / den


def fvec(v):
    return " ".join(frac_str(Fraction(float(x))) for x in np.asarray(v, float).ravel())


def random_program(rng, simu, mesh, nconds):
    """adds random Dirichlet / Neumann conditions; returns the expected summed value per dof"""
    unknowns = simu.Get_unknowns()
    dim = len(unknowns)
    coord = mesh.coord
    xs, ys = coord[:, 0], coord[:, 1]
    selections = [
        ("x=min", np.where(np.isclose(xs, xs.min()))[0]),
        ("x=max", np.where(np.isclose(xs, xs.max()))[0]),
        ("y=min", np.where(np.isclose(ys, ys.min()))[0]),
        ("y=max", np.where(np.isclose(ys, ys.max()))[0]),
    ]
    expected = {}
    prog = []
    # make sure rigid modes are blocked
    first = True
    for c in range(nconds):
        name, nodes = selections[0] if first else rng.choice(selections)
        nodes = np.array(nodes)
        if not (rng.random() >= 0.4):
            nodes = nodes[np.array(rng.sample(range(nodes.size), nodes.size))]  # permuted
        if first:
            unk = list(unknowns)
        elif c == 1:
            unk = list(unknowns)[::-1]          # several unknowns listed in non-canonical order, with distinct values per unknown
            nodes = np.array(nodes)[np.array(rng.sample(range(len(nodes)), len(nodes)))]    # and nodes in a shuffled order, values as arrays
        else:
            k = rng.randint(1, dim)
            unk = rng.sample(list(unknowns), k)
        first = False
        vals, spec = [], []
        for ku, u in enumerate(unk):
            form = rng.choice(["const", "array", "func"])
            if c == 1 and ku == 0:
                form = "array"
            if form == "const":
                v = dy(rng, -1, 1)
                vals.append(v)
                arr = np.full(nodes.size, v)
            elif form == "array":
                arr = np.array([dy(rng, -1, 1) for _ in range(nodes.size)])
                vals.append(arr.copy())
            else:
                a, b, c0 = dy(rng, -1, 1), dy(rng, -1, 1), dy(rng, -1, 1)
                vals.append(lambda x, y, z, a=a, b=b, c0=c0: a * x + b * y + c0)
                arr = a * coord[nodes, 0] + b * coord[nodes, 1] + c0
            spec.append(form)
            idx = list(unknowns).index(u)
            for n, vv in zip(nodes, arr):
                expected[int(n) * dim + idx] = expected.get(int(n) * dim + idx, 0.0) + float(vv)
        simu.add_dirichlet(nodes, vals, unk)
        prog.append(dict(nodes=name, unknowns=unk, forms=spec))
    # loads
    name, nodes = rng.choice(selections[1:])
    lunk = list(unknowns)[::-1] if rng.random() < 0.5 else list(unknowns)
    loadvals = [dy(rng, -2, 2) + 0.125 * i for i, _ in enumerate(lunk)]
    simu.add_neumann(nodes, loadvals, lunk)
    prog.append(dict(neumann=name, values=loadvals, unknowns=lunk))
    loads = {}
    for uu, vv in zip(lunk, loadvals):
        for n in nodes:
            # add_neumann shares the entered value between the selected nodes (C09 point_load_total)
            loads[int(n) * dim + list(unknowns).index(uu)] = loads.get(int(n) * dim + list(unknowns).index(uu), 0.0) + float(vv) / len(nodes)
    random_program.loads = loads
    return expected, prog


def main():
    args = parse_args()
    rng = rng_for(args)
    res = Result(args)
    driver = Driver("C04")
    lines, expect = [], []
    nprog = 4 if args.tier == "quick" else 16
    if args.search:
        nprog = 12
    warnings.filterwarnings("ignore")

    # ---------------- B1: random BC programs on elastic / thermal ----------------
    for it in range(nprog):
        kind = rng.choice(["elastic", "thermal"])
        et = rng.choice(["TRI3", "QUAD4", "TRI6"])
        mesh = M.mesh_2d(et, a=2.0, b=1.0, h=1.0 if it % 2 == 0 else 0.5)
        if kind == "elastic":
            simu = Simulations.Elastic(mesh, Models.Elastic.Isotropic(2, E=8.0, v=0.25, planeStress=True, thickness=1.0))
        else:
            simu = Simulations.Thermal(mesh, Models.Thermal(2.0, 1.0))
        pt = simu.problemType
        expected, prog = random_program(rng, simu, mesh, rng.randint(2, 5))
        ident = dict(program=it, sim=kind, elemType=et, Nn=int(mesh.Nn), conditions=prog)
        res.count("sim:" + kind)
        sols = {}
        for backend in BACKENDS:
            try:
                simu.solver = SolverType(backend)
                # every backend starts from zero, not from the solution the previous one left (the iterative ones use it as initial guess)
                simu._Set_solutions(pt, np.zeros(mesh.Nn * len(simu.Get_unknowns())))
                u = np.asarray(simu.Solve()).copy()
            except Exception as ex:  # noqa: BLE001
                # all five are scipy solvers (installed): a backend that raises does not solve the stated system
                res.fail(f"backend {backend} raises sim={kind}", f"simu.solver = {backend}: Solve raised {type(ex).__name__}: {str(ex)[:120]} "
                         f"({len(set(simu.Bc_dofs_Dirichlet(pt)))} of {mesh.Nn * len(simu.Get_unknowns())} dofs are prescribed)", ident)
                continue
            sols[backend] = u
        if "scipy" not in sols:
            res.disagree("direct-solver-unavailable", ident)
            continue
        u = sols["scipy"]
        K, _, _, F = simu.Get_K_C_M_F(pt)
        n = K.shape[0]
        dofs_c = np.array(sorted(expected))
        want = np.array([expected[d] for d in dofs_c])
        res.case((it, "constrained"), nontrivial=len(set(simu.Bc_dofs_Dirichlet(pt))) < len(simu.Bc_dofs_Dirichlet(pt)))
        if not (np.abs(u[dofs_c] - want).max() <= 1e-10 * (1 + np.abs(want).max())):
            k = int(np.argmax(np.abs(u[dofs_c] - want)))
            res.fail(f"constrained-value sim={kind}", f"dof {int(dofs_c[k])} holds {u[dofs_c[k]]!r} but the entered values sum to {want[k]!r}", ident)
        res.case((it, "Bc_vector_Dirichlet"))
        vec = simu.Bc_vector_Dirichlet(pt)
        wv = np.zeros(n)
        wv[dofs_c] = want
        if not (np.abs(vec - wv).max() <= 1e-12 * (1 + np.abs(wv).max())):
            res.fail(f"Bc_vector_Dirichlet sim={kind}", "Bc_vector_Dirichlet() differs from the sum of the entered values", ident)
        free = np.setdiff1d(np.arange(n), dofs_c)
        fN = simu.Bc_vector_Neumann(pt)
        wantN = np.zeros(n)
        for dof_, val_ in random_program.loads.items():
            wantN[dof_] = val_
        res.case((it, "Bc_vector_Neumann"))
        if not (np.abs(np.asarray(fN).ravel() - wantN).max() <= 1e-12 * (1 + np.abs(wantN).max())):
            res.fail(f"Bc_vector_Neumann sim={kind}", "Bc_vector_Neumann() differs from the point loads entered (value of each unknown on its own degree of freedom)", ident)
        r = K @ u - (np.asarray(F.todense()).ravel() + fN)
        scale = 1 + np.abs(K @ u).max()
        res.case((it, "residual"))
        if len(free) and not (np.abs(r[free]).max() <= 1e-9 * scale):
            res.fail(f"residual sim={kind}", f"K u - F on free dofs = {np.abs(r[free]).max():.3e} (scale {scale:.3e})", ident)
        for backend, ub in sols.items():
            res.case((it, "backend", backend))
            if not (np.abs(ub - u).max() <= 1e-3 * (1 + np.abs(u).max())):    # iterative backends stop at a relative residual of 1e-5: the error is that times the conditioning
                res.fail(f"backend={backend} differs", f"solver {backend} differs from the direct solution by {np.abs(ub - u).max():.3e}", ident)
        # correspondence: exact elimination on the same system
        if n <= 24 and len(lines) < 40:
            dofs = simu.Bc_dofs_Dirichlet(pt)
            vals = simu.Bc_values_Dirichlet(pt)
            b = np.asarray(F.todense()).ravel() + fN
            lines.append(f"solve1 {n} {fvec(K.toarray())} {fvec(b)} {len(dofs)} " + " ".join(str(int(d)) for d in dofs) + " " + fvec(vals))
            expect.append(("solve1", ident, u))
            lines.append(f"dvec {n} {len(dofs)} " + " ".join(str(int(d)) for d in dofs) + " " + fvec(vals))
            expect.append(("dvec", ident, vec))
        res.sample(dict(program=it, sim=kind, conditions=prog[:3]))

    # ---------------- dof lookup ----------------
    for _ in range(6):
        avail = rng.choice([["x", "y"], ["x", "y", "z"], ["x", "y", "rz"], ["x", "y", "z", "rx", "ry", "rz"], ["t"]])
        nodes = [rng.randint(0, 30) for _ in range(rng.randint(1, 5))]
        unk = rng.sample(avail, rng.randint(1, len(avail)))
        real = BoundaryCondition.Get_dofs_nodes(avail, np.array(nodes), unk)
        lines.append(f"dofs {len(avail)} {' '.join(avail)} {len(nodes)} {' '.join(map(str, nodes))} {len(unk)} {' '.join(unk)}")
        expect.append(("dofs", dict(avail=avail, nodes=nodes, unknowns=unk), real.tolist()))

    # ---------------- B1b: a condition entered AFTER a first solve (no Bc_Init in between) ----------------
    for kind in ("elastic", "thermal"):
        meshq = M.mesh_2d("QUAD4", a=2.0, b=1.0, h=0.5)
        xs_, ys_ = meshq.coord[:, 0], meshq.coord[:, 1]
        leftq, rightq, topq = np.where(np.isclose(xs_, 0))[0], np.where(np.isclose(xs_, 2.0))[0], np.where(np.isclose(ys_, 1.0) & (xs_ > 0.4) & (xs_ < 1.6))[0]

        def mkq():
            if kind == "elastic":
                return Simulations.Elastic(meshq, Models.Elastic.Isotropic(2, E=8.0, v=0.25, planeStress=True, thickness=1.0)), ["x", "y"]
            return Simulations.Thermal(meshq, Models.Thermal(2.0, 1.0)), ["t"]
        sA, unkq = mkq()
        nq = len(unkq)
        sA.add_dirichlet(leftq, [0.0] * nq, unkq)
        sA.add_neumann(rightq, [1.0] * nq, unkq)
        sA.Solve()
        sA.add_dirichlet(topq, [0.03 * (k + 1) for k in range(nq)], unkq)          # entered after the first solve
        uA = np.asarray(sA.Solve()).reshape(meshq.Nn, nq)
        sB, _ = mkq()
        sB.add_dirichlet(leftq, [0.0] * nq, unkq)
        sB.add_neumann(rightq, [1.0] * nq, unkq)
        sB.add_dirichlet(topq, [0.03 * (k + 1) for k in range(nq)], unkq)
        uB = np.asarray(sB.Solve()).reshape(meshq.Nn, nq)
        identq = dict(sim=kind, sequence="conditions, Solve, add_dirichlet, Solve")
        res.case(("late-condition", kind))
        wantq = np.array([0.03 * (k + 1) for k in range(nq)])
        if not (np.abs(uA[topq] - wantq).max() <= 1e-10) or not (np.abs(uA - uB).max() <= 1e-9 * (1 + np.abs(uB).max())):
            res.fail(f"condition entered after a first solve is not held sim={kind}", f"max |u - prescribed| on the new nodes = {np.abs(uA[topq] - wantq).max():.2e}; difference to the same conditions entered at once = {np.abs(uA - uB).max():.2e}", identq)

    # ---------------- B1c: every backend on problems whose loads are tiny (the accuracy asked for is relative) ----------------
    for scale in (1e-6, 1e-9):
        for kind in ("elastic", "thermal"):
            meshs = M.mesh_2d("TRI3", a=2.0, b=1.0, h=0.5)
            xs_ = meshs.coord[:, 0]
            lefts, rights = np.where(np.isclose(xs_, 0))[0], np.where(np.isclose(xs_, 2.0))[0]
            def mks():
                # a new simulation for every backend: the iterative solvers start from the current solution
                if kind == "elastic":
                    s_, u_ = Simulations.Elastic(meshs, Models.Elastic.Isotropic(2, E=8.0, v=0.25, planeStress=True, thickness=1.0)), ["x", "y"]
                else:
                    s_, u_ = Simulations.Thermal(meshs, Models.Thermal(2.0, 1.0)), ["t"]
                s_.add_dirichlet(lefts, [0.0] * len(u_), u_)
                s_.add_neumann(rights, [scale * (1.0 + 0.5 * k) for k in range(len(u_))], u_)
                return s_
            ss = mks()
            ss.solver = SolverType("scipy")
            uref = np.asarray(ss.Solve()).copy()
            for backend in BACKENDS:
                if backend == "scipy":
                    continue
                try:
                    ss = mks()
                    ss.solver = SolverType(backend)
                    ub = np.asarray(ss.Solve()).copy()
                except Exception:  # noqa: BLE001
                    continue
                res.case(("tiny-load", kind, scale, backend))
                if not (np.abs(ub - uref).max() <= 1e-3 * np.abs(uref).max()):
                    res.fail(f"backend={backend} loses accuracy on a small right-hand side", f"loads of order {scale:g}: solution differs from the direct one by {np.abs(ub - uref).max() / np.abs(uref).max():.2e} (relative)", dict(sim=kind, load_scale=scale, backend=backend))

    # ---------------- B1d: every backend on ill-conditioned systems (slender cantilever strips) ----------------
    # A strip L x h meshed with one layer of QUAD4 elements of length 1 (aspect ratio 1/h), clamped on x = 0, surface load on x = L:
    # the condition number of the reduced stiffness matrix grows like (L/h)^4 (1e7 .. 1e9 here) while the system stays small.
    # Whatever backend the user selects, the property promises that the returned vector satisfies the assembled equations on the free
    # dofs to solver accuracy (scipy's iterative methods stop at |r| <= 1e-5 |b|: 1e-4 is asked for), holds the prescribed values, and
    # is the solution of the stated system. Independent expectation: dense solve (numpy) of the reduced system read from Get_K_C_M_F.
    # Every backend starts cold, on a new simulation. A backend that stops early and hands back its last iterate fails here.
    import random as _random
    rngI = _random.Random(args.seed * 7919 + 404)        # its own stream: the draws of the scenarios below stay what they were
    strips = [(30.0, 0.25, 210e9, 1e3), (50.0, 0.25, 210e9, 1e3),
              (float(rngI.randint(20, 32)), rngI.choice([0.25, 0.5]), rngI.choice([1.0, 8.0, 210e9]), rngI.choice([1e-3, 1.0, 1e3]))]
    if args.tier != "quick":
        strips += [(60.0, 0.5, 210e9, 1e3), (40.0, 0.25, 1.0, 1e-3), (100.0, 1.0, 210e9, 1e3)]
    # a stagnating restarted gmres runs its 10 N restart cycles (time ~ N^2): it is run on the smaller systems only
    gmres_max_dofs = 140 if args.tier == "quick" else 260
    ill_backends = list(BACKENDS)
    try:
        from EasyFEA.Simulations import Solvers as _Solvers
        ill_backends += [b_ for b_, ok_ in (("pypardiso", getattr(_Solvers, "CAN_USE_PYPARDISO", False)), ("petsc", getattr(_Solvers, "CAN_USE_PETSC", False))) if ok_]
    except Exception:  # noqa: BLE001
        pass
    for Ls, hs, Es, qs in strips:
        meshI = M.mesh_2d("QUAD4", a=Ls, b=hs, h=1.0)
        clampI = meshI.Nodes_Conditions(lambda x, y, z: x == 0)
        tipI = meshI.Nodes_Conditions(lambda x, y, z, Ls=Ls: x == Ls)

        def mki():
            s_ = Simulations.Elastic(meshI, Models.Elastic.Isotropic(2, E=Es, v=0.3, planeStress=True, thickness=1.0))
            s_.add_dirichlet(clampI, [0.0, 0.0], ["x", "y"])
            s_.add_surfLoad(tipI, [-qs], ["y"])
            return s_
        identI = dict(scenario="slender cantilever strip, clamped on x=0, add_surfLoad(x=L, [-q], ['y']), new simulation per backend", elemType="QUAD4", L=Ls, h=hs, meshSize=1.0,
                      isOrganised=True, E=Es, v=0.3, planeStress=True, thickness=1.0, q=qs, Ndof=int(meshI.Nn * 2))
        try:
            s0 = mki()
            ptI = s0.problemType
            KI, _, _, FI = s0.Get_K_C_M_F(ptI)
            bI = np.asarray(FI.todense()).ravel() + np.asarray(s0.Bc_vector_Neumann(ptI)).ravel()
            nI = KI.shape[0]
            knownI = np.array(sorted(set(int(d) for d in np.concatenate([2 * clampI, 2 * clampI + 1]))))
            freeI = np.setdiff1d(np.arange(nI), knownI)
            KIff = KI.toarray()[np.ix_(freeI, freeI)]
            condI = float(np.linalg.cond(KIff))
            udense = np.zeros(nI)
            udense[freeI] = np.linalg.solve(KIff, bI[freeI])
        except Exception as ex:  # noqa: BLE001
            res.fail("ill-conditioned system cannot be assembled", f"{type(ex).__name__}: {str(ex)[:150]}", identI)
            continue
        bnorm = float(np.linalg.norm(bI[freeI]))
        res.count("ill-conditioned strips")
        for backend in ill_backends:
            if backend == "gmres" and nI > gmres_max_dofs:
                continue
            idb = dict(identI, backend=backend, cond=f"{condI:.1e}")
            res.case(("ill-conditioned", Ls, hs, Es, qs, backend), nontrivial=condI > 1e6)
            try:
                sI = mki()
                sI.solver = SolverType(backend)
                uI = np.asarray(sI.Solve()).ravel().copy()
            except Exception as ex:  # noqa: BLE001
                res.fail(f"backend {backend} raises on an ill-conditioned system", f"simu.solver = {backend}: Solve raised {type(ex).__name__}: {str(ex)[:150]}", idb)
                continue
            relres = float(np.linalg.norm((KI @ uI - bI)[freeI])) / bnorm
            errI = float(np.abs(uI - udense).max()) / float(np.abs(udense).max())
            if not (np.abs(uI[knownI]).max() <= 0.0):
                res.fail(f"constrained-value ill-conditioned solver={backend}", f"the clamped dofs hold values up to {np.abs(uI[knownI]).max():.2e} instead of 0", idb)
            if not (relres <= 1e-4):
                res.fail(f"unconverged solution returned silently solver={backend}", f"strip {Ls:g} x {hs:g} ({nI} dofs, condition number {condI:.1e}), simu.solver = {backend}: Solve returns, without error or warning, "
                         f"a vector with |K u - F| / |F| = {relres:.2e} on the free dofs (1e-5 is the tolerance of the backend) that differs from the dense direct solution by {errI:.2e} (relative, max norm)", idb)
            elif not (errI <= 1e-2):
                res.fail(f"backend={backend} differs on an ill-conditioned system", f"strip {Ls:g} x {hs:g} ({nI} dofs, condition number {condI:.1e}): the solution of simu.solver = {backend} differs from the dense direct "
                         f"solution by {errI:.2e} (relative, max norm) although |K u - F| / |F| = {relres:.2e}", idb)

    # ---------------- B2: orphan node ----------------
    mesh0 = M.mesh_2d("TRI3", a=2.0, b=1.0, h=1.0)
    coord = np.vstack([mesh0.coord, [[5.0, 5.0, 0.0]]])
    d2 = {g.elemType: GroupElemFactory.Create(g.elemType, np.asarray(g.connect), coord) for g in mesh0.dict_groupElem.values()}
    meshO = Mesh(d2)
    simu = Simulations.Elastic(meshO, Models.Elastic.Isotropic(2, E=8.0, v=0.25, planeStress=True, thickness=1.0))
    left = np.where(np.isclose(coord[:-1, 0], 0.0))[0]
    right = np.where(np.isclose(coord[:-1, 0], 2.0))[0]
    simu.add_dirichlet(left, [0.0, 0.0], ["x", "y"])
    simu.add_neumann(right, [1.0], ["x"])
    res.case(("orphan",))
    try:
        u = np.asarray(simu.Solve())
        orphan = meshO.Nn - 1
        if not np.all(np.isfinite(u)) or not (abs(u[2 * orphan]) + abs(u[2 * orphan + 1]) <= 1e-12):
            res.fail("orphan-node", f"a node attached to no element makes the solution non-finite or moves: u_orphan = {u[2 * orphan:2 * orphan + 2]}", dict(Nn=int(meshO.Nn)))
    except Exception as ex:  # noqa: BLE001
        res.fail("orphan-node", f"solve with an orphan node raised {ex!r}", dict(Nn=int(meshO.Nn)))

    # orphan node in the other problem types (a multi-field simulation solves a problem that is not its default one)
    for okind in ("thermal", "phasefield"):
        res.case(("orphan", okind))
        try:
            if okind == "thermal":
                so = Simulations.Thermal(meshO, Models.Thermal(2.0, 1.0))
                so.add_dirichlet(left, [1.0], ["t"])
                so.add_neumann(right, [0.5], ["t"])
                vals = {"temperature": np.asarray(so.Solve())}
            else:
                so = Simulations.PhaseField(meshO, Models.PhaseField(Models.Elastic.Isotropic(2, E=210.0, v=0.3, planeStress=True, thickness=1.0), "Amor", "AT2", 0.5, 0.4))
                so.add_dirichlet(left, [0.0, 0.0], ["x", "y"])
                so.add_dirichlet(right, [0.05], ["x"])
                so.Solve()
                vals = {"damage": np.asarray(so.damage), "displacement": np.asarray(so.displacement)}
            for nm, arr in vals.items():
                per = arr.reshape(meshO.Nn, -1)
                if not np.all(np.isfinite(arr)) or not (np.abs(per[-1]).max() <= 1e-12):
                    res.fail(f"orphan-node sim={okind}", f"a node attached to no element makes the {nm} non-finite or non-zero there: {int((~np.isfinite(arr)).sum())} non-finite values, value at the orphan node {per[-1].tolist()}",
                             dict(sim=okind, Nn=int(meshO.Nn)))
                    break
        except Exception as ex:  # noqa: BLE001
            res.fail(f"orphan-node sim={okind}", f"solve with an orphan node raised {ex!r}"[:300], dict(sim=okind, Nn=int(meshO.Nn)))

    # orphan nodes in a mesh with two element types of the main dimension (triangles glued to quadrangles; prisms to hexahedra), one or three
    # of them: fewer unused nodes than interface nodes, so a count of the nodes group by group does not see them
    for mixname, norph in (("TRI3+QUAD4", 1), ("TRI3+QUAD4", 3), ("PRISM6+HEXA8", 2)):
        res.case(("orphan", "mixed", mixname, norph))
        identMx = dict(mesh=mixname, orphan_nodes=norph, sim="elastic")
        try:
            mmix = M.mesh_mixed_2d(h=1 / 2) if mixname == "TRI3+QUAD4" else M.mesh_mixed_3d(h=1 / 2, layers=1)
            dimx = mmix.dim
            extra = np.array([[7.0 + k_, 5.0, 0.0 if dimx == 2 else 3.0] for k_ in range(norph)])
            coordx = np.vstack([mmix.coord, extra])
            meshX = Mesh({g.elemType: GroupElemFactory.Create(g.elemType, np.asarray(g.connect), coordx) for g in mmix.dict_groupElem.values()})
            sX = Simulations.Elastic(meshX, Models.Elastic.Isotropic(dimx, E=8.0, v=0.25))
            x0 = coordx[:-norph, 0].min()
            x1 = coordx[:-norph, 0].max()
            leftX = np.where(np.isclose(coordx[:-norph, 0], x0))[0]
            rightX = np.where(np.isclose(coordx[:-norph, 0], x1))[0]
            unkX = ["x", "y", "z"][:dimx]
            sX.add_dirichlet(leftX, [0.0] * dimx, unkX)
            sX.add_neumann(rightX, [1.0], ["x"])
            uX = np.asarray(sX.Solve()).reshape(-1, dimx)
            if not np.all(np.isfinite(uX)) or not (np.abs(uX[-norph:]).max() <= 1e-12) or not (np.abs(uX[rightX, 0]).min() > 0):
                res.fail(f"orphan-node mesh={mixname}", f"{norph} node(s) attached to no element in a mesh mixing two element types: {int((~np.isfinite(uX)).sum())} non-finite values in the solution, "
                         f"values at the orphan nodes {uX[-norph:].tolist()} (mesh.orphanNodes = {list(np.asarray(meshX.orphanNodes).ravel())})", identMx)
        except Exception as ex:  # noqa: BLE001
            res.fail(f"orphan-node mesh={mixname}", f"solve raised {ex!r}"[:300], identMx)

    # ---------------- conditions on the second field of a two-field simulation, with every irreversibility solver ----------------
    # (BoundConstrain solves the damage problem with the bounded least-squares backend; the conditions on the damage reduce the system)
    meshD = M.mesh_2d("QUAD4", a=2.0, b=1.0, h=0.5)
    leftD = meshD.Nodes_Conditions(lambda x, y, z: x == 0)
    rightD = meshD.Nodes_Conditions(lambda x, y, z: x == 2.0)
    midD = meshD.Nodes_Conditions(lambda x, y, z: x == 1.0)
    dref = None
    for psolver in ("History", "HistoryDamage", "BoundConstrain"):
        res.case(("damage-dirichlet", psolver))
        identD = dict(sim="PhaseField", damage_solver=psolver, constrained_nodes=[int(n) for n in midD])
        try:
            sd_ = Simulations.PhaseField(meshD, Models.PhaseField(Models.Elastic.Isotropic(2, E=210.0, v=0.3, planeStress=True, thickness=1.0), "Amor", "AT2", 0.5, 0.4, solver=psolver))
            sd_.add_dirichlet(leftD, [0.0, 0.0], ["x", "y"])
            sd_.add_dirichlet(rightD, [0.02], ["x"])
            sd_.add_dirichlet(midD, [0.25], ["d"], problemType="damage")
            sd_.add_dirichlet(midD[:1], [0.125], ["d"], problemType="damage")     # one node constrained twice: 0.25 + 0.125
            sd_.Solve()
            dmg = np.asarray(sd_.damage)
            want = np.full(len(midD), 0.25)
            want[0] += 0.125
            if not (np.abs(dmg[midD] - want).max() <= 1e-9):
                res.fail(f"constrained-value sim=phasefield field=damage solver={psolver}", f"after the solve the constrained damage dofs hold {dmg[midD].tolist()} instead of {want.tolist()}", identD)
            elif dref is None:
                dref = dmg
            elif not (np.abs(dmg - dref).max() <= 1e-5):
                # first step from an undamaged state: the irreversibility bounds are inactive, the three solvers solve the same system
                res.fail(f"damage solvers disagree solver={psolver}", f"first load step from an undamaged state: the damage differs from the History solver's by {np.abs(dmg - dref).max():.2e}", identD)
        except Exception as ex:  # noqa: BLE001
            res.fail(f"solve with conditions on the damage raises solver={psolver}", f"{type(ex).__name__}: {str(ex)[:150]}", identD)

    # ---------------- B3: beam connection (Lagrange path) vs one continuous beam (elimination) ----------------
    for et in (["SEG2", "SEG3"] if args.tier == "quick" else ["SEG2", "SEG3", "SEG4"]):
        for timo in (False, True):
            L, E, v = 4.0, 1000.0, 0.25
            sect = Mesher().Mesh_2D(Domain(Point(), Point(0.5, 0.5)))
            th = dy(rng, 0.1, 1.2, 16)
            cs, sn = np.cos(th), np.sin(th)
            pA, pB, pC = Point(0, 0), Point(L / 2 * cs, L / 2 * sn), Point(L * cs, L * sn)
            tipval = [0.02, -0.01, 0.005]
            out = {}
            for mode in ("two-beams", "one-beam"):
                if mode == "two-beams":
                    beams = [Models.Beam.Isotropic(2, Line(pA, pB, L / 4), sect, E, v), Models.Beam.Isotropic(2, Line(pB, pC, L / 4), sect, E, v)]
                else:
                    beams = [Models.Beam.Isotropic(2, Line(pA, pC, L / 4), sect, E, v)]
                mesh = Mesher().Mesh_Beams(beams, elemType=ElemType(et))
                s = Simulations.Beam(mesh, Models.Beam.BeamStructure(beams), useTimoshenko=timo)
                s.add_dirichlet(mesh.Nodes_Point(pA), [0, 0, 0], ["x", "y", "rz"])
                if mode == "two-beams":
                    s.add_connection_fixed(mesh.Nodes_Point(pB))
                s.add_dirichlet(mesh.Nodes_Point(pC), tipval[:2], ["x", "y"])
                s.add_neumann(mesh.Nodes_Point(pC), [3.0], ["rz"])
                u = np.asarray(s.Solve()).reshape(-1, 3)
                out[mode] = (s, mesh, u)
            s, mesh, u = out["two-beams"]
            ident = dict(elemType=et, timoshenko=timo, angle=th)
            nB = mesh.Nodes_Point(pB)
            res.case(("beam", et, timo, "connection"))
            if nB.size >= 2 and not (np.abs(u[nB[0]] - u[nB[1]]).max() <= 1e-9 * (1 + np.abs(u).max())):
                res.fail("lagrange connection", f"connected nodes differ by {np.abs(u[nB[0]] - u[nB[1]]).max():.3e}", ident)
            nC = mesh.Nodes_Point(pC)[0]
            res.case(("beam", et, timo, "dirichlet"))
            if not (np.abs(u[nC, :2] - np.array(tipval[:2])).max() <= 1e-9):
                res.fail("lagrange dirichlet-value", f"prescribed tip displacement {tipval[:2]} but solution holds {u[nC, :2].tolist()}", ident)
            # the multiplier path with every installed backend selected by the user: same solution, constraints and connection hold
            for backend in BACKENDS:
                try:
                    beams_b = [Models.Beam.Isotropic(2, Line(pA, pB, L / 4), sect, E, v), Models.Beam.Isotropic(2, Line(pB, pC, L / 4), sect, E, v)]
                    meshb = Mesher().Mesh_Beams(beams_b, elemType=ElemType(et))
                    sb = Simulations.Beam(meshb, Models.Beam.BeamStructure(beams_b), useTimoshenko=timo)
                    sb.solver = SolverType(backend)
                except Exception:  # noqa: BLE001
                    continue          # backend not installed
                try:
                    sb.add_dirichlet(meshb.Nodes_Point(pA), [0, 0, 0], ["x", "y", "rz"])
                    sb.add_connection_fixed(meshb.Nodes_Point(pB))
                    sb.add_dirichlet(meshb.Nodes_Point(pC), tipval[:2], ["x", "y"])
                    sb.add_neumann(meshb.Nodes_Point(pC), [3.0], ["rz"])
                    ub = np.asarray(sb.Solve()).reshape(-1, 3)
                    res.case(("beam", et, timo, "lagrange-backend", backend))
                    nBb, nCb = meshb.Nodes_Point(pB), meshb.Nodes_Point(pC)[0]
                    scale_b = 1 + np.abs(u).max()
                    if not (np.abs(ub - u).max() <= 1e-6 * scale_b) or not (np.abs(ub[nCb, :2] - np.array(tipval[:2])).max() <= 1e-8) or (nBb.size >= 2 and not (np.abs(ub[nBb[0]] - ub[nBb[1]]).max() <= 1e-8 * scale_b)):
                        res.fail(f"lagrange backend={backend}", f"multiplier path with simu.solver = {backend}: differs from the default solver by {np.abs(ub - u).max():.2e}, "
                                 f"tip values off by {np.abs(ub[nCb, :2] - np.array(tipval[:2])).max():.2e}", dict(ident, backend=backend))
                except Exception as ex:  # noqa: BLE001
                    res.fail(f"lagrange backend={backend} raises", f"{type(ex).__name__}: {str(ex)[:120]}", dict(ident, backend=backend))
            # a dof entered twice on the multiplier path must hold the sum, as with elimination
            if et == "SEG2":
                beams = [Models.Beam.Isotropic(2, Line(pA, pB, L / 4), sect, E, v), Models.Beam.Isotropic(2, Line(pB, pC, L / 4), sect, E, v)]
                meshd = Mesher().Mesh_Beams(beams, elemType=ElemType(et))
                sd = Simulations.Beam(meshd, Models.Beam.BeamStructure(beams), useTimoshenko=timo)
                sd.add_dirichlet(meshd.Nodes_Point(pA), [0, 0, 0], ["x", "y", "rz"])
                sd.add_connection_fixed(meshd.Nodes_Point(pB))
                sd.add_dirichlet(meshd.Nodes_Point(pC), [0.25], ["y"])
                sd.add_dirichlet(meshd.Nodes_Point(pC), [0.125], ["y"])
                ud = np.asarray(sd.Solve()).reshape(-1, 3)
                res.case(("beam", et, timo, "lagrange-repeated-dof"))
                got = ud[meshd.Nodes_Point(pC)[0], 1]
                if not np.isfinite(got) or not (abs(got - 0.375) <= 1e-9):
                    res.fail("lagrange repeated-dof", f"dof entered twice (0.25 + 0.125) on the multiplier path holds {got!r} instead of 0.375", ident)
            # the order in which the conditions (and the unknowns inside a condition) are entered must not matter on the multiplier path
            for order in ("tip first", "tip first, unknowns reversed", "clamp unknowns reversed"):
                beams = [Models.Beam.Isotropic(2, Line(pA, pB, L / 4), sect, E, v), Models.Beam.Isotropic(2, Line(pB, pC, L / 4), sect, E, v)]
                mesho = Mesher().Mesh_Beams(beams, elemType=ElemType(et))
                so = Simulations.Beam(mesho, Models.Beam.BeamStructure(beams), useTimoshenko=timo)
                clampv = [0.0, 0.001, -0.002]
                if order == "clamp unknowns reversed":
                    so.add_dirichlet(mesho.Nodes_Point(pA), clampv[::-1], ["rz", "y", "x"])
                    so.add_connection_fixed(mesho.Nodes_Point(pB))
                    so.add_dirichlet(mesho.Nodes_Point(pC), tipval[:2], ["x", "y"])
                else:
                    if order == "tip first":
                        so.add_dirichlet(mesho.Nodes_Point(pC), tipval[:2], ["x", "y"])
                    else:
                        so.add_dirichlet(mesho.Nodes_Point(pC), tipval[:2][::-1], ["y", "x"])
                    so.add_connection_fixed(mesho.Nodes_Point(pB))
                    so.add_dirichlet(mesho.Nodes_Point(pA), clampv, ["x", "y", "rz"])
                so.add_neumann(mesho.Nodes_Point(pC), [3.0], ["rz"])
                res.case(("beam", et, timo, "order", order))
                try:
                    uo = np.asarray(so.Solve()).reshape(-1, 3)
                except Exception as ex:  # noqa: BLE001
                    res.fail("lagrange entry order raises", f"{type(ex).__name__}: {str(ex)[:150]}", dict(ident, order=order))
                    continue
                nAo, nCo = mesho.Nodes_Point(pA)[0], mesho.Nodes_Point(pC)[0]
                if not (np.abs(uo[nCo, :2] - np.array(tipval[:2])).max() <= 1e-9) or not (np.abs(uo[nAo] - np.array(clampv)).max() <= 1e-9):
                    res.fail("lagrange dirichlet-value entry order", f"conditions entered as '{order}': the tip holds {uo[nCo, :2].tolist()} (prescribed {tipval[:2]}) and the clamp {uo[nAo].tolist()} (prescribed {clampv})",
                             dict(ident, order=order))
            s1, mesh1, u1 = out["one-beam"]
            nC1 = mesh1.Nodes_Point(pC)[0]
            res.case(("beam", et, timo, "lagrange-vs-elimination"))
            if not (np.abs(u[nC] - u1[nC1]).max() <= 1e-7 * (1 + np.abs(u1).max())):
                res.fail("lagrange vs elimination", f"tip response with a welded joint (multipliers) {u[nC].tolist()} differs from the continuous beam (elimination) {u1[nC1].tolist()}", ident)
            # correspondence: the bordered system
            pt = s.problemType
            K = s.Get_K_C_M_F(pt)[0]
            n = K.shape[0] - s._Bc_Lagrange_dim(pt) if hasattr(s, "_Bc_Lagrange_dim") else K.shape[0]
            n = mesh.Nn * 3
            if n <= 40 and et == "SEG2":
                Kd = K.toarray()[:n, :n]
                b = s.Bc_vector_Neumann(pt)
                dofs = s.Bc_dofs_Dirichlet(pt)
                vals = s.Bc_values_Dirichlet(pt)
                alpha = K.data.max()
                lag = s.Bc_Lagrange
                ltxt = " ".join(f"{len(l.dofs)} " + " ".join(str(int(d)) for d in l.dofs) + " " + fvec(l.lagrangeCoefs) + " " + fvec([l.dofsValues[0]]) for l in lag)
                lines.append(f"solve2 {n} {fvec(Kd)} {fvec(b)} {frac_str(Fraction(float(alpha)))} {len(dofs)} " + " ".join(str(int(d)) for d in dofs) + " " + fvec(vals) + f" {len(lag)} {ltxt}")
                expect.append(("solve2", ident, u.ravel()))

    # ---------------- B4: Newton-incremental Dirichlet values ----------------
    try:
        mesh = M.mesh_2d("QUAD4", a=2.0, b=1.0, h=1.0)
        mat = Models.HyperElastic.SaintVenantKirchhoff(2, 4.0, 4.0)
        simu = Simulations.HyperElastic(mesh, mat)
        left = mesh.Nodes_Conditions(lambda x, y, z: x == 0)
        right = mesh.Nodes_Conditions(lambda x, y, z: x == 2.0)
        simu.add_dirichlet(left, [0.0, 0.0], ["x", "y"])
        simu.add_dirichlet(right, [0.05, 0.01], ["x", "y"])
        u = np.asarray(simu.Solve()).reshape(-1, 2)
        res.case(("newton-dirichlet",))
        if not (np.abs(u[right] - np.array([0.05, 0.01])).max() <= 1e-9):
            res.fail("newton incremental dirichlet", f"after the Newton solve the constrained dofs hold {u[right][0].tolist()} instead of [0.05, 0.01]", dict(sim="HyperElastic"))
        # tiny prescribed values on a soft material (forces far below the absolute tolerance of the Newton loop): the constrained dofs still hold them
        for E_small, ud_small in ((1e-3, 1e-4), (4.0, 1e-7)):
            simu3 = Simulations.HyperElastic(mesh, Models.HyperElastic.SaintVenantKirchhoff(2, E_small, E_small))
            simu3.add_dirichlet(left, [0.0, 0.0], ["x", "y"])
            simu3.add_dirichlet(right, [ud_small, -ud_small / 2], ["x", "y"])
            u3 = np.asarray(simu3.Solve()).reshape(-1, 2)
            res.case(("newton-dirichlet-small", E_small, ud_small))
            if not (np.abs(u3[right] - np.array([ud_small, -ud_small / 2])).max() <= 1e-9 * ud_small):
                res.fail("newton incremental dirichlet small forces", f"moduli {E_small}, prescribed displacement {ud_small}: after the Newton solve the constrained dofs hold {u3[right][0].tolist()}", dict(sim="HyperElastic", moduli=E_small, prescribed=ud_small))
        # the same dof entered twice with non-zero values: the sum convention must survive Newton iterations
        simu2 = Simulations.HyperElastic(mesh, Models.HyperElastic.SaintVenantKirchhoff(2, 4.0, 4.0))
        simu2.add_dirichlet(left, [0.0, 0.0], ["x", "y"])
        simu2.add_dirichlet(right, [0.03], ["x"])
        simu2.add_dirichlet(right, [0.02], ["x"])
        u2 = np.asarray(simu2.Solve()).reshape(-1, 2)
        res.case(("newton-dirichlet-repeated",))
        if not (np.abs(u2[right, 0] - 0.05).max() <= 1e-9):
            res.fail("newton incremental dirichlet repeated-dof", f"dof entered twice (0.03 + 0.02): after the Newton solve it holds {u2[right, 0][0]!r} instead of 0.05", dict(sim="HyperElastic", values=[0.03, 0.02]))
    except Exception as ex:  # noqa: BLE001
        res.fail("newton incremental dirichlet raises", f"the Newton-incremental scenario raised {type(ex).__name__}: {str(ex)[:150]}", dict(sim="HyperElastic"))

    # ---------------- B5: the same Dirichlet data grouped into conditions in different ways; the entered data survive the solve ----------------
    # (one condition holding everything / one per unknown / one per edge; values as functions or arrays; linear and Newton-incremental solves)
    meshP = M.mesh_2d("TRI3", a=1.0, b=1.0, h=0.25)
    cP = meshP.coord
    leftP, rightP = np.where(np.isclose(cP[:, 0], 0.0))[0], np.where(np.isclose(cP[:, 0], 1.0))[0]
    edgesP = np.concatenate([leftP, rightP])
    for kind in ("elastic", "thermal", "hyperelastic"):
        if kind == "thermal":
            unkP = ["t"]
            coefP = [(0.5, 0.25, 0.125)]
        else:
            unkP = ["x", "y"]
            coefP = [(0.0625, 0.03125, 0.0), (0.0, -0.046875, 0.0078125)]
        nP = len(unkP)
        funcsP = [lambda x, y, z, c=c: c[0] * x + c[1] * y + c[2] for c in coefP]
        wantP = np.zeros(meshP.Nn * nP)           # closed form: the entered field at the constrained nodes
        for k, c in enumerate(coefP):
            wantP[edgesP * nP + k] = c[0] * cP[edgesP, 0] + c[1] * cP[edgesP, 1] + c[2]
        dofsP = np.sort(np.concatenate([edgesP * nP + k for k in range(nP)]))
        groupings = ["one condition", "one condition, arrays", "one per edge"] + (["one per unknown"] if nP > 1 else [])
        urefP = None
        for grouping in groupings:
            identP = dict(sim=kind, grouping=grouping, mesh="TRI3 unit square h=0.25", nodes="x=0 and x=1",
                          values={u: f"{c[0]}*x + {c[1]}*y + {c[2]}" for u, c in zip(unkP, coefP)})
            res.case(("grouping", kind, grouping))
            res.count("grouping:" + kind)
            try:
                if kind == "elastic":
                    sP = Simulations.Elastic(meshP, Models.Elastic.Isotropic(2, E=8.0, v=0.25, planeStress=True, thickness=1.0))
                elif kind == "thermal":
                    sP = Simulations.Thermal(meshP, Models.Thermal(2.0, 1.0))
                else:
                    sP = Simulations.HyperElastic(meshP, Models.HyperElastic.SaintVenantKirchhoff(2, 4.0, 4.0))
                if grouping == "one condition":
                    sP.add_dirichlet(edgesP, list(funcsP), list(unkP))
                elif grouping == "one condition, arrays":
                    sP.add_dirichlet(edgesP, [f(cP[edgesP, 0], cP[edgesP, 1], cP[edgesP, 2]) for f in funcsP], list(unkP))
                elif grouping == "one per edge":
                    sP.add_dirichlet(leftP, list(funcsP), list(unkP))
                    sP.add_dirichlet(rightP, list(funcsP), list(unkP))
                else:
                    for f, u_ in zip(funcsP, unkP):
                        sP.add_dirichlet(edgesP, [f], [u_])
                before = np.asarray(sP.Bc_vector_Dirichlet()).ravel().copy()
                uP = np.asarray(sP.Solve()).ravel().copy()
                after = np.asarray(sP.Bc_vector_Dirichlet()).ravel().copy()
                uP2 = np.asarray(sP.Solve()).ravel().copy()
            except Exception as ex:  # noqa: BLE001
                res.fail(f"grouped conditions raise sim={kind}", f"conditions entered as '{grouping}': {type(ex).__name__}: {str(ex)[:150]}", identP)
                continue
            if not (np.abs(before - wantP).max() <= 1e-12):
                res.fail(f"Bc_vector_Dirichlet grouped sim={kind}", f"conditions entered as '{grouping}': Bc_vector_Dirichlet() before the solve differs from the entered field by {np.abs(before - wantP).max():.2e}", identP)
            if not (np.abs(uP[dofsP] - wantP[dofsP]).max() <= 1e-10):
                res.fail(f"constrained-value grouped sim={kind}", f"conditions entered as '{grouping}': after the solve the constrained dofs are off their prescribed values by {np.abs(uP[dofsP] - wantP[dofsP]).max():.2e}", identP)
            if not (np.abs(after - before).max() <= 1e-14):
                res.fail(f"solve changes the entered Dirichlet values sim={kind}", f"conditions entered as '{grouping}': Bc_vector_Dirichlet() after Solve differs from the one before by {np.abs(after - before).max():.2e}", identP)
            if not (np.abs(uP2 - uP).max() <= 1e-8 * (1 + np.abs(uP).max())) or not (np.abs(uP2[dofsP] - wantP[dofsP]).max() <= 1e-10):
                res.fail(f"second solve differs sim={kind}", f"conditions entered as '{grouping}': a second Solve of the same problem differs from the first by {np.abs(uP2 - uP).max():.2e} "
                         f"(constrained dofs off by {np.abs(uP2[dofsP] - wantP[dofsP]).max():.2e})", identP)
            if urefP is None:
                urefP = uP
            elif not (np.abs(uP - urefP).max() <= 1e-8 * (1 + np.abs(urefP).max())):
                res.fail(f"grouping of the conditions changes the solution sim={kind}", f"the same Dirichlet data entered as '{grouping}' and as '{groupings[0]}' give solutions that differ by {np.abs(uP - urefP).max():.2e}", identP)

    # ---------------- B6: bounded least-squares backend along a load / unload history ----------------
    # the stated system of a damage solve with BoundConstrain is  min |Kd d - Fd|  subject to  d_previous <= d <= 1 ; once the plate is
    # unloaded Fd = 0 (AT2) but the bounds are not: the damage stays where it was
    from scipy.optimize import lsq_linear
    meshH = M.mesh_2d("TRI3", a=1.0, b=1.0, h=0.2)
    leftH, rightH = meshH.Nodes_Conditions(lambda x, y, z: x == 0), meshH.Nodes_Conditions(lambda x, y, z: x == 1.0)
    historyH = [0.01, 0.02, 0.0, 0.0, 0.005]
    for psolver, split in (("BoundConstrain", "Bourdin"), ("BoundConstrain", "Amor"), ("HistoryDamage", "Bourdin")):
        identH = dict(sim="PhaseField", damage_solver=psolver, split=split, regularization="AT2", Gc=1.0, l0=0.1, E=210000.0, v=0.3,
                      mesh="TRI3 unit square h=0.2", history_ux_right=historyH, staggered_iterations_per_step=1)
        try:
            sH = Simulations.PhaseField(meshH, Models.PhaseField(Models.Elastic.Isotropic(2, E=210000.0, v=0.3, planeStress=True, thickness=1.0), split, "AT2", 1.0, 0.1, solver=psolver))
            dmax = 0.0
            for kstep, ud in enumerate(historyH):
                d_prev = np.asarray(sH.damage).copy()
                ref = None
                if psolver == "BoundConstrain":
                    # the damage problem is solved first, with the displacement of the previous step: this is its system
                    Kd, _, _, Fd = sH.Get_K_C_M_F("damage")
                    Fd = np.asarray(Fd.todense()).ravel()
                    lbH = np.minimum(d_prev, 1 - np.finfo(float).eps)
                    ref = lsq_linear(Kd, Fd, bounds=(lbH, np.ones_like(lbH)), tol=1e-10, method="trf").x
                sH.Bc_Init()
                sH.add_dirichlet(leftH, [0.0, 0.0], ["x", "y"])
                sH.add_dirichlet(rightH, [ud], ["x"])
                sH.Solve()
                sH.Save_Iter()
                d_new = np.asarray(sH.damage).copy()
                uH = np.asarray(sH.displacement).reshape(meshH.Nn, 2)
                dmax = max(dmax, float(d_prev.max()))
                res.case(("damage-history", psolver, split, kstep), nontrivial=bool(d_prev.max() > 0.05 and ud == 0.0))
                ids = dict(identH, step=kstep)
                if not np.all(np.isfinite(d_new)) or not ((d_prev - d_new).max() <= 1e-8) or not (d_new.max() <= 1 + 1e-8):
                    res.fail(f"damage leaves its bounds solver={psolver}", f"step {kstep} (ux = {ud} on the right edge): the damage goes below the one of the previous step by {(d_prev - d_new).max():.3e} "
                             f"(previous max {d_prev.max():.3f}, new range [{d_new.min():.3e}, {d_new.max():.3e}])", ids)
                elif ref is not None and not (np.abs(d_new - ref).max() <= 1e-6):
                    res.fail("bounded least squares solution differs", f"step {kstep}: the damage differs by {np.abs(d_new - ref).max():.3e} from scipy's lsq_linear on the assembled damage system with bounds (previous damage, 1)", ids)
                if not (np.abs(uH[rightH, 0] - ud).max() <= 1e-10) or not (np.abs(uH[leftH]).max() <= 1e-12):
                    res.fail(f"constrained-value sim=phasefield history solver={psolver}", f"step {kstep}: ux on the right edge is off {ud} by {np.abs(uH[rightH, 0] - ud).max():.2e}", ids)
            if not (dmax > 0.05):
                res.disagree("damage-history-trivial", dict(identH, max_damage=dmax))
        except Exception as ex:  # noqa: BLE001
            res.fail(f"damage history raises solver={psolver}", f"{type(ex).__name__}: {str(ex)[:150]}", identH)

    # ---------------- B7: prescribed non-zero displacements with every hyperbolic time scheme ----------------
    from EasyFEA import AlgoType
    meshT = M.mesh_2d("QUAD4", a=2.0, b=1.0, h=0.5)
    leftT, rightT = meshT.Nodes_Conditions(lambda x, y, z: x == 0), meshT.Nodes_Conditions(lambda x, y, z: x == 2.0)
    for algo in AlgoType:
        if algo.value in ("elliptic", "parabolic"):
            continue
        identT = dict(sim="Elastic", rho=1.0, E=8.0, v=0.25, mesh="QUAD4 2x1 h=0.5", algo=algo.value, dt=0.01, steps=3,
                      conditions=[dict(nodes="x=0", values=[0.0, 0.0], unknowns=["x", "y"]), dict(nodes="x=2", values=[0.1], unknowns=["x"])])
        res.case(("hyperbolic-dirichlet", algo.value))
        try:
            sT = Simulations.Elastic(meshT, Models.Elastic.Isotropic(2, E=8.0, v=0.25, planeStress=True, thickness=1.0))
            sT.rho = 1.0
            sT.add_dirichlet(leftT, [0.0, 0.0], ["x", "y"])
            sT.add_dirichlet(rightT, [0.1], ["x"])
            sT.Solver_Set_Hyperbolic_Algorithm(0.01, algo=algo, **(dict(alpha=1 / 6) if algo.value == "hht_newmark" else {}))
            for _ in range(3):
                uT = np.asarray(sT.Solve()).reshape(-1, 2).copy()
                sT.Save_Iter()
        except Exception as ex:  # noqa: BLE001
            res.fail(f"hyperbolic solve raises algo={algo.value}", f"{type(ex).__name__}: {str(ex)[:150]}", identT)
            continue
        if not np.all(np.isfinite(uT)) or not (np.abs(uT[leftT]).max() <= 1e-12):
            res.fail(f"hyperbolic homogeneous constraint algo={algo.value}", f"after 3 steps the displacement is non-finite or the clamped edge moved by {np.abs(uT[leftT]).max():.2e}", identT)
        elif not (np.abs(uT[rightT, 0] - 0.1).max() <= 1e-10):
            if algo.value == "euler_explicit" and not (np.abs(uT[rightT, 0]).max() <= 0.0):
                # the recorded finding is 'the prescribed values are never imposed' (the dofs stay at 0.0): anything else is another defect
                res.fail(f"constrained value partly imposed algo={algo.value}", f"after 3 steps ux on the right edge holds {uT[rightT, 0].tolist()} (prescribed 0.1)", identT)
            else:
                res.fail(f"constrained value algo={algo.value}", f"after 3 steps ux on the right edge holds {uT[rightT, 0].tolist()} instead of the prescribed 0.1", identT)

    # ---------------- B8: a beam connection entered twice (a redundant multi-point constraint) ----------------
    sectF = Mesher().Mesh_2D(Domain(Point(), Point(0.5, 0.5)))
    pFA, pFB, pFC = Point(0, 0), Point(2.0, 0.5), Point(4.0, 1.0)
    uF = {}
    identF = dict(sim="Beam", elemType="SEG2", points=[[0, 0], [2.0, 0.5], [4.0, 1.0]], E=1000.0, v=0.25, section="0.5 x 0.5",
                  conditions="clamp at A, add_connection_fixed(nodes at B) entered twice, load [1.0, 3.0] on (y, rz) at C")
    for ntimes in (1, 2):
        res.case(("duplicated-connection", ntimes))
        try:
            beamsF = [Models.Beam.Isotropic(2, Line(pFA, pFB, 1.0), sectF, 1000.0, 0.25), Models.Beam.Isotropic(2, Line(pFB, pFC, 1.0), sectF, 1000.0, 0.25)]
            meshF = Mesher().Mesh_Beams(beamsF, elemType=ElemType("SEG2"))
            sF = Simulations.Beam(meshF, Models.Beam.BeamStructure(beamsF))
            sF.add_dirichlet(meshF.Nodes_Point(pFA), [0, 0, 0], ["x", "y", "rz"])
            for _ in range(ntimes):
                sF.add_connection_fixed(meshF.Nodes_Point(pFB))
            sF.add_neumann(meshF.Nodes_Point(pFC), [1.0, 3.0], ["y", "rz"])
            uF[ntimes] = np.asarray(sF.Solve()).reshape(-1, 3).copy()
        except Exception as ex:  # noqa: BLE001
            res.fail("duplicated connection raises" if ntimes == 2 else "beam frame with one connection raises", f"{type(ex).__name__}: {str(ex)[:150]}", dict(identF, times_entered=ntimes))
    if 1 in uF and not np.all(np.isfinite(uF[1])):
        res.fail("beam frame with one connection non-finite", "the welded two-beam frame with the connection entered once has a non-finite solution", dict(identF, times_entered=1))
    elif 1 in uF and 2 in uF:
        if not np.all(np.isfinite(uF[2])):
            res.fail("duplicated connection non-finite solution", f"add_connection_fixed(nodes) entered twice: {int((~np.isfinite(uF[2])).sum())} of {uF[2].size} values of the solution are not finite "
                     "(entered once the problem is regular)", dict(identF, times_entered=2))
        elif not (np.abs(uF[2] - uF[1]).max() <= 1e-8 * (1 + np.abs(uF[1]).max())):
            res.fail("duplicated connection changes the solution", f"add_connection_fixed(nodes) entered twice: the solution differs by {np.abs(uF[2] - uF[1]).max():.2e} from the one with the connection entered once", dict(identF, times_entered=2))

    # ---------------- B9: a condition on an unknown the problem does not have ----------------
    # "every constrained dof holds its prescribed value": a condition naming an unknown the problem does not have must be refused
    # (as add_neumann and the distributed loads do) or, if accepted, must not constrain dofs of nodes it does not name
    for simk9, unk9, bad9 in (("elastic2D", ["x", "y"], "z"), ("thermal", ["t"], "x"), ("elastic3D", ["x", "y", "z"], "rx")):
        res.case(("foreign-unknown", simk9))
        identU = dict(sim=simk9, conditions=f"clamp on x = 0, then add_dirichlet(nodes on x = max, [0.5], ['{bad9}'])")
        try:
            mesh9 = M.mesh_3d("TETRA4") if simk9 == "elastic3D" else M.mesh_2d("TRI3", a=1.0, b=1.0, h=0.5)
            s9 = Simulations.Thermal(mesh9, Models.Thermal(1.0, 1.0)) if simk9 == "thermal" else Simulations.Elastic(mesh9, Models.Elastic.Isotropic(mesh9.dim))
            left9 = mesh9.Nodes_Conditions(lambda x, y, z: x == 0)
            xmax9 = mesh9.coord[:, 0].max()
            right9 = mesh9.Nodes_Conditions(lambda x, y, z: x == xmax9)
            s9.add_dirichlet(left9, [0.0] * len(unk9), unk9)
            import io as _io, contextlib as _ctx
            refused = False
            try:
                with _ctx.redirect_stdout(_io.StringIO()):
                    s9.add_dirichlet(right9, [0.5], [bad9])
            except (AssertionError, ValueError, KeyError, IndexError):
                refused = True
            if not refused:
                dofs9 = set(int(d) for d in np.asarray(s9.Bc_dofs_Dirichlet()).ravel())
                named9 = set(int(n) * len(unk9) + c for n in list(left9) + list(right9) for c in range(len(unk9)))
                u9 = np.asarray(s9.Solve()).reshape(-1, len(unk9))
                held9 = np.abs(u9[left9]).max()
                if not (dofs9 <= named9) or not (held9 <= 1e-12):
                    res.fail("condition on an unknown the problem does not have is accepted and constrains other dofs",
                             f"add_dirichlet(nodes, [0.5], ['{bad9}']) on a problem with the unknowns {unk9} was accepted: constrained dofs {sorted(dofs9 - named9)[:6]} belong to nodes / components the conditions do not name, "
                             f"and the clamped nodes hold {held9:.3g} instead of 0", identU)
        except Exception as ex:  # noqa: BLE001
            res.fail("condition on an unknown the problem does not have: scenario raises", f"{type(ex).__name__}: {str(ex)[:200]}", identU)

    # ---------------- correspondence ----------------
    answers = driver.ask(lines)
    if answers is None:
        res.disagree("driver", "model driver does not run: " + getattr(driver, "error", "")[:400])
    else:
        for (what, ident, real), ans in zip(expect, answers):
            res.traces += 1
            if what == "dofs":
                if [int(t) for t in ans.split()] != list(real):
                    res.disagree("dof-lookup", dict(ident=ident, model=ans, real=real))
                continue
            if "singular" in ans or "bad" in ans:
                res.disagree(what, dict(ident=ident, answer=ans))
                continue
            part = ans.split("|")[0]
            mv = np.array([float(parse_frac(t)) for t in part.split()])
            rv = np.asarray(real, float).ravel()
            if mv.shape != rv.shape or not (np.abs(mv - rv).max() <= 1e-8 * (1 + np.abs(mv).max())):
                res.disagree(what, dict(ident=ident, maxdev=float(np.abs(mv - rv).max()) if mv.shape == rv.shape else "shape"))
    res.search_note = "random boundary-condition programs on all solver paths found no violated constraint, residual or backend disagreement"
    res.write("seeded boundary-condition programs (2-5 overlapping / duplicated / permuted Dirichlet conditions given as constants, arrays and functions, one load) on "
              "Elastic and Thermal simulations, solved by every installed backend; orphan node; inclined two-beam welded joint (multipliers) vs continuous beam "
              "(elimination) for SEG2-4, Euler-Bernoulli/Timoshenko; HyperElastic Newton solve; one data set grouped as one condition / per edge / per unknown "
              "(Elastic, Thermal, HyperElastic); BoundConstrain / HistoryDamage load-unload history against lsq_linear and the bounds; 3 steps of every hyperbolic scheme "
              "with a non-zero prescribed displacement; welded frame with the connection entered twice; non-trivial = program with a dof constrained more than once; "
              "distinct = distinct (program, check)")


if __name__ == "__main__":
    from tools.harness._common import run

    run(main)
