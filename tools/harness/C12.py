"""C12 harness.
(B) property oracle: random expression programs over integer-valued finite-element arrays, executed on
    the real FeArray and, independently, by explicit loops over (e, p) with numpy on plain arrays
    (fields indexed at [e, p], plain arrays acting as constant tensors); values AND result type compared.
(A) correspondence: generated Det/adj formulas, einsum subscripts and the axis rule vs the real functions."""

from __future__ import annotations

import itertools

import numpy as np

from tools.harness._common import Driver, Result, parse_args, parse_frac, rng_for

from EasyFEA.FEM import FeArray
from EasyFEA.FEM._linalg import Det, Inv, Trace, TensorProd, Transpose, Norm, _KeepsFeAxes

SHAPES = [(3, 3, 3), (2, 3, 3), (3, 2, 2), (1, 1, 2), (2, 2, 2), (4, 3, 2), (3, 1, 3), (1, 3, 3)]


def ints(rng, shape, lo=-4, hi=4, nonzero=False):
    n = int(np.prod(shape)) if shape else 1
    v = []
    for _ in range(n):
        x = rng.randint(lo, hi)
        while nonzero and x == 0:
            x = rng.randint(lo, hi)
        v.append(float(x))
    return np.array(v).reshape(shape)


def tshape(rank, d):
    return (d,) * rank


def loop(Ne, nPg, f, *ops):
    """explicit (e, p) loop: FeArray operands are indexed [e, p] (size-1 fe axes broadcast), others passed as is"""
    out = {}
    for e in range(Ne):
        for p in range(nPg):
            args = []
            for kind, a in ops:
                if kind == "fe":
                    args.append(a[min(e, a.shape[0] - 1), min(p, a.shape[1] - 1)])
                else:
                    args.append(a)
            out[(e, p)] = np.asarray(f(*args))
    first = out[(0, 0)]
    res = np.zeros((Ne, nPg) + first.shape, dtype=first.dtype if first.dtype != bool else bool)
    for (e, p), v in out.items():
        res[e, p] = v
    return res


def describe(ops):
    return [dict(kind=k, shape=list(np.shape(a)), values=np.asarray(a).tolist()) for k, a in ops]


def compare(res, key, desc, got, want, want_fe, ident, tol=1e-9):
    res.case(key)
    got_fe = isinstance(got, FeArray)
    g = np.asarray(got)
    w = np.asarray(want)
    if g.shape != w.shape:
        res.fail(f"{desc} shape", f"{desc}: result shape {g.shape}, per-(e,p) loop gives {w.shape}", ident)
        return
    if g.size and not (np.abs(g.astype(float) - w.astype(float)).max() <= tol * (1 + np.abs(w.astype(float)).max())):
        res.fail(f"{desc} value", f"{desc}: differs from the per-(e,p) loop by {np.abs(g.astype(float) - w.astype(float)).max():.3e}", ident)
        return
    if want_fe is not None and got_fe != want_fe:
        res.fail(f"{desc} type", f"{desc}: result is {'a FeArray' if got_fe else 'a plain array'} but the (Ne, nPg) axes are {'preserved' if want_fe else 'not preserved'}", ident)


def compare_rel(res, key, desc, got, want, want_fe, ident, tol=1e-10):
    """as compare, but the difference is measured relative to the size of the expected result (tiny / huge values)"""
    res.case(key)
    got_fe = isinstance(got, FeArray)
    g = np.asarray(got, dtype=float)
    w = np.asarray(want, dtype=float)
    if g.shape != w.shape:
        res.fail(f"{desc} shape", f"{desc}: result shape {g.shape}, per-(e,p) loop gives {w.shape}", ident)
        return
    ref = np.abs(w).max() if w.size else 1.0
    err = (np.abs(g - w).max() / ref) if (w.size and ref > 0) else (np.abs(g).max() if g.size else 0.0)
    if not (err <= tol):
        res.fail(f"{desc} value", f"{desc}: differs from the per-(e,p) loop by {err:.3e} relative to the largest expected entry {ref:.3e}", ident)
        return
    if want_fe is not None and got_fe != want_fe:
        res.fail(f"{desc} type", f"{desc}: result is {'a FeArray' if got_fe else 'a plain array'} but the (Ne, nPg) axes are {'preserved' if want_fe else 'not preserved'}", ident)


def closed_forms_at_scales(res, rng):
    """Det / Inv / Trace / A @ Inv(A) of well conditioned matrices whose entries are all multiplied by a unit factor:
    the per-(e, p) operation is the same at any magnitude (np.linalg on each (e, p) block, plain loop)."""
    for dim in (1, 2, 3):
        for (Ne, nPg) in ((3, 3), (2, 3), (4, 2), (1, 1)):
            while True:
                a = ints(rng, (Ne, nPg, dim, dim))
                if np.all(np.abs(np.linalg.det(a)) > 0.5):
                    break
            for scale in (1e-8, 1e-5, 1e-3, 1e-1, 1e2, 1e6):
                res.count("scaled-closed-forms")
                m = a * scale
                want_det = loop(Ne, nPg, np.linalg.det, ("fe", m))
                want_inv = loop(Ne, nPg, np.linalg.inv, ("fe", m))
                want_tr = loop(Ne, nPg, np.trace, ("fe", m))
                for fe in (True, False):
                    M = FeArray.asfearray(m) if fe else m
                    ident = dict(op="Det/Inv/Trace at a scale", dim=dim, Ne=Ne, nPg=nPg, fe=fe, scale=scale, integer_part=a.tolist())
                    tag = f"dim={dim} entries scaled"
                    try:
                        det, inv, tr = Det(M), Inv(M), Trace(M)
                        prod = (M @ inv) if fe else np.einsum("...ij,...jk->...ik", m, np.asarray(inv))
                    except Exception as ex:  # noqa: BLE001
                        res.case(("scaled", dim, fe, scale, (Ne, nPg)))
                        res.fail(f"Det/Inv {tag} raises", f"raised {ex!r} for matrices of size {scale:g}", ident)
                        continue
                    compare_rel(res, ("scaled-Det", dim, fe, scale, (Ne, nPg)), f"Det {tag}", det, want_det, fe, ident)
                    compare_rel(res, ("scaled-Inv", dim, fe, scale, (Ne, nPg)), f"Inv {tag}", inv, want_inv, fe, ident)
                    compare_rel(res, ("scaled-Trace", dim, fe, scale, (Ne, nPg)), f"Trace {tag}", tr, want_tr, fe, ident)
                    compare_rel(res, ("scaled-A@Inv(A)", dim, fe, scale, (Ne, nPg)), f"A @ Inv(A) {tag}", prod,
                                np.broadcast_to(np.eye(dim), (Ne, nPg, dim, dim)), fe, ident, tol=1e-9)


def field_operands(res, rng):
    """A Field used as an operand stands for its shape function N_node(p) (times e_dof for a vector field), at every use:
    expressions are compared with loops over (e, p) on a copy of the shape functions taken before any Field exists, first
    on a new Field, then again after the caller changed in place the arrays it had obtained (u(), results), then on another
    active node, then on a Field built afterwards on the same group of elements, and inside forms."""
    from EasyFEA import MatrixType
    from EasyFEA.FEM import Field, BiLinearForm, LinearForm
    from tools.harness._meshes import mesh_of

    for et, mtname in (("TRI3", "mass"), ("TRI6", "mass"), ("QUAD4", "rigi"), ("TETRA4", "mass"), ("SEG3", "mass")):
        mt = getattr(MatrixType, mtname)
        g = mesh_of(et).groupElem
        Ne, nPe, inDim = g.Ne, g.nPe, g.inDim
        N_ref = np.array(g.Get_N_pg(mt), dtype=float, copy=True)  # (nPg, 1, nPe)
        nPg = N_ref.shape[0]
        wJ = np.array(g.Get_weightedJacobian_e_pg(mt), dtype=float, copy=True)
        base = dict(elemType=et, matrixType=mtname, mesh="tools.harness._meshes.mesh_of(elemType)", Ne=int(Ne), nPg=int(nPg))
        res.case(("field partition of unity", et, mtname))
        if not (np.abs(N_ref.sum(axis=2) - 1).max() <= 1e-12):
            res.fail("shape functions do not sum to 1", f"{et}: sum_n N_n(p) != 1", base)

        def fref(dof_n, node, dof):
            arr = np.zeros((1, nPg, dof_n))
            arr[0, :, dof] = N_ref[:, 0, node]
            return arr

        x = ints(rng, (Ne, nPg), nonzero=True)
        X = FeArray.asfearray(x.copy())
        for dof_n in sorted({1, inDim}):
            vv = ints(rng, (Ne, nPg, dof_n), nonzero=True)
            mm = ints(rng, (Ne, nPg, dof_n, dof_n))
            cv = ints(rng, (dof_n,), nonzero=True)
            V, M = FeArray.asfearray(vv.copy()), FeArray.asfearray(mm.copy())

            def expressions(u):
                ex = [("u * x", lambda: u * X, lambda n, a: n * a, "x"),
                      ("x * u", lambda: X * u, lambda n, a: a * n, "x"),
                      ("u + x", lambda: u + X, lambda n, a: n + a, "x"),
                      ("x - u", lambda: X - u, lambda n, a: a - n, "x"),
                      ("u - x", lambda: u - X, lambda n, a: n - a, "x"),
                      ("u / x", lambda: u / X, lambda n, a: n / a, "x"),
                      ("np.multiply(x, u)", lambda: np.multiply(X, u), lambda n, a: a * n, "x"),
                      ("2.5 * u * x", lambda: 2.5 * u * X, lambda n, a: 2.5 * n * a, "x"),
                      ("u() * x", lambda: u() * X, lambda n, a: n * a, "x")]
                if dof_n > 1:
                    ex += [("u.dot(v)", lambda: u.dot(V), lambda n, a: n @ a, "v"),
                           ("u @ v", lambda: u @ V, lambda n, a: n @ a, "v"),
                           ("v @ u", lambda: V @ u, lambda n, a: a @ n, "v"),
                           ("v - u", lambda: V - u, lambda n, a: a - n, "v"),
                           ("M @ u", lambda: M @ u, lambda n, a: a @ n, "M"),
                           ("u * list(c)", lambda: (u * cv.tolist()) + 0 * V, lambda n, a: n * cv + 0 * a, "v")]
                return ex

            PHASES = {"first use": "new Field",
                      "second use": "same Field, after the caller changed in place the arrays it had obtained (w = u(); w *= 3; w += 1; r = u * x; r[...] = nan)",
                      "other node": "same Field, other active node / dof",
                      "other node, second use": "same Field, other active node / dof, after the caller changed in place the arrays it had obtained",
                      "later field": "Field built afterwards on the same group of elements"}

            def check(u, node, dof, phase):
                u._Set_current_active_node(node)
                u._Set_current_active_dof(dof)
                n_arr = fref(dof_n, node, dof)
                for name, fn, f, second in expressions(u):
                    other = dict(x=x, v=vv, M=mm)[second]
                    res.count("field-operand")
                    ident = dict(base, dof_n=dof_n, active_node=node, active_dof=dof, history=PHASES[phase], expression=name,
                                 **{second: other.tolist()}, c=cv.tolist())
                    key = ("field", et, dof_n, name, phase)
                    try:
                        got = fn()
                    except Exception as ex:  # noqa: BLE001
                        res.case(key)
                        res.fail(f"Field operand: {name} raises", f"{et} dof_n={dof_n}: {name} raised {ex!r} ({phase})", ident)
                        continue
                    want = loop(Ne, nPg, f, ("fe", n_arr), ("fe", other))
                    compare(res, key, f"Field operand dof_n={dof_n}: {name} [{phase}]", got, want, True, ident, tol=1e-12)

            def caller_modifies(u):
                """what a caller may do with the arrays the library handed out: in-place arithmetic on ITS arrays"""
                w = u()
                if np.asarray(w).flags.writeable:
                    w *= 3.0
                    w += 1.0
                else:
                    res.count("field: u() is read-only")
                r = u * X
                if np.asarray(r).flags.writeable:
                    r[...] = np.nan

            nodes = sorted({0, nPe - 1, rng.randrange(nPe)})
            u = Field(g, dof_n, mt)
            check(u, 0, 0, "first use")
            caller_modifies(u)
            check(u, 0, 0, "second use")
            for node in nodes:
                dof = rng.randrange(dof_n)
                check(u, node, dof, "other node")
                caller_modifies(u)
                check(u, node, dof, "other node, second use")
            check(Field(g, dof_n, mt), nodes[-1], dof_n - 1, "later field")

            # interpolation of nodal values, before / after the caller changed the array it got
            u = Field(g, dof_n, mt)
            dofs = ints(rng, (g.Ncoords * dof_n,))
            want = np.zeros((Ne, nPg, dof_n))
            for e in range(Ne):
                for p in range(nPg):
                    for d in range(dof_n):
                        want[e, p, d] = sum(N_ref[p, 0, n] * dofs[g.connect[e, n] * dof_n + d] for n in range(nPe))
            for phase in ("first", "after in-place changes of u() and of the first result"):
                ident = dict(base, dof_n=dof_n, history=phase, dofsValues=dofs.tolist())
                try:
                    got = u.Interpolate(dofs.copy())
                except Exception as ex:  # noqa: BLE001
                    res.case(("field-interpolate", et, dof_n, phase))
                    res.fail("Field.Interpolate raises", f"{et} dof_n={dof_n}: raised {ex!r}", ident)
                    break
                compare(res, ("field-interpolate", et, dof_n, phase), f"Field.Interpolate dof_n={dof_n} [{phase}]", got, want, True, ident, tol=1e-12)
                caller_modifies(u)
                if np.asarray(got).flags.writeable:
                    got *= 2.0

        # forms whose integrand applies a coefficient in place to the array obtained from the trial / test function
        if et in ("TRI3", "TRI6", "SEG3"):
            rho = 2.5

            def mass(u, v):
                ru = u()
                ru *= rho
                return ru * v

            def load(v):
                rv = v()
                rv *= rho
                return rv * X

            want_M = np.zeros((Ne, nPe, nPe))
            want_b = np.zeros((Ne, nPe, 1))
            for e in range(Ne):
                for p in range(nPg):
                    for i in range(nPe):
                        want_b[e, i, 0] += wJ[e, p] * rho * N_ref[p, 0, i] * x[e, p]
                        for j in range(nPe):
                            want_M[e, i, j] += wJ[e, p] * rho * N_ref[p, 0, i] * N_ref[p, 0, j]
            for name, build, want in (("BiLinearForm rho u v", lambda: BiLinearForm(mass).Integrate_e(Field(g, 1, mt)), want_M),
                                      ("LinearForm rho x v", lambda: LinearForm(load).Integrate_e(Field(g, 1, mt)), want_b)):
                ident = dict(base, form=name, rho=rho, x=x.tolist(), integrand="w = u(); w *= rho; return w * v   (resp. w * x)")
                res.count("field-form")
                try:
                    got = build()
                except Exception as ex:  # noqa: BLE001
                    res.case(("field-form", et, name))
                    res.fail(f"{name} with an in-place coefficient raises", f"{et}: raised {ex!r}", ident)
                    continue
                compare_rel(res, ("field-form", et, name), f"{name}, coefficient applied in place to the array of the field", got, want, None, ident, tol=1e-11)


def main():
    args = parse_args()
    rng = rng_for(args)
    res = Result(args)
    driver = Driver("C12")
    nprog = 150 if args.tier == "quick" else 900
    if args.search:
        nprog = 600

    binops = [("add", np.add), ("sub", np.subtract), ("mul", np.multiply), ("maximum", np.maximum), ("minimum", np.minimum)]
    for it in range(nprog):
        Ne, nPg, d = rng.choice(SHAPES)
        kindsel = rng.choice(["binary", "binary", "contract", "reduce", "reduce", "closed", "tensorprod", "transpose", "broadcast"])
        res.count("program:" + kindsel)
        if kindsel == "binary":
            r1, r2 = rng.choice([0, 1, 2]), rng.choice([0, 1, 2])
            k1 = "fe"
            k2 = rng.choice(["fe", "fe", "const"])
            fs1 = rng.choice([(Ne, nPg), (Ne, nPg), (1, nPg), (Ne, 1)]) if k2 == "fe" else (Ne, nPg)
            name, uf = rng.choice(binops + [("div", np.divide)])
            a = ints(rng, fs1 + tshape(r1, d), nonzero=(name == "div"))
            b = ints(rng, ((Ne, nPg) if k2 == "fe" else ()) + tshape(r2, d), nonzero=True)
            A = FeArray.asfearray(a)
            B = FeArray.asfearray(b) if k2 == "fe" else b
            order = rng.choice(["ab", "ba"])
            ident = dict(op=name, order=order, Ne=Ne, nPg=nPg, d=d, operands=describe([(k1, a), (k2, b)]))
            try:
                got = uf(A, B) if order == "ab" else uf(B, A)
            except Exception as ex:  # noqa: BLE001
                got = ex
            ops = [(k1, a), (k2, b)] if order == "ab" else [(k2, b), (k1, a)]
            # ranks that cannot broadcast as tensors (e.g. (d,) with (d,d) is fine; all same d) always broadcast here
            want = loop(Ne, nPg, uf, *ops)
            if isinstance(got, Exception):
                res.fail(f"binary {name} ranks={r1},{r2} raises", f"{name}: raised {got!r} where the per-point tensor operation is defined", ident)
            else:
                compare(res, ("binary", name, r1, r2, k2, fs1 == (Ne, nPg), order, (Ne, nPg, d)), f"ufunc {name} ranks ({r1},{r2}) {k1}/{k2} order {order}", got, want, True, ident)
        elif kindsel == "contract":
            which = rng.choice(["matmul", "dot", "ddot"])
            if which == "ddot":
                r1, r2 = rng.choice([(2, 2), (2, 4), (4, 2), (4, 4)])
            elif which == "dot":
                r1, r2 = rng.choice([(1, 1), (1, 2), (2, 1), (2, 2), (1, 4), (4, 1), (2, 4), (4, 2)])
            else:
                r1, r2 = rng.choice([(1, 1), (2, 2), (1, 2), (2, 1)])
            dd = 2 if 4 in (r1, r2) else d
            k2 = rng.choice(["fe", "const"])
            a = ints(rng, (Ne, nPg) + tshape(r1, dd))
            b = ints(rng, ((Ne, nPg) if k2 == "fe" else ()) + tshape(r2, dd))
            A = FeArray.asfearray(a)
            B = FeArray.asfearray(b) if k2 == "fe" else b
            if which == "ddot":
                f = lambda x, y: np.tensordot(x, y, axes=2)  # noqa: E731
                got = A.ddot(B)
            else:
                f = lambda x, y: np.tensordot(x, y, axes=1)  # noqa: E731
                got = (A @ B) if which == "matmul" else A.dot(B)
            want = loop(Ne, nPg, f, ("fe", a), (k2, b))
            ident = dict(op=which, Ne=Ne, nPg=nPg, d=dd, operands=describe([("fe", a), (k2, b)]))
            compare(res, ("contract", which, r1, r2, k2, (Ne, nPg, dd)), f"{which} ranks ({r1},{r2}) second={k2}", got, want, True, ident)
        elif kindsel == "reduce":
            r = rng.choice([1, 2])
            a = ints(rng, (Ne, nPg) + tshape(r, d))
            A = FeArray.asfearray(a)
            nd = a.ndim
            red = rng.choice(["sum", "mean", "max", "min", "prod", "argmax", "any", "all", "std"])
            form = rng.choice(["method", "function"])
            single = rng.choice(list(range(-nd, nd)))
            axis = single
            if red not in ("argmax",) and not (rng.random() >= 0.3):
                other = rng.choice([x for x in range(-nd, nd) if (x % nd) != (single % nd)])
                axis = (single, other)
            if not (rng.random() >= 0.1):
                axis = None
            fn = getattr(np, red)
            want = fn(a, axis=axis) if axis is not None else fn(a)
            got = getattr(A, red)(axis=axis) if form == "method" else fn(A, axis=axis)
            if axis is None:
                keeps = False
            else:
                axes = axis if isinstance(axis, tuple) else (axis,)
                keeps = all((x % nd) >= 2 for x in axes)
            ident = dict(op=red, form=form, axis=axis, Ne=Ne, nPg=nPg, d=d, shape=list(a.shape), values=a.tolist())
            compare(res, ("reduce", red, form, str(axis), nd, (Ne, nPg, d)), f"reducer {red} ({form}) axis={axis} on shape {a.shape}", got, want, keeps, ident)
        elif kindsel == "closed":
            dim = rng.choice([1, 2, 3])
            while True:
                a = ints(rng, (Ne, nPg, dim, dim))
                dets = np.linalg.det(a)
                if np.all(np.abs(dets) > 0.5):
                    break
            fe = rng.random() < 0.7
            A = FeArray.asfearray(a) if fe else a
            ident = dict(op="Det/Inv/Trace", dim=dim, fe=fe, values=a.tolist())
            compare(res, ("Det", dim, fe, it), f"Det dim={dim}", Det(A), dets, fe, ident, tol=1e-9)
            compare(res, ("Inv", dim, fe, it), f"Inv dim={dim}", Inv(A), np.linalg.inv(a), fe, ident, tol=1e-9)
            compare(res, ("Trace", dim, fe, it), f"Trace dim={dim}", Trace(A), np.trace(a, axis1=-2, axis2=-1), fe, ident)
            compare(res, ("Transpose", dim, fe, it), f"Transpose dim={dim}", Transpose(A), np.swapaxes(a, -1, -2), fe, ident)
        elif kindsel == "tensorprod":
            nd_ = rng.choice([1, 2])
            sym = (nd_ == 2) and rng.random() < 0.6
            same = rng.random() < 0.3
            a = ints(rng, (Ne, nPg) + tshape(nd_, d))
            b = a if same else ints(rng, (Ne, nPg) + tshape(nd_, d))
            if nd_ == 1:
                f = lambda x, y: np.einsum("i,j->ij", x, y)  # noqa: E731
            elif sym:
                f = lambda x, y: 0.5 * (np.einsum("ik,jl->ijkl", x, y) + np.einsum("il,jk->ijkl", x, y))  # noqa: E731
            else:
                f = lambda x, y: np.einsum("ij,kl->ijkl", x, y)  # noqa: E731
            want = loop(Ne, nPg, f, ("fe", a), ("fe", b))
            got = TensorProd(FeArray.asfearray(a), FeArray.asfearray(b), symmetric=sym)
            ident = dict(op="TensorProd", ndim=nd_, symmetric=sym, same_operand=same, A=a.tolist(), B=b.tolist())
            compare(res, ("tensorprod", nd_, sym, same, (Ne, nPg, d)), f"TensorProd ndim={nd_} symmetric={sym}", got, want, True, ident)
            # plain arrays
            a0, b0 = a[0, 0], b[0, 0]
            got0 = TensorProd(a0, b0, symmetric=sym)
            compare(res, ("tensorprod-plain", nd_, sym, same, d), f"TensorProd on plain arrays ndim={nd_} symmetric={sym}", got0, f(a0, b0), False, ident)
        elif kindsel == "transpose":
            r = rng.choice([0, 1, 2, 3, 4])
            dd = 2 if r > 2 else d
            a = ints(rng, (Ne, nPg) + tuple(rng.choice([dd, dd + 1]) for _ in range(r)))
            got = FeArray.asfearray(a).T
            want = loop(Ne, nPg, lambda x: x.T, ("fe", a))
            compare(res, ("T", r, a.shape), f".T rank {r}", got, want, True, dict(op="T", shape=list(a.shape), values=a.tolist()))
        else:  # broadcast of coefficients
            tn = rng.choice([0, 0, 1, 2])
            lead = rng.choice(["scalar", "e", "p", "ep", "none"])
            tail = tshape(tn, d)
            if lead == "scalar":
                v = float(rng.randint(-3, 3))
                got = FeArray.broadcast(v, Ne, nPg, tn) if tn == 0 else None
                if got is not None:
                    res.case(("broadcast", "scalar"))
                    if not (isinstance(got, float) and got == v):
                        res.fail("broadcast scalar", f"broadcast({v}) = {got!r}", dict(value=v))
                continue
            if lead == "p" and (tn > 0 or Ne == nPg):
                continue  # per-point 1-D input is only accepted without tensor axes and is ambiguous when Ne == nPg
            shape = dict(e=(Ne,), p=(nPg,), ep=(Ne, nPg), none=())[lead] + tail
            if shape == ():
                continue
            v = ints(rng, shape)
            # skip genuinely ambiguous inputs (documented priority): no tensor_ndim and leading dims colliding
            if tn == 0 and lead in ("e", "none") and v.ndim >= 2 and v.shape[:2] == (Ne, nPg) and lead != "ep":
                continue
            try:
                got = FeArray.broadcast(v, Ne, nPg, tn)
            except Exception as ex:  # noqa: BLE001
                res.fail(f"broadcast lead={lead} tensor_ndim={tn} raises", f"broadcast raised {ex!r} for shape {shape}", dict(shape=list(shape), Ne=Ne, nPg=nPg, tensor_ndim=tn))
                continue
            if lead == "e":
                want = np.broadcast_to(v.reshape((Ne, 1) + tail), (Ne, nPg) + tail)
            elif lead == "p":
                want = np.broadcast_to(v.reshape((1, nPg)), (Ne, nPg))
            elif lead == "ep":
                want = v
            else:
                want = np.broadcast_to(v, (Ne, nPg) + tail)
            if tn == 0 and lead == "e" and tail == () and Ne == nPg:
                pass  # (Ne,) wins by documented priority
            compare(res, ("broadcast", lead, tn, (Ne, nPg, d)), f"broadcast lead={lead} tensor_ndim={tn}", got, want, True,
                    dict(shape=list(shape), Ne=Ne, nPg=nPg, tensor_ndim=tn, values=v.tolist()))

    # ---------------- constant tensors given as Python lists / tuples (not ndarrays), also when sizes coincide ----------------
    for (Ne_, nPg_, d_) in ((5, 3, 3), (3, 4, 3), (3, 3, 3), (1, 1, 2), (4, 2, 2)):
        sfld = ints(rng, (Ne_, nPg_))
        vfld = ints(rng, (Ne_, nPg_, d_))
        cvec = ints(rng, (d_,), nonzero=True)
        cmat = ints(rng, (d_, d_), nonzero=True)
        S_, V_ = FeArray.asfearray(sfld), FeArray.asfearray(vfld)
        forms = [("scalar_field * list(d)", lambda: S_ * cvec.tolist(), lambda x, c: x * c, [("fe", sfld), ("const", cvec)]),
                 ("tuple(d) - scalar_field", lambda: tuple(cvec.tolist()) - S_, lambda c, x: c - x, [("const", cvec), ("fe", sfld)]),
                 ("np.maximum(scalar_field, list(d))", lambda: np.maximum(S_, cvec.tolist()), lambda x, c: np.maximum(x, c), [("fe", sfld), ("const", cvec)]),
                 ("vector_field * list(d x d)", lambda: V_ * cmat.tolist(), lambda x, c: x * c, [("fe", vfld), ("const", cmat)]),
                 ("vector_field + list(d)", lambda: V_ + cvec.tolist(), lambda x, c: x + c, [("fe", vfld), ("const", cvec)])]
        for name, fn, f, fops in forms:
            ident = dict(op=name, Ne=Ne_, nPg=nPg_, d=d_, operands=describe(fops))
            try:
                got = fn()
            except Exception as ex:  # noqa: BLE001
                res.case(("list-constant", name, (Ne_, nPg_, d_)))
                res.fail(f"constant tensor given as a list: {name} raises", f"raised {ex!r} where the per-point tensor operation is defined", ident)
                continue
            compare(res, ("list-constant", name, (Ne_, nPg_, d_)), f"constant tensor given as a list / tuple: {name}", got, loop(Ne_, nPg_, f, *fops), True, ident)

    # ---------------- a per-element field (Ne, 1, ...) with a per-point field (1, nPg, ...) through the non-elementwise protocol paths ----------------
    for (Ne_, nPg_, d_) in ((5, 4, 3), (3, 3, 3), (2, 3, 2), (4, 2, 2)):
        ae = ints(rng, (Ne_, 1, d_, d_))
        bp = ints(rng, (1, nPg_, d_, d_))
        Ae, Bp = FeArray.asfearray(ae), FeArray.asfearray(bp)
        mask = ints(rng, (Ne_, 1, d_, d_)) > 0
        ops = [("fe", ae), ("fe", bp)]
        forms = [("A_e @ B_p", lambda: Ae @ Bp, lambda x, y: x @ y, ops),
                 ("np.matmul(A_e, B_p)", lambda: np.matmul(Ae, Bp), lambda x, y: x @ y, ops),
                 ("np.einsum('...ij,...jk->...ik', A_e, B_p)", lambda: np.einsum("...ij,...jk->...ik", Ae, Bp), lambda x, y: x @ y, ops),
                 ("np.einsum('...ij,...ij->...', A_e, B_p)", lambda: np.einsum("...ij,...ij->...", Ae, Bp), lambda x, y: np.sum(x * y), ops),
                 ("np.where(mask_e, A_e, B_p)", lambda: np.where(FeArray.asfearray(mask), Ae, Bp), lambda m, x, y: np.where(m, x, y), [("fe", mask)] + ops),
                 ("A_e + B_p", lambda: Ae + Bp, lambda x, y: x + y, ops)]
        for name, fn, f, fops in forms:
            ident = dict(op=name, Ne=Ne_, nPg=nPg_, d=d_, operands=describe(fops))
            try:
                got = fn()
            except Exception as ex:  # noqa: BLE001
                res.case(("elem-x-point", name, (Ne_, nPg_, d_)))
                res.fail(f"per-element field with per-point field: {name} raises", f"raised {ex!r}", ident)
                continue
            compare(res, ("elem-x-point", name, (Ne_, nPg_, d_)), f"per-element field (Ne,1) with per-point field (1,nPg): {name}", got, loop(Ne_, nPg_, f, *fops), True, ident)

    # ---------------- matrix products with the constant tensor on the LEFT (operator and function form), also when sizes coincide ----------------
    for (Ne_, nPg_, d_) in ((4, 3, 2), (3, 2, 2), (2, 2, 2), (5, 3, 3), (1, 1, 3), (3, 3, 3), (2, 1, 2)):
        for (r1, r2) in ((1, 1), (2, 1), (1, 2), (2, 2)):
            c = ints(rng, tshape(r1, d_))
            a = ints(rng, (Ne_, nPg_) + tshape(r2, d_))
            A = FeArray.asfearray(a)
            want = loop(Ne_, nPg_, lambda x, y: np.tensordot(x, y, axes=1), ("const", c), ("fe", a))
            for form, fn in (("c @ A", lambda: c @ A), ("np.matmul(c, A)", lambda: np.matmul(c, A))):
                ident = dict(op=form, Ne=Ne_, nPg=nPg_, d=d_, operands=describe([("const", c), ("fe", a)]))
                try:
                    got = fn()
                except Exception as ex:  # noqa: BLE001
                    res.case(("const-left", form, r1, r2, (Ne_, nPg_, d_)))
                    res.fail(f"constant on the left of a matrix product ranks=({r1},{r2}) raises", f"{form}: raised {ex!r} where the per-point tensor operation is defined", ident)
                    continue
                compare(res, ("const-left", form, r1, r2, (Ne_, nPg_, d_)), f"constant on the left of a matrix product: {form} ranks ({r1},{r2})", got, want, True, ident)

    # ---------------- broadcast with a declared tensor rank when the sizes coincide (nPg == n, Ne == nPg == n) ----------------
    for (Ne_, nPg_, d_) in ((7, 3, 3), (3, 3, 3), (4, 6, 6), (6, 6, 6), (1, 3, 3), (3, 1, 3)):
        for tn in (1, 2):
            tail = (d_,) * tn
            for lead in ("none", "e", "ep"):
                shape = dict(e=(Ne_,), ep=(Ne_, nPg_), none=())[lead] + tail
                v = ints(rng, shape)
                try:
                    got = FeArray.broadcast(v, Ne_, nPg_, tn)
                except Exception as ex:  # noqa: BLE001
                    res.fail(f"broadcast lead={lead} tensor_ndim={tn} raises", f"broadcast raised {ex!r} for shape {shape}", dict(shape=list(shape), Ne=Ne_, nPg=nPg_, tensor_ndim=tn))
                    continue
                want = v if lead == "ep" else (np.broadcast_to(v.reshape((Ne_, 1) + tail), (Ne_, nPg_) + tail) if lead == "e" else np.broadcast_to(v, (Ne_, nPg_) + tail))
                compare(res, ("broadcast-collision", lead, tn, (Ne_, nPg_, d_)), f"broadcast lead={lead} tensor_ndim={tn} (sizes coincide)", got, want, True,
                        dict(shape=list(shape), Ne=Ne_, nPg=nPg_, tensor_ndim=tn, values=v.tolist()))

    # ---------------- Det / Inv / products at any magnitude (entries scaled like quantities in mm, micrometres, Pa) ----------------
    closed_forms_at_scales(res, rng)

    # ---------------- Field objects as operands, over histories (second use, arrays handed out modified by the caller) ----------------
    field_operands(res, rng)

    # ---------------- the type of the result of numpy functions that consume or move an FE axis, when Ne == nPg == d ----------------
    # "A result remains a finite-element array exactly when the leading element and integration-point axes are preserved": a reduction
    # along axis 0, or an exchange of axes 0 and 1, does not preserve them, whatever the sizes. Each function is first shown to return
    # a plain array (with the per-point values of a plain numpy call) on sizes without coincidence, then asked again on (n, n, n).
    typing_funcs = [("np.sum(axis=0)", lambda a: np.sum(a, axis=0)), ("np.linalg.norm(axis=0)", lambda a: np.linalg.norm(a, axis=0)),
                    ("np.nansum(axis=0)", lambda a: np.nansum(a, axis=0)), ("np.add.reduce(axis=0)", lambda a: np.add.reduce(a, axis=0)),
                    ("np.max(axis=1)", lambda a: np.max(a, axis=1)), ("np.mean(axis=(0, 1))", lambda a: np.mean(a, axis=(0, 1))),
                    ("np.swapaxes(0, 1)", lambda a: np.swapaxes(a, 0, 1)), ("np.transpose((1, 0, 2))", lambda a: np.transpose(a, (1, 0, 2))),
                    ("np.moveaxis(0, 1)", lambda a: np.moveaxis(a, 0, 1))]
    kept_by_coincidence = []
    for name, fn in typing_funcs:
        for shape in ((5, 4, 3), (3, 3, 3), (2, 2, 2)):
            arr = ints(rng, shape).astype(float)
            ident = dict(op=name, shape=list(shape))
            res.case(("typing", name, shape))
            res.count("typing-of-axis-consuming-functions")
            try:
                got = fn(FeArray.asfearray(arr))
                want = fn(arr)
            except Exception as ex:  # noqa: BLE001
                res.fail(f"axis-consuming function raises: {name}", f"raised {ex!r} on shape {shape}", ident)
                continue
            if np.asarray(got).shape != np.asarray(want).shape or not (np.abs(np.asarray(got, dtype=float) - np.asarray(want, dtype=float)).max() <= 1e-12):
                res.fail(f"axis-consuming function value: {name}", f"differs from the plain numpy call on shape {shape}", ident)
            if isinstance(got, FeArray):
                if shape[0] != shape[1]:
                    res.fail(f"axis-consuming function typed FeArray: {name}", f"result of shape {np.asarray(got).shape} is a FeArray although an FE axis was consumed or moved (shape {shape}, no coincidence)", ident)
                elif name not in kept_by_coincidence:
                    kept_by_coincidence.append(name)
    if kept_by_coincidence:
        res.fail("typed FeArray by shape coincidence: " + ", ".join(sorted(kept_by_coincidence)),
                 "on arrays of shape (n, n, n) these functions return a FeArray although they consume or move an FE axis; on shapes without coincidence they return a plain array",
                 dict(functions=sorted(kept_by_coincidence), shapes=[[3, 3, 3], [2, 2, 2]]))

    # ---------------- correspondence ----------------
    lines, expect = [], []
    for nd in range(2, 7):
        for a in range(-nd, nd):
            lines.append(f"keeps {a} {nd}")
            expect.append(("keeps", (a, nd), str(bool(_KeepsFeAxes(a, nd))).lower()))
    for n1, n2 in itertools.product((1, 2, 4), repeat=2):
        lines.append(f"dot {n1} {n2}")
        expect.append(("dot", (n1, n2), FeArray._dot_subscript(n1, n2)))
    for n1, n2 in itertools.product((2, 4), repeat=2):
        lines.append(f"ddot {n1} {n2}")
        expect.append(("ddot", (n1, n2), FeArray._ddot_subscript(n1, n2)))
    for dim in (1, 2, 3):
        for _ in range(5):
            m = ints(rng, (dim, dim), -6, 6)
            if not (abs(np.linalg.det(m)) >= 0.5):
                continue
            lines.append(f"det {dim} " + " ".join(str(int(v)) for v in m.ravel()))
            expect.append(("det", m.tolist(), float(Det(m))))
            if dim > 1:
                lines.append(f"adj {dim} " + " ".join(str(int(v)) for v in m.ravel()))
                expect.append(("adj", m.tolist(), (np.asarray(Inv(m)) * float(Det(m))).ravel().tolist()))
    answers = driver.ask(lines)
    if answers is None:
        res.disagree("driver", "model driver does not run: " + getattr(driver, "error", "")[:400])
    else:
        for (what, inp, real), ans in zip(expect, answers):
            res.traces += 1
            if what in ("keeps", "dot", "ddot"):
                if ans != real:
                    res.disagree(what, dict(input=inp, model=ans, real=real))
            elif what == "det":
                if not (abs(float(parse_frac(ans)) - real) <= 1e-9 * (1 + abs(real))):
                    res.disagree("det", dict(input=inp, model=ans, real=real))
            else:
                mv = [float(parse_frac(t)) for t in ans.split()]
                if not (np.abs(np.array(mv) - np.array(real)).max() <= 1e-8 * (1 + np.abs(real).max())):
                    res.disagree("adj", dict(input=inp, model=mv, real=real))
    res.sample(dict(shapes=SHAPES, programs=nprog))
    res.search_note = "random expression programs against explicit (e, p) loops found no differing value or type"
    res.write("seeded random programs (ufuncs in both operand orders incl. size-1 fe axes and constant tensors, matmul/dot/ddot for all rank pairs, "
              "15 reducers in method and function form with positive/negative/tuple axes, Det/Inv/Trace/Transpose/TensorProd, .T, broadcast) on shapes with "
              "Ne == nPg == dim collisions; non-trivial = every program (values are random non-zero integers); distinct = distinct (operation, ranks, kinds, axis, shape)")


if __name__ == "__main__":
    from tools.harness._common import run

    run(main)
