"""C07 harness.
(A) correspondence: Gauss(elemType, matrixType|nPg).coord/.weights  vs  the model (exact a+b sqrt d).
(B) the property on the real code: points inside, weight sum, exactness of every rule for all
    monomials of the claimed space; exact lengths/areas/volumes/centroids/polynomial integrals on
    affinely distorted straight-sided meshes; rank adequacy of the selected rules on real
    assembled matrices (mass positive definite, conduction kernel = constants)."""

from __future__ import annotations

import itertools
import math
from fractions import Fraction

import numpy as np

from tools.harness._common import Driver, Result, parse_args, parse_frac, rng_for
from tools.harness import _meshes as M
from tools.py2lean.gen_c07 import SPEC, TOPOLOGY, MATRIX_TYPES

from EasyFEA import Models, Simulations
from EasyFEA.FEM import ElemType, MatrixType, Gauss

MEASURE = dict(segment=2.0, triangle=0.5, quadrangle=4.0, tetrahedron=1 / 6, hexahedron=8.0, prism=1.0)
DIM = dict(segment=1, triangle=2, quadrangle=2, tetrahedron=3, hexahedron=3, prism=3)
REP = dict(segment="SEG2", triangle="TRI3", quadrangle="QUAD4", tetrahedron="TETRA4", hexahedron="HEXA8", prism="PRISM6")


def seg_m(k):
    return 2.0 / (k + 1) if k % 2 == 0 else 0.0


def ref_moment(shape, a):
    f = math.factorial
    if shape == "segment":
        return seg_m(a[0])
    if shape == "quadrangle":
        return seg_m(a[0]) * seg_m(a[1])
    if shape == "hexahedron":
        return seg_m(a[0]) * seg_m(a[1]) * seg_m(a[2])
    if shape == "triangle":
        return f(a[0]) * f(a[1]) / f(a[0] + a[1] + 2)
    if shape == "tetrahedron":
        return f(a[0]) * f(a[1]) * f(a[2]) / f(sum(a) + 3)
    return f(a[0]) * f(a[1]) / f(a[0] + a[1] + 2) * seg_m(a[2])


def mons(shape, k, kz):
    d = DIM[shape]
    if shape in ("segment", "quadrangle", "hexahedron"):
        return list(itertools.product(range(k + 1), repeat=d))
    if shape in ("triangle", "tetrahedron"):
        return [a for a in itertools.product(range(k + 1), repeat=d) if not (sum(a) > k)]
    return [a + (c,) for a in itertools.product(range(k + 1), repeat=2) if not (sum(a) > k) for c in range(kz + 1)]


def inside(shape, x, tol=1e-14):
    if shape in ("segment", "quadrangle", "hexahedron"):
        return bool(np.all(np.abs(x) <= 1 + tol))
    if shape in ("triangle", "tetrahedron"):
        return bool(np.all(x >= -tol) and x.sum() <= 1 + tol)
    return bool(np.all(x[:2] >= -tol) and x[:2].sum() <= 1 + tol and abs(x[2]) <= 1 + tol)


def check_rule(res, tag, key, shape, coord, w, k, kz):
    """The property itself on a real rule (floats, tolerance 1e-13 relative to the measure)."""
    ok = True
    nPg = w.size
    if coord.shape != (nPg, DIM[shape]):
        res.fail(f"{key} shape", f"{tag}: coord shape {coord.shape}", dict(rule=tag))
        return
    for p in range(nPg):
        res.case((tag, "inside", p))
        if not inside(shape, coord[p]):
            ok = False
            res.fail(f"{key} inside", f"{tag}: point {p} = {coord[p].tolist()} lies outside the reference {shape}",
                     dict(rule=tag, point=p, coord=coord[p].tolist()))
    tol = 2e-13 * max(1.0, MEASURE[shape])
    res.case((tag, "wsum"))
    if not (abs(w.sum() - MEASURE[shape]) <= tol):
        ok = False
        res.fail(f"{key} weight-sum", f"{tag}: weights sum to {w.sum()!r}, reference measure {MEASURE[shape]}",
                 dict(rule=tag, sum=float(w.sum())))
    for a in mons(shape, k, kz):
        val = float((w * np.prod(coord ** np.array(a), axis=1)).sum())
        res.case((tag, "moment", a), nontrivial=sum(a) > 0)
        if not (abs(val - ref_moment(shape, a)) <= tol):
            ok = False
            res.fail(f"{key} exactness", f"{tag}: integral of xi^{a} = {val!r}, exact {ref_moment(shape, a)!r} (claimed degree {k},{kz})",
                     dict(rule=tag, monomial=list(a), value=val, exact=ref_moment(shape, a)))
            break
    return ok


SIZE = dict(SEG=(4.0,), TRI=(2.0, 1.0), QUAD=(2.0, 1.0), TETRA=(2.0, 1.0, 1.5), HEXA=(2.0, 1.0, 1.5), PRISM=(2.0, 1.0, 1.5))


def box_integral(size, A, t, f):
    """Integral of f(x, y, z) over the image x = A u + t of the box prod [0, size_i] (12-point tensor Gauss rule on the
    box: exact for the polynomials used here), independent of any mesh."""
    d = len(size)
    xg, wg = np.polynomial.legendre.leggauss(12)
    grids = np.meshgrid(*[(xg + 1) / 2 * s for s in size], indexing="ij")
    wts = np.ones_like(grids[0])
    for ax, s in enumerate(size):
        shp = [1] * d
        shp[ax] = -1
        wts = wts * (wg * s / 2).reshape(shp)
    U = np.zeros((grids[0].size, 3))
    for ax in range(d):
        U[:, ax] = grids[ax].ravel()
    X = U @ np.asarray(A, float).T + np.asarray(t, float)
    vals = np.broadcast_to(np.asarray(f(X[:, 0], X[:, 1], X[:, 2]), float), (X.shape[0],))
    return float((wts.ravel() * vals).sum() * abs(np.linalg.det(np.asarray(A, float)[:d, :d])))


def qs_float(ans):
    a, b, d = ans.split()
    return float(parse_frac(a)) + float(parse_frac(b)) * math.sqrt(int(d))


def main():
    args = parse_args()
    rng = rng_for(args)
    res = Result(args)
    driver = Driver("C07")
    lines, expect = [], []

    # ---------- every rule of every family, through the integer interface ----------
    offered = {}
    for shape, rep in REP.items():
        cands = range(1, 41) if shape != "segment" else range(1, 9)
        for n in cands:
            try:
                g = Gauss(ElemType(rep), n)
            except (NotImplementedError, ValueError, AssertionError):
                continue
            offered[(shape, n)] = g
    for (shape, n), g in offered.items():
        tag = f"{shape}_{n}"
        res.count("rule:" + tag)
        if (shape, n) not in SPEC:
            res.disagree("rule without specification", dict(rule=tag))
            continue
        k, kz, _ = SPEC[(shape, n)]
        coord, w = np.asarray(g.coord, float), np.asarray(g.weights, float)
        check_rule(res, f"Gauss({REP[shape]}, {n})", f"rule={tag}", shape, coord, w, k, kz)
        lines.append(f"R {tag} n")
        expect.append((tag, "n", float(w.size)))
        for p in range(w.size):
            lines.append(f"R {tag} w {p}")
            expect.append((tag, f"w[{p}]", float(w[p])))
            for c in range(coord.shape[1]):
                lines.append(f"R {tag} x {p} {c}")
                expect.append((tag, f"x[{p},{c}]", float(coord[p, c])))
    missing = [f"{s}_{n}" for (s, n) in SPEC if (s, n) not in offered]
    if missing:
        res.disagree("rules no longer offered", missing)

    # ---------- the factory: every (element type, matrix type) ----------
    pairs = []
    for et in M.ALL:
        topo = "".join(c for c in et if not c.isdigit())
        shape = TOPOLOGY[topo]
        for mt in MATRIX_TYPES:
            try:
                g = Gauss(ElemType(et), MatrixType(mt))
            except (ValueError, NotImplementedError, AssertionError):
                continue
            pairs.append((et, mt))
            coord, w = np.asarray(g.coord, float), np.asarray(g.weights, float)
            res.count(f"factory:{et}:{mt}")
            # which tabulated rule is it?  (same shape and same number of points)
            spec = SPEC.get((shape, w.size))
            if spec is None:
                res.fail(f"factory={et}:{mt} unknown-rule", f"Gauss({et},{mt}) has {w.size} points: not a tabulated rule", dict(elem=et, matrixType=mt))
                continue
            check_rule(res, f"Gauss({et}, {mt})", f"factory={et}:{mt}", shape, coord, w, spec[0], spec[1])
            res.case((et, mt, "positive"))
            if np.any(w <= 0):
                res.fail(f"factory={et}:{mt} negative-weight", f"Gauss({et},{mt}) has a non-positive weight {w.min()}", dict(elem=et, matrixType=mt))
            lines.append(f"F {et} {mt} n")
            expect.append((f"{et}:{mt}", "n", float(w.size)))
            for p in range(w.size):
                lines.append(f"F {et} {mt} w {p}")
                expect.append((f"{et}:{mt}", f"w[{p}]", float(w[p])))
                for c in range(coord.shape[1]):
                    lines.append(f"F {et} {mt} x {p} {c}")
                    expect.append((f"{et}:{mt}", f"x[{p},{c}]", float(coord[p, c])))

    answers = driver.ask(lines)
    if answers is None:
        res.disagree("driver", "model driver does not run: " + getattr(driver, "error", "")[:400])
    else:
        for (tag, what, real), ans, line in zip(expect, answers, lines):
            res.traces += 1
            try:
                model = float(ans) if what == "n" else qs_float(ans)
            except (ValueError, IndexError):
                res.disagree("model-answer", dict(rule=tag, what=what, answer=ans))
                continue
            if not (abs(model - real) <= 4e-16 * max(1.0, abs(model)) + 1e-300):
                res.disagree("rule-value", dict(rule=tag, what=what, model=model, real=real))
        for kk in (1, len(lines) // 2, len(lines) - 1):
            res.sample(dict(request=lines[kk], model=answers[kk], real=expect[kk][2]))

    # ---------- exact measures / centroids / polynomial integrals on affine straight-sided meshes ----------
    nmesh = 1 if args.tier == "quick" else 3
    for et in M.ALL:
        d = M.dim_of(et)
        for rep in range(nmesh):
            mesh = M.mesh_of(et)
            # random rational affine distortion acting on the first d coordinates (det != 0)
            while True:
                A = np.eye(3)
                A[:d, :d] = [[rng.randint(-4, 4) / 4 for _ in range(d)] for _ in range(d)]
                if not (abs(np.linalg.det(A)) <= 0.2):
                    break
            t = np.zeros(3)
            t[:d] = [rng.randint(-8, 8) / 4 for _ in range(d)]
            size = dict(SEG=(4.0,), TRI=(2.0, 1.0), QUAD=(2.0, 1.0), TETRA=(2.0, 1.0, 1.5), HEXA=(2.0, 1.0, 1.5), PRISM=(2.0, 1.0, 1.5))[
                "".join(c for c in et if not c.isdigit())]
            M.affine(mesh, A, t)
            detA = abs(np.linalg.det(A[:d, :d]))
            vol0 = float(np.prod(size))
            meas = [mesh.length, mesh.area, mesh.volume][d - 1] if d > 1 else mesh.groupElem.length
            res.case((et, "measure", rep))
            if not (abs(meas - vol0 * detA) <= 1e-11 * vol0 * detA):
                res.fail(f"mesh={et} measure", f"{et}: measure {meas!r} of the affine image of a box of measure {vol0} (|det A| = {detA}), exact {vol0 * detA!r}",
                         dict(elem=et, A=A.tolist(), t=t.tolist(), measure=float(meas), exact=vol0 * detA))
            c0 = np.zeros(3)
            c0[:d] = np.array(size) / 2
            cexp = A @ c0 + t
            res.case((et, "center", rep))
            if not (np.abs(np.asarray(mesh.center) - cexp).max() <= 1e-10 * (1 + np.abs(cexp).max())):
                res.fail(f"mesh={et} center", f"{et}: center {np.asarray(mesh.center).tolist()} exact {cexp.tolist()}",
                         dict(elem=et, A=A.tolist(), t=t.tolist()))
            # polynomial of degree <= order in physical coordinates, exact value by a 12-point tensor Gauss rule on the box
            order = mesh.groupElem.order if d > 1 else mesh.groupElem.order
            deg = min(order, 2)
            expo = [rng.randint(0, deg) for _ in range(d)]
            while sum(expo) > deg:
                expo[rng.randrange(d)] = 0
            f = lambda x, y, z, e=tuple(expo): (x ** e[0]) * (y ** e[1] if d > 1 else 1) * (z ** e[2] if d > 2 else 1)  # noqa: E731
            xg, wg = np.polynomial.legendre.leggauss(12)
            grids = np.meshgrid(*[(xg + 1) / 2 * s for s in size], indexing="ij")
            wts = np.ones_like(grids[0])
            for ax, s in enumerate(size):
                shp = [1] * d
                shp[ax] = -1
                wts = wts * (wg * s / 2).reshape(shp)
            U = np.zeros((grids[0].size, 3))
            for ax in range(d):
                U[:, ax] = grids[ax].ravel()
            X = U @ A.T + t
            exact = float((wts.ravel() * f(X[:, 0], X[:, 1], X[:, 2])).sum() * detA)
            got = float(sum(g.Integrate_e(f).sum() for g in M.main_groups(mesh)))
            res.case((et, "integral", tuple(expo), rep), nontrivial=sum(expo) > 0)
            if not (abs(got - exact) <= 1e-10 * (1 + abs(exact))):
                res.fail(f"mesh={et} integral", f"{et}: Integrate_e(x^{expo}) = {got!r}, exact {exact!r}",
                         dict(elem=et, A=A.tolist(), t=t.tolist(), exponents=expo, value=got, exact=exact))

    # ---------- every rule offered, through the element groups: Integrate_e(f, nPg) / Get_weightedJacobian_e_pg(nPg) on a box ----------
    # (the rules with a negative weight - tetrahedron 5, prism 8 - are reachable this way only; the weighted Jacobians carry the sign of the weight)
    box = dict(segment=(4.0,), triangle=(2.0, 1.0), quadrangle=(2.0, 1.0), tetrahedron=(2.0, 1.0, 1.5), hexahedron=(2.0, 1.0, 1.5), prism=(2.0, 1.0, 1.5))
    for (shape, n), gobj in offered.items():
        if (shape, n) not in SPEC:
            continue
        k, kz, _ = SPEC[(shape, n)]
        size = box[shape]
        d = len(size)
        for et in ([REP[shape]] if args.tier == "quick" else [e for e in M.ALL if e.startswith(REP[shape].rstrip("0123456789"))][:2]):
            meshb = M.mesh_of(et)
            identB = dict(elem=et, rule=f"{shape}_{n}", box=list(size))
            res.case((et, "group-api", n))
            try:
                groups = M.main_groups(meshb)
                wJsum = float(sum(np.asarray(g.Get_weightedJacobian_e_pg(n)).sum() for g in groups))
                vol = float(np.prod(size))
                got1 = float(sum(g.Integrate_e(lambda x, y, z: 1.0 + 0 * x, n).sum() for g in groups))
                bad = []
                if not (abs(wJsum - vol) <= 1e-10 * vol):
                    bad.append(f"sum of weight x jacobian = {wJsum!r}")
                if not (abs(got1 - vol) <= 1e-10 * vol):
                    bad.append(f"Integrate_e(1, {n}) = {got1!r}")
                if min(k, kz if kz is not None else k) >= 1:
                    for ax in range(d):
                        gotx = float(sum(g.Integrate_e(lambda x, y, z, ax=ax: (x, y, z)[ax], n).sum() for g in groups))
                        if not (abs(gotx - vol * size[ax] / 2) <= 1e-10 * vol * size[ax]):
                            bad.append(f"Integrate_e({'xyz'[ax]}, {n}) = {gotx!r} (exact {vol * size[ax] / 2!r})")
                if bad:
                    res.fail(f"elem={et} rule={shape}_{n} through the element group", f"{et} mesh of a box of measure {vol}: " + "; ".join(bad[:3]), identB)
            except Exception as ex:  # noqa: BLE001
                res.fail(f"elem={et} rule={shape}_{n} through the element group raises", f"{type(ex).__name__}: {str(ex)[:150]}", identB)

    # ---------- the same exactness whatever was asked of the mesh before, and whatever its orientation ----------
    # A straight-sided mesh mapped by an affine map of positive or negative determinant (mirror images, meshes read
    # with the other node ordering).  Before integrating, a caller interpolates a nodal field at points of the domain
    # (public Mesh.Evaluate_dofsValues_at_coordinates; the affine field a.x + b is reproduced exactly by every element
    # type) or, the other way round, integrates, interpolates, and integrates again.  Measures, centroids and integrals
    # of 1, x, y, z, xy are compared with closed forms on the image of the box, never with an earlier answer.
    hist_types = list(M.ALL)
    polys = dict(one=lambda x, y, z: 1, x=lambda x, y, z: x, y=lambda x, y, z: y, z=lambda x, y, z: z, xy=lambda x, y, z: x * y)
    for et in hist_types:
        d = M.dim_of(et)
        size = SIZE["".join(c for c in et if not c.isdigit())]
        while True:
            A0 = np.eye(3)
            A0[:d, :d] = [[rng.randint(-4, 4) / 4 for _ in range(d)] for _ in range(d)]
            if not (abs(np.linalg.det(A0)) <= 0.2):
                break
        t = np.zeros(3)
        t[:d] = [rng.randint(-8, 8) / 4 for _ in range(d)]
        coef = np.zeros(3)
        coef[:d] = [rng.randint(-6, 6) / 2 for _ in range(d)]
        b0 = rng.randint(-4, 4) / 2
        upts = np.zeros((5, 3))
        # generic interior points, and every element offered as a candidate (`elements` argument): which elements the
        # library would search by itself on a sheared mesh is not this property's business
        upts[:, :d] = [[rng.uniform(0.05, 0.95) * s for s in size] for _ in range(5)]
        for orient in (1, -1):
            A = A0.copy()
            if np.sign(np.linalg.det(A0)) != orient:
                A[:, 0] = -A[:, 0]  # mirror image
            names = [n for n in polys if not (n == "z" and d < 3) and not (n in ("y", "xy") and d < 2)]
            exact = {n: box_integral(size, A, t, polys[n]) for n in names}
            pts = upts @ A.T + t
            for order in ("interpolate-then-integrate", "integrate-interpolate-integrate"):
                ident = dict(elem=et, A=A.tolist(), t=t.tolist(), orientation=orient, history=order, points=pts.tolist(),
                             field=dict(a=coef.tolist(), b=b0))
                res.case((et, "history", orient, order))
                try:
                    mesh = M.affine(M.mesh_of(et), A, t)
                    groups = M.main_groups(mesh)
                    first = None
                    if order != "interpolate-then-integrate":
                        first = {n: float(sum(g.Integrate_e(polys[n]).sum() for g in groups)) for n in names}
                    field = np.asarray(mesh.coord, float) @ coef + b0
                    vals = np.asarray(mesh.Evaluate_dofsValues_at_coordinates(pts, field, np.arange(mesh.Ne)), float).ravel()
                    got = {n: float(sum(g.Integrate_e(polys[n]).sum() for g in groups)) for n in names}
                    meas = float([mesh.length, mesh.area, mesh.volume][d - 1] if d > 1 else sum(g.length for g in groups))
                    cen = np.asarray(mesh.center, float)
                except Exception as e:  # noqa: BLE001
                    res.fail(f"mesh={et} history raises", f"{et} ({order}, det A {'>' if orient > 0 else '<'} 0): {type(e).__name__}: {e}", ident)
                    continue
                vexp = pts @ coef + b0
                # (1e-6: the inverse isoparametric map is iterative for some types and stops near 1e-8; the accuracy of point
                #  evaluation is not this property's subject, the step only has to be a real, successful query)
                if vals.shape != vexp.shape or not (np.abs(vals - vexp).max() <= 1e-6 * (1 + np.abs(vexp).max())):
                    res.fail(f"mesh={et} history interpolation",
                             f"{et}: the nodal field a.x + b interpolated at {len(pts)} points of the domain gives {vals.tolist()}, exact {vexp.tolist()}", ident)
                for label, dct in (("before", first), ("after", got)):
                    if dct is None:
                        continue
                    badn = [n for n in names if not (abs(dct[n] - exact[n]) <= 1e-10 * (1 + abs(exact[n])))]
                    if badn:
                        res.fail(f"mesh={et} history integral",
                                 f"{et} (det A {'>' if orient > 0 else '<'} 0), integrals {label} a field was interpolated at points of the mesh: "
                                 + ", ".join(f"int {n} = {dct[n]!r} (exact {exact[n]!r})" for n in badn),
                                 dict(ident, when=label, values=dct, exact=exact))
                        break
                if not (abs(meas - exact["one"]) <= 1e-11 * exact["one"]):
                    res.fail(f"mesh={et} history measure", f"{et} (det A {'>' if orient > 0 else '<'} 0, {order}): measure {meas!r}, exact {exact['one']!r}",
                             dict(ident, measure=meas, exact=exact["one"]))
                cexp = np.array([exact.get(n, 0.0) for n in ("x", "y", "z")]) / exact["one"]
                if not (np.abs(cen - cexp).max() <= 1e-10 * (1 + np.abs(cexp).max())):
                    res.fail(f"mesh={et} history center", f"{et} (det A {'>' if orient > 0 else '<'} 0, {order}): center {cen.tolist()}, exact {cexp.tolist()}",
                             dict(ident, center=cen.tolist(), exact=cexp.tolist()))

    # ---------- the rules offered do not depend on what callers did with the arrays handed out before ----------
    # A caller folds a thickness into "its" weights and centres "its" points, in place (read-only arrays
    # that refuse the write are fine); a Gauss object built afterwards must still be the documented rule.
    thick = rng.randint(1, 9) / 10
    shift = rng.randint(1, 3) / 3

    def caller_writes(g):
        for arr, op in ((g.weights, "w"), (g.coord, "x")):
            try:
                if op == "w":
                    arr *= thick
                else:
                    arr -= shift
            except ValueError:  # read-only: the table is protected
                pass

    def same_rule_again(tag, key, make, snap_x, snap_w, ident):
        res.case((tag, "after-caller-write"))
        try:
            caller_writes(make())
            g2 = make()
            x2, w2 = np.asarray(g2.coord, float), np.asarray(g2.weights, float)
        except Exception as e:  # noqa: BLE001
            res.fail(f"{key} after-caller-write raises", f"{tag}: {type(e).__name__}: {e}", ident)
            return
        if x2.shape != snap_x.shape or w2.shape != snap_w.shape or not (np.array_equal(x2, snap_x) and np.array_equal(w2, snap_w)):
            res.fail(f"{key} after-caller-write changed",
                     f"{tag}: after a caller multiplied in place the weights of an earlier object by {thick} and subtracted {shift} from its points, "
                     f"a new object has weights summing to {float(w2.sum())!r} (before: {float(snap_w.sum())!r}), first point {x2[0].tolist()} (before: {snap_x[0].tolist()})",
                     dict(ident, thickness=thick, shift=shift))

    for (shape, n), g in offered.items():
        if (shape, n) not in SPEC:
            continue
        # `g` was checked above (check_rule) before anybody wrote anything: it is the reference
        same_rule_again(f"Gauss({REP[shape]}, {n})", f"rule={shape}_{n}", lambda r=REP[shape], n=n: Gauss(ElemType(r), n),
                        np.array(g.coord, float), np.array(g.weights, float), dict(rule=f"{shape}_{n}"))
    for et, mt in pairs:
        g = Gauss(ElemType(et), MatrixType(mt))
        same_rule_again(f"Gauss({et}, {mt})", f"factory={et}:{mt}", lambda et=et, mt=mt: Gauss(ElemType(et), MatrixType(mt)),
                        np.array(g.coord, float), np.array(g.weights, float), dict(elem=et, matrixType=mt))
    # the same through the element groups of a mesh: the caller post-processes what Get_weight_pg / Get_gauss return
    for et in REP.values():
        d = M.dim_of(et)
        mesh = M.mesh_of(et)
        res.case((et, "mesh-after-caller-write"))
        try:
            for grp in M.main_groups(mesh):
                for mt in [m for (e, m) in pairs if e == et]:
                    w = grp.Get_weight_pg(MatrixType(mt))
                    try:
                        w *= thick
                    except ValueError:
                        pass
                    x = grp.Get_gauss(MatrixType(mt)).coord
                    try:
                        x -= shift
                    except ValueError:
                        pass
            mesh2 = M.mesh_of(et)
            size = dict(SEG=(4.0,), TRI=(2.0, 1.0), QUAD=(2.0, 1.0), TETRA=(2.0, 1.0, 1.5), HEXA=(2.0, 1.0, 1.5), PRISM=(2.0, 1.0, 1.5))[
                "".join(c for c in et if not c.isdigit())]
            vol0 = float(np.prod(size))
            meas = float(sum([g.length, g.area, g.volume][d - 1] for g in M.main_groups(mesh2)))
            ix = float(sum(g.Integrate_e(lambda x, y, z: x).sum() for g in M.main_groups(mesh2)))
            cen = np.asarray(mesh2.center, float)
        except Exception as e:  # noqa: BLE001
            res.fail(f"mesh={et} after-caller-write raises", f"{et}: {type(e).__name__}: {e}", dict(elem=et, thickness=thick, shift=shift))
            continue
        cexp = np.zeros(3)
        cexp[:d] = np.array(size) / 2
        if not (abs(meas - vol0) <= 1e-11 * vol0) or not (abs(ix - vol0 * size[0] / 2) <= 1e-11 * vol0 * size[0]) \
                or not (np.abs(cen - cexp).max() <= 1e-10):
            res.fail(f"mesh={et} after-caller-write",
                     f"{et}: a caller scaled in place by {thick} the arrays returned by Get_weight_pg and shifted by {shift} those of Get_gauss(...).coord on one mesh; "
                     f"a second box mesh {size} then has measure {meas!r} (exact {vol0}), integral of x {ix!r} (exact {vol0 * size[0] / 2}), center {cen.tolist()} (exact {cexp.tolist()})",
                     dict(elem=et, thickness=thick, shift=shift, measure=meas, int_x=ix, center=cen.tolist()))

    # ---------- units: measures, centroids and first moments of a non-symmetric polygon / extruded polygon scale exactly ----------
    # L shape (three unit squares, area 3, centroid (5/6, 5/6)): the mean of the nodes is not the centroid.
    # The same mesh expressed in other length units (mesh.coord = coord0 * s, e.g. mm or micrometres in metres).
    poly = [(0, 0), (2, 0), (2, 1), (1, 1), (1, 2), (0, 2)]
    px, py = np.array(poly, float).T
    cr = px * np.roll(py, -1) - np.roll(px, -1) * py
    area0 = cr.sum() / 2
    cx0 = ((px + np.roll(px, -1)) * cr).sum() / (6 * area0)
    cy0 = ((py + np.roll(py, -1)) * cr).sum() / (6 * area0)
    hz = 0.7
    scales = [1e3, 1e-3, 1e-6, 1e-9, rng.choice([1, 2, 5]) * 10.0 ** rng.randint(-8, 2)]
    unit_types = ["TRI3", "TRI6", "QUAD4", "QUAD8", "TETRA4", "PRISM6"] if args.tier == "quick" else [e for e in M.ALL if M.dim_of(e) > 1]
    from EasyFEA import Mesher
    from EasyFEA.Geoms import Points as _Points
    for et in unit_types:
        d = M.dim_of(et)
        ident0 = dict(elem=et, polygon=poly, h=0.5, extrude=hz if d == 3 else None)
        try:
            if d == 2:
                mesh = M.mesh_2d(et, polygon=poly, h=0.5)
            else:
                mesh = Mesher().Mesh_Extrude(_Points(poly, 0.5), [], [0, 0, hz], [] if et in M.TETRA else [2], ElemType(et))
            coord0 = np.array(mesh.coord, float)
        except Exception as e:  # noqa: BLE001
            res.fail(f"mesh={et} units raises", f"{et}: meshing the L shape: {type(e).__name__}: {e}", ident0)
            continue
        m0 = area0 * (hz if d == 3 else 1.0)
        c0 = np.array([cx0, cy0, hz / 2 if d == 3 else 0.0])
        for s in scales:
            res.case((et, "units", s))
            ident = dict(ident0, scale=s)
            try:
                mesh.coord = coord0 * s
                groups = M.main_groups(mesh)
                meas = float(sum([g.length, g.area, g.volume][d - 1] for g in groups))
                mom = [float(sum(g.Integrate_e(f).sum() for g in groups))
                       for f in (lambda x, y, z: x, lambda x, y, z: y, lambda x, y, z: z)]
                cen = np.asarray(mesh.center, float)
                cen_g = [np.asarray(g.center, float) for g in groups]
            except Exception as e:  # noqa: BLE001
                res.fail(f"mesh={et} units raises", f"{et} scaled by {s}: {type(e).__name__}: {e}", ident)
                continue
            if not (abs(meas - m0 * s**d) <= 1e-10 * m0 * s**d):
                res.fail(f"mesh={et} units measure", f"{et}: L shape scaled by {s}: measure {meas!r}, exact {m0 * s**d!r}", dict(ident, measure=meas))
            if not (np.abs(np.array(mom) - m0 * c0 * s ** (d + 1)).max() <= 1e-10 * m0 * s ** (d + 1)):
                res.fail(f"mesh={et} units first-moment", f"{et}: L shape scaled by {s}: integrals of x, y, z {mom}, exact {(m0 * c0 * s ** (d + 1)).tolist()}",
                         dict(ident, moments=mom))
            if not (np.abs(cen - c0 * s).max() <= 1e-10 * s):
                res.fail(f"mesh={et} units center", f"{et}: L shape scaled by {s}: mesh.center {cen.tolist()}, exact {(c0 * s).tolist()}", dict(ident, center=cen.tolist()))
            elif len(groups) == 1 and not (np.abs(cen_g[0] - c0 * s).max() <= 1e-10 * s):
                res.fail(f"mesh={et} units group-center", f"{et}: L shape scaled by {s}: groupElem.center {cen_g[0].tolist()}, exact {(c0 * s).tolist()}",
                         dict(ident, center=cen_g[0].tolist()))

    # ---------- hand-built groups whose coordinate table is integer-typed (a natural way to write small meshes by hand) ----------
    # measures, centres and first moments must not depend on the dtype of the coordinate table: embedded elements (a segment in the
    # plane or in space, a triangle / quadrangle in space) are rebased in their own frame, which has irrational entries
    from EasyFEA.FEM._group_elem import GroupElemFactory as _GEF
    int_cases = [
        ("SEG2", [[0, 1], [1, 2]], [[0, 0, 0], [3, 4, 0], [6, 0, 0]]),
        ("SEG2", [[0, 1], [1, 2]], [[0, 0, 0], [1, 2, 2], [3, 4, 3]]),
        ("SEG3", [[0, 2, 1]], [[0, 0, 0], [1, 1, 0], [2, 2, 0]]),
        ("TRI3", [[0, 1, 2], [1, 3, 2]], [[0, 0, 0], [2, 0, 1], [0, 2, 2], [2, 2, 3]]),
        ("QUAD4", [[0, 1, 3, 2]], [[0, 0, 0], [2, 0, 1], [0, 2, 2], [2, 2, 3]]),
        ("TRI3", [[0, 1, 2]], [[0, 0, 0], [3, 0, 0], [0, 4, 0]]),
        ("TETRA4", [[0, 1, 2, 3]], [[0, 0, 0], [3, 0, 0], [0, 4, 0], [1, 1, 5]]),
    ]
    for et, conn, tab in int_cases:
        out = {}
        identI = dict(elem=et, connect=conn, coordinates=tab, scenario="integer-typed coordinate table")
        res.case((et, "int-coordinates", str(tab)))
        try:
            for dt in (float, int):
                g = _GEF.Create(ElemType(et), np.array(conn), np.array(tab, dtype=dt))
                d = g.dim
                out[dt] = (np.asarray([g.length_e, g.area_e, g.volume_e][d - 1], float).copy(), np.asarray(g.center, float).copy(),
                           float(g.Integrate_e(lambda x, y, z: x + 2 * y - z).sum()))
        except Exception as e:  # noqa: BLE001
            res.fail(f"elem={et} integer coordinates raise", f"{type(e).__name__}: {e}"[:200], identI)
            continue
        dev = max(np.abs(out[int][0] - out[float][0]).max(), np.abs(out[int][1] - out[float][1]).max(), abs(out[int][2] - out[float][2]))
        if not (dev <= 1e-12):
            res.fail(f"elem={et} measures depend on the dtype of the coordinates", f"{et} built from the integer table {tab}: element measures {out[int][0].tolist()} / centre {out[int][1].tolist()} / "
                     f"integral of x + 2y - z {out[int][2]!r}; the same table as floats gives {out[float][0].tolist()} / {out[float][1].tolist()} / {out[float][2]!r}", identI)

    # ---------- rank adequacy on real assembled matrices ----------
    for et in M.ALL:
        d = M.dim_of(et)
        mesh = M.mesh_of(et)
        used = M.used_nodes(mesh)
        simu = Simulations.Thermal(mesh, Models.Thermal(1.0, 1.0))
        K, C, _, _ = simu.Get_K_C_M_F()
        K = K.toarray()[np.ix_(used, used)]
        C = C.toarray()[np.ix_(used, used)]
        wK = np.linalg.eigvalsh((K + K.T) / 2)
        wC = np.linalg.eigvalsh((C + C.T) / 2)
        nullK = int((np.abs(wK) < 1e-9 * wK.max()).sum())
        res.case((et, "conduction-kernel"))
        if nullK != 1 or not (wK.min() >= -1e-9 * wK.max()):
            res.fail(f"elem={et} matrix=rigi conduction-kernel={nullK}",
                     f"{et}: assembled conduction matrix on a {mesh.Ne}-element mesh has {nullK} zero-energy modes (1 expected), min eig {wK.min():.3e}",
                     dict(elem=et, Ne=int(mesh.Ne), kernel=nullK))
        res.case((et, "mass-spd"))
        if not (wC.min() >= 1e-9 * wC.max()):
            res.fail(f"elem={et} matrix=mass singular",
                     f"{et}: assembled capacity (mass) matrix on a {mesh.Ne}-element mesh is singular: min/max eigenvalue {wC.min() / wC.max():.3e}",
                     dict(elem=et, Ne=int(mesh.Ne), ratio=float(wC.min() / wC.max())))
    res.search_note = "all rules, all factory pairs, measures and rank adequacy evaluated on the real code"
    res.write("every rule (all accepted point counts, integer interface) and every factory pair: inside / weight sum / all monomials of the "
              "claimed degree; affine images of box meshes of all 19 types (seeded rational A, t); thermal K and C spectra per type. "
              "distinct = distinct (rule or type, check, monomial); non-trivial = non-constant monomial or a spectral/measure check")


if __name__ == "__main__":
    from tools.harness._common import run

    run(main)
