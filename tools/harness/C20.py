"""C20 harness.
(a) correspondence: for every element group of a partitioned mesh, the real owned nodes and ghost elements per rank vs
    the bookkeeping model evaluated on the real element -> rank map;
(b) the property on the real code (Mesher._Mesh_Get_Meshes, single process): every element / node has exactly one owner,
    a part = own elements + every element touching an owned node, global numbering and coordinates kept, reproducible;
    K, M and F assembled on a part alone = the global ones on the owned rows; owned-row energies and reactions summed over
    the parts = the global ones; Mesh.Merge with return_mapping is the inverse bookkeeping;
    the same on meshes of some thousand elements split in 48-64 parts, and, at the level of the parts (owned nodes of a part = union over
    the element types of the main dimension), on meshes holding two element types of the main dimension."""

from __future__ import annotations

import warnings

import numpy as np

from tools.harness._common import Driver, Result, parse_args, rng_for
from tools.harness import _meshes as M

from EasyFEA import Mesher, ElemType, Models, Simulations, Mesh
from EasyFEA.Geoms import Domain, Point


class PartMesher(Mesher):
    """the repo's Mesher, returning all the parts of a split of any size in a single process"""

    def __init__(self, Nproc):
        super().__init__()
        self._nproc = Nproc

    def _Mesh_Get_Mesh(self, coef=1.0):
        return self._Mesh_Get_Meshes(self._nproc, coef)


def build(et, N, size):
    dim = M.dim_of(et)
    dom = Domain(Point(0, 0), Point(4, 2), size)
    if dim == 2:
        return PartMesher(N).Mesh_2D(dom, [], ElemType(et), isOrganised=et in M.QUAD)
    if et in M.TETRA:
        return PartMesher(N).Mesh_Extrude(dom, [], [0, 0, 1.5], [], ElemType(et))
    return PartMesher(N).Mesh_Extrude(dom, [], [0, 0, 1.5], [2], ElemType(et), isOrganised=et in M.HEXA)


def dense_rows(Asp, rows):
    return np.asarray(Asp.tocsr()[rows].todense())


def mesh_big_tri(N, h):
    return PartMesher(N).Mesh_2D(Domain(Point(0, 0), Point(10, 10), h), [], ElemType.TRI3)


def mesh_big_quad(N, h):
    return PartMesher(N).Mesh_2D(Domain(Point(0, 0), Point(10, 10), h), [], ElemType.QUAD4, isOrganised=True)


def mesh_big_tetra(N, h):
    return PartMesher(N).Mesh_Extrude(Domain(Point(0, 0), Point(4, 4), h), [], [0, 0, 4], [], ElemType.TETRA4)


def mesh_tri_glued_to_recombined(N, h=2.5):
    """a TRI3 square [0,10]^2 glued to a recombined square [10,20]x[0,10] (QUAD4 + the TRI3 the recombination leaves): one conforming mesh with two element types of the main dimension"""
    import gmsh
    m = Mesher()
    m._Init_gmsh("occ")
    m._Surfaces(Domain(Point(), Point(10, 10), h), [])
    r2 = m._factory.addRectangle(10, 0, 0, 10, 10)
    m._factory.fragment([(2, 1)], [(2, r2)])
    m._factory.synchronize()
    gmsh.model.mesh.setRecombine(2, gmsh.model.getEntities(2)[-1][1])
    gmsh.option.setNumber("Mesh.MeshSizeMax", h)
    m._Set_PhysicalGroups()
    m._Mesh_Generate(2, ElemType.TRI3)
    return m._Mesh_Get_Meshes(N)


def mesh_revolve_on_axis(N, layers=8):
    """a square touching the axis turned by 360 degrees: the collapsed hexahedra on the axis are dropped, PRISM6 + HEXA8"""
    return PartMesher(N).Mesh_Revolve(Domain(Point(0, 0), Point(2, 2), 1.0), [], (0, 0, 0), (0, 1, 0), 360, [layers], ElemType.HEXA8)


def group_level(res, glob, parts, ident, label):
    """every element group, with dense ownership maps (no set search): one owner per element, the rows of a part are the global
    connectivity of its owned + ghost elements, ghosts of a rank = the elements of the other ranks touching a node the rank owns for the group"""
    for gtype, gg in glob.dict_groupElem.items():
        conn = np.asarray(gg.connect)
        if len(conn) == 0:
            continue
        data = []
        for p in parts:
            gp = p.dict_groupElem.get(gtype)
            if gp is None:
                res.fail(f"group missing in a part group={gtype}", "a part does not hold the element group", ident)
                return
            data.append((gp, gp._Get_partitioned_data()))
        n_own = np.zeros(len(conn), int)
        owner_e = -np.ones(len(conn), int)
        for k, (gp, (r, els, gh, nodes, _)) in enumerate(data):
            np.add.at(n_own, np.asarray(els, int), 1)
            owner_e[np.asarray(els, int)] = k
        if (n_own > 1).any():
            res.fail(f"element owned twice group={gtype}", f"{label}: elements {np.where(n_own > 1)[0][:5].tolist()} have two owners", ident)
            continue
        if (n_own < 1).any():
            res.fail(f"element without owner group={gtype}", f"{label}: elements {np.where(n_own < 1)[0][:6].tolist()} belong to no part", ident)
            continue
        for k, (gp, (r, els, gh, nodes, _)) in enumerate(data):
            res.case((label, str(gtype), len(parts), k, "ghosts"))
            mine = np.zeros(glob.Nn, bool)
            mine[np.asarray(nodes, int)] = True
            want = np.where(mine[conn].any(axis=1) & (owner_e != k))[0]
            got = np.sort(np.asarray(gh, int))
            if not np.array_equal(want, got):
                miss, extra = np.setdiff1d(want, got), np.setdiff1d(got, want)
                res.fail(f"ghost layer group={gtype}", f"{label}, rank {r} (owns {len(els)} elements, {len(nodes)} nodes): {len(miss)} elements of other ranks touch an owned node but are not ghosts {miss[:6].tolist()}; "
                                                      f"{len(extra)} ghosts touch no owned node {extra[:6].tolist()}", ident)
                break
            held = np.union1d(np.asarray(els, int), got)
            if gp.Ne != len(held) or (gp.Ne and not np.array_equal(np.asarray(gp.connect), conn[held])):
                res.fail(f"part connectivity group={gtype}", f"{label}, rank {r}: the rows of the part are not the global connectivity of its owned and ghost elements", ident)
                break


def part_level(res, glob, parts, ident, label, law=None, ranks=(), ghosts=True):
    """the split seen from the PARTS, all the element types of the main dimension together (owned nodes of a part = part._Get_mpi_owned_nodes()):
    every node used by an element of the main dimension has exactly one owner part; a part holds every element of the main dimension touching
    a node it owns; the owned rows of K assembled on the part alone are the global rows.  Keys end with `label`."""
    dim = glob.dim
    main = [g for g in glob.Get_list_groupElem(dim) if g.Ne]
    used = np.unique(np.concatenate([np.asarray(g.connect).ravel() for g in main]))
    try:
        owned = [np.asarray(p._Get_mpi_owned_nodes(), int) for p in parts]
    except Exception as ex:  # noqa: BLE001
        res.fail(f"owned nodes raise {label}", f"_Get_mpi_owned_nodes raises {type(ex).__name__}: {str(ex)[:150]}", ident)
        return
    cnt = np.zeros(glob.Nn, int)
    for o in owned:
        np.add.at(cnt, o, 1)
    res.case((label, len(parts), "node owners"))
    if (cnt[used] > 1).any():
        res.fail(f"node owned by two parts {label}", f"nodes {used[cnt[used] > 1][:6].tolist()} are owned by several parts", ident)
    if (cnt[used] < 1).any():
        res.fail(f"node without owner {label}", f"nodes {used[cnt[used] < 1][:6].tolist()}, used by elements of dimension {dim}, are owned by no part (their rows belong to nobody)", ident)
    if not ghosts:
        return
    incomplete = set()
    for k, (p, o) in enumerate(zip(parts, owned)):
        res.case((label, len(parts), k, "part ghosts"))
        mine = np.zeros(glob.Nn, bool)
        mine[o] = True
        for g in main:
            conn = np.asarray(g.connect)
            gp = p.dict_groupElem.get(g.elemType)
            if gp is None:
                held = np.array([], int)
            else:
                _, els, gh, _, _ = gp._Get_partitioned_data()
                held = np.union1d(np.asarray(els, int), np.asarray(gh, int))
            need = np.where(mine[conn].any(axis=1))[0]
            miss = np.setdiff1d(need, held)
            if len(miss):
                incomplete.add(k)
                res.fail(f"ghost layer {label}", f"part {k} of {len(parts)}: {g.elemType} elements {miss[:6].tolist()} touch a node the part owns and are not held by the part", ident)
    if law is None:
        return
    try:
        Kg = Simulations.Elastic(glob, law).Get_K_C_M_F()[0]
    except Exception as ex:  # noqa: BLE001
        res.fail(f"assembly raises {label}", f"global mesh: {type(ex).__name__}: {str(ex)[:150]}", ident)
        return
    scale = np.abs(Kg).max()
    for k in ranks:
        o = owned[k]
        if len(o) == 0:
            continue
        res.case((label, len(parts), k, "part rows"))
        dofs = (o[:, None] * dim + np.arange(dim)).ravel()
        try:
            Kp = Simulations.Elastic(parts[k], law).Get_K_C_M_F()[0]
        except Exception as ex:  # noqa: BLE001
            res.fail(f"assembly raises {label}", f"part {k} of {len(parts)}: {type(ex).__name__}: {str(ex)[:150]}", ident)
            continue
        err = np.abs(dense_rows(Kp, dofs) - dense_rows(Kg, dofs)).max()
        if not (err <= 1e-9 * scale):
            key = f"ghost layer {label}" if k in incomplete else f"K rows differ on owned dofs {label}"
            res.fail(key, f"part {k} of {len(parts)}: K assembled on the part differs from the global K on its owned rows by {err:.3g} (max |K| = {scale:.3g})", ident)


def main():
    args = parse_args()
    rng = rng_for(args)
    res = Result(args)
    driver = Driver("C20")
    warnings.filterwarnings("ignore")
    thorough = args.tier == "thorough"
    lines, expect = [], []
    types = (M.ALL_2D + M.ALL_3D) if thorough else ["TRI3", "TRI6", "QUAD4", "QUAD8", "TETRA4", "HEXA8", "PRISM6"]
    for et in types:
        dim = M.dim_of(et)
        heavy = et in ("HEXA27", "HEXA20", "PRISM18", "PRISM15", "TETRA10", "TRI15")
        size = 1.0 if dim == 3 or heavy else 0.7
        (glob,) = build(et, 1, size)
        Ne = glob.Ne
        counts = sorted(set([2, 3, rng.randint(4, 7), min(Ne, max(8, Ne // 3))] + ([min(Ne, rng.randint(8, 16)), min(Ne, max(9, Ne // 2))] if thorough else [])))   # few elements per part: thin ghost layers
        law = Models.Elastic.Isotropic(dim, E=10.0, v=0.25, planeStress=True, thickness=0.5 if dim == 2 else 1.0)
        gsim = Simulations.Elastic(glob, law)
        gsim.rho = 2.0
        unk = ["x", "y", "z"][:dim]
        gsim.add_volumeLoad(glob.nodes, [0.5] * dim, unk)
        Kg, _, Mg, _ = gsim.Get_K_C_M_F()
        Fg = np.asarray(gsim.Bc_vector_Neumann())
        ug = rng_vec = np.array([rng.randint(-8, 8) / 8 for _ in range(glob.Nn * dim)])
        Eg = float(ug @ (Kg @ ug))
        for N in counts:
            ident = dict(elemType=et, Nproc=N, Ne=int(Ne), Nn=int(glob.Nn))
            try:
                parts = build(et, N, size)
                parts2 = build(et, N, size)
            except Exception as ex:  # noqa: BLE001
                res.fail(f"partition raises elem={et}", f"{type(ex).__name__}: {str(ex)[:150]}", ident)
                continue
            res.case((et, N))
            res.count(f"elem:{et}")
            res.count(f"Nproc:{min(N, 8)}{'+' if N >= 8 else ''}")
            if len(parts) != N:
                res.fail("number of parts", f"{len(parts)} parts returned for Nproc = {N}", ident)
                continue
            # every group type
            energy_sum, reaction_sum = 0.0, np.zeros(dim)
            pre = {r: set() for r in range(N)}       # dict_rank_nodes of the code before each element type is processed
            for gtype in parts[0].dict_groupElem:    # the order in which the types were processed
                gg = glob.dict_groupElem[gtype]
                conn = np.asarray(gg.connect)
                if len(conn) == 0:
                    continue
                rank_of = -np.ones(len(conn), int)
                owners_nodes = {}
                ok = True
                for p, p2 in zip(parts, parts2):
                    gp = p.dict_groupElem.get(gtype)
                    if gp is None:
                        res.fail(f"group missing in a part group={gtype}", "a part does not hold the element group", ident)
                        ok = False
                        break
                    r, els, gh, nodes, _ = gp._Get_partitioned_data()
                    r2, els2, gh2, nodes2, _ = p2.dict_groupElem[gtype]._Get_partitioned_data()
                    if not (np.array_equal(np.sort(els), np.sort(els2)) and np.array_equal(np.sort(gh), np.sort(gh2)) and np.array_equal(np.sort(nodes), np.sort(nodes2))):
                        res.fail("partition not reproducible", f"two identical splits differ for rank {r}, group {gtype}", ident)
                    if (rank_of[els] >= 0).any():
                        res.fail(f"element owned twice group={gtype}", f"elements {els[rank_of[els] >= 0][:5].tolist()} have two owners", ident)
                        ok = False
                    rank_of[els] = r
                    owners_nodes[r] = np.asarray(nodes, int)
                    # the part holds owned + ghosts, rows sorted by global index, with the global connectivity
                    held = np.union1d(els, gh).astype(int)
                    if gp.Ne != len(held) or (gp.Ne and not np.array_equal(np.asarray(gp.connect), conn[held])):
                        res.fail(f"part connectivity group={gtype}", f"rank {r}: the rows of the part are not the global connectivity of its owned and ghost elements", ident)
                        ok = False
                    touching = np.where(np.isin(conn, nodes).any(axis=1))[0] if len(nodes) else np.array([], int)
                    want = np.union1d(els, touching)
                    if not np.array_equal(want, held):
                        miss = np.setdiff1d(want, held)
                        extra = np.setdiff1d(held, want)
                        res.fail(f"ghost layer group={gtype}", f"rank {r}: elements {miss[:6].tolist()} touch an owned node but are not held; elements {extra[:6].tolist()} are held without reason", ident)
                        ok = False
                if not ok:
                    continue
                if (rank_of < 0).any():
                    res.fail(f"element without owner group={gtype}", f"elements {np.where(rank_of < 0)[0][:6].tolist()} belong to no part", ident)
                    continue
                allnodes = np.concatenate([owners_nodes[r] for r in range(N)]) if N else np.array([], int)
                used = np.unique(conn)
                if len(allnodes) != len(np.unique(allnodes)):
                    res.fail(f"node owned twice group={gtype}", "a node of the group has two owners", ident)
                else:
                    missing = np.setdiff1d(used, allnodes)
                    extra = np.setdiff1d(allnodes, used)
                    before = set().union(*pre.values()) if pre else set()
                    # a node used by the group and owned by nobody for this group must have been owned before (by an element type processed earlier);
                    # for the main element type every node must be owned for the group itself: these are the rows a part is responsible for
                    orphan = [int(i) for i in missing if int(i) not in before]
                    if len(extra) or orphan or (gg.dim == glob.dim and len(missing)):
                        res.fail(f"nodes not partitioned group={gtype}", f"nodes used by the group without owner: {orphan[:6] or missing[:6].tolist()}; owned nodes not used by the group: {extra[:6].tolist()}", ident)
                if len(conn) <= 400 and gtype != ElemType.POINT:
                    lines.append(f"part {len(conn)} {conn.shape[1]} {N} | " + " ".join(str(int(v)) for v in conn.ravel()) + " | " + " ".join(str(int(v)) for v in rank_of)
                                 + " | " + " / ".join(" ".join(str(v) for v in sorted(pre[r])) for r in range(N)))
                    real = []
                    for p in parts:
                        r, els, gh, nodes, _ = p.dict_groupElem[gtype]._Get_partitioned_data()
                        real.append((sorted(int(v) for v in nodes), sorted(int(v) for v in gh)))
                    expect.append((real, dict(ident, group=str(gtype))))
                for r in range(N):
                    pre[r] |= set(int(v) for v in owners_nodes[r])
            # mesh level: the nodes owned by the ranks (all element types together) are a partition of the nodes in use
            alln = [v for r in range(N) for v in pre[r]]
            usedall = np.unique(np.concatenate([np.asarray(g.connect).ravel() for g in glob.dict_groupElem.values() if g.Ne]))
            if len(alln) != len(set(alln)):
                res.fail("node owned by two ranks", "across the element types a node has two owner ranks", ident)
            elif not np.array_equal(np.array(sorted(alln)), usedall):
                res.fail("node without owner", f"nodes {np.setdiff1d(usedall, np.array(sorted(alln)))[:6].tolist()} have no owner rank", ident)
            # coordinates and numbering kept
            for p in parts:
                usedp = np.unique(np.concatenate([np.asarray(g.connect).ravel() for g in p.dict_groupElem.values() if g.Ne]))
                if p.coord.shape != glob.coord.shape or np.abs(p.coord[usedp] - glob.coord[usedp]).max() > 0:
                    res.fail("coordinates not kept", "a part does not keep the global coordinates / numbering", ident)
                    break
            # row completeness of the assembled systems
            for p in parts:
                r, els, gh, nodes, _ = p.groupElem._Get_partitioned_data()
                if len(nodes) == 0:
                    continue
                ps = Simulations.Elastic(p, law)
                ps.rho = 2.0
                ps.add_volumeLoad(p.nodes, [0.5] * dim, unk)
                Kp, _, Mp, _ = ps.Get_K_C_M_F()
                Fp = np.asarray(ps.Bc_vector_Neumann())
                dofs = (np.asarray(nodes)[:, None] * dim + np.arange(dim)).ravel()
                res.case((et, N, int(r), "rows"))
                scale = np.abs(Kg).max()
                if not (np.abs(dense_rows(Kp, dofs) - dense_rows(Kg, dofs)).max() <= 1e-9 * scale):
                    res.fail(f"K rows differ on owned dofs elem={et}", f"rank {r}: K assembled on the part differs from the global K on its owned rows", ident)
                if not (np.abs(dense_rows(Mp, dofs) - dense_rows(Mg, dofs)).max() <= 1e-9 * np.abs(Mg).max()):
                    res.fail(f"M rows differ on owned dofs elem={et}", f"rank {r}: M assembled on the part differs from the global M on its owned rows", ident)
                if not (np.abs(Fp[dofs] - Fg[dofs]).max() <= 1e-9 * (1 + np.abs(Fg).max())):
                    res.fail(f"F rows differ on owned dofs elem={et}", f"rank {r}: the load vector of the part differs from the global one on its owned rows", ident)
                Ku = Kp @ ug
                energy_sum += float(ug[dofs] @ Ku[dofs])
                reaction_sum += Ku[dofs].reshape(-1, dim).sum(0)
            if not (abs(energy_sum - Eg) <= 1e-9 * (1 + abs(Eg))):
                res.fail(f"owned-row energies do not add up elem={et}", f"Σ over parts of u_owned·(K_part u)_owned = {energy_sum}, global u·K u = {Eg}", ident)
            if not (np.abs(reaction_sum - (Kg @ ug).reshape(-1, dim).sum(0)).max() <= 1e-8 * (1 + np.abs(Kg @ ug).max())):
                res.fail(f"owned-row reactions do not add up elem={et}", "Σ over parts of the owned rows of K u differs from the global sum", ident)

    # ---------------- many elements, many parts: few parts of the quick rectangles own more than a handful of nodes ----------------
    big = [("TRI3 square 10 x 10", mesh_big_tri, (0.3, 0.25, 0.22)[args.seed % 3], (64, 48 + args.seed % 7)),
           ("QUAD4 organised square 10 x 10", mesh_big_quad, 0.25, (64,)),
           ("TETRA4 cube 4 x 4 x 4", mesh_big_tetra, 0.45, (56 + args.seed % 5,))]
    if thorough:
        big.append(("TRI3 square 10 x 10", mesh_big_tri, 0.15, (128, 200)))
    for name, mk, h, Ns in big:
        try:
            (glob,) = mk(1, h)
        except Exception as ex:  # noqa: BLE001
            res.fail("partition raises large mesh", f"{name}: {type(ex).__name__}: {str(ex)[:150]}", dict(mesh=name, h=h, Nproc=1))
            continue
        law = Models.Elastic.Isotropic(glob.dim, E=10.0, v=0.25, planeStress=True, thickness=0.5 if glob.dim == 2 else 1.0)
        for N in Ns:
            ident = dict(mesh=name, h=h, Nproc=N, Ne=int(glob.Ne), Nn=int(glob.Nn))
            try:
                parts = mk(N, h)
            except Exception as ex:  # noqa: BLE001
                res.fail("partition raises large mesh", f"{name}: {type(ex).__name__}: {str(ex)[:150]}", ident)
                continue
            res.case(("large", name, h, N))
            res.count("large split")
            if len(parts) != N:
                res.fail("number of parts", f"{len(parts)} parts returned for Nproc = {N}", ident)
                continue
            group_level(res, glob, parts, ident, name)
            part_level(res, glob, parts, ident, f"mesh={name}", law, sorted({rng.randint(0, N - 1) for _ in range(3)}))

    # ---------------- ONE simulation walked over the parts (simu.mesh = part), and a per-element field handed to each part ----------------
    # strips of equal-sized parts: all parts share the number of nodes of the global mesh and the element types, and several have the
    # same number of elements - nothing but the connectivity tells them apart; and small parts have as many elements as Gauss points
    for et, dom_, size_, Nparts in (("QUAD4", (10.0, 1.0), 1.0, 3), ("QUAD4", (8.0, 2.0), 1.0, 4), ("TRI3", (6.0, 3.0), 1.0, 3), ("TRI6", (4.0, 1.0), 1.0, 3)):
        identS = dict(elemType=et, domain=list(dom_), meshSize=size_, Nproc=Nparts)
        try:
            domS = Domain(Point(0, 0), Point(*dom_), size_)
            globS = Mesher().Mesh_2D(domS, [], ElemType(et), isOrganised=True)
            partsS = PartMesher(Nparts).Mesh_2D(domS, [], ElemType(et), isOrganised=True)
            kfield = 1.0 + 0.5 * np.arange(globS.Ne) / globS.Ne + 0.25 * np.cos(np.arange(globS.Ne))     # one conductivity per element of the global mesh
            cfield = 2.0 + np.sin(np.arange(globS.Ne))

            def thermal_on(mesh_):
                ge_ = np.asarray(mesh_.groupElem._globalElements) if hasattr(mesh_.groupElem, "_globalElements") and mesh_ is not globS else np.arange(globS.Ne)
                st_ = Simulations.Thermal(mesh_, Models.Thermal(kfield[ge_], cfield[ge_]))
                st_.rho = 1.5
                return st_
            sg_ = thermal_on(globS)
            Kg_, Cg_ = (A.toarray() for A in sg_.Get_K_C_M_F()[:2])
            lawS = Models.Elastic.Isotropic(2, E=10.0, v=0.25, planeStress=True, thickness=1.0)
            KgE = Simulations.Elastic(globS, lawS).Get_K_C_M_F()[0].toarray()
            walker = None
            sizes = []
            for p_ in partsS:
                r_, els_, gh_, nodes_, _ = p_.groupElem._Get_partitioned_data()
                sizes.append(int(p_.groupElem.Ne))
                if len(nodes_) == 0:
                    continue
                rows1 = np.asarray(nodes_)
                # (a) heterogeneous coefficients handed over as field[groupElem._globalElements]
                sp_ = thermal_on(p_)
                Kp_, Cp_ = (A.toarray() for A in sp_.Get_K_C_M_F()[:2])
                res.case((et, Nparts, int(r_), "per-element field on a part"))
                nPgs = {str(mt_): int(p_.groupElem.Get_gauss(mt_).nPg) for mt_ in ("rigi", "mass")}
                for nm_, Ap_, Ag_ in (("K", Kp_, Kg_), ("C", Cp_, Cg_)):
                    if not (np.abs(Ap_[rows1] - Ag_[rows1]).max() <= 1e-9 * np.abs(Ag_).max()):
                        res.fail(f"{nm_} rows differ on owned dofs with a per-element coefficient field elem={et}",
                                 f"rank {r_} (Ne = {p_.groupElem.Ne} elements, Gauss points {nPgs}): the {nm_} of a Thermal simulation on the part, with the conductivity / capacity of ITS elements "
                                 f"(field[groupElem._globalElements]), differs from the global {nm_} on the owned rows by {np.abs(Ap_[rows1] - Ag_[rows1]).max() / np.abs(Ag_).max():.2e}", dict(identS, rank=int(r_), Ne=int(p_.groupElem.Ne)))
                        break
                # (b) one simulation object reused for every part
                if walker is None:
                    walker = Simulations.Elastic(p_, lawS)
                else:
                    walker.mesh = p_
                res.case((et, Nparts, int(r_), "one simulation walked over the parts"))
                try:
                    Kw_ = walker.Get_K_C_M_F()[0].toarray()
                except Exception as ex:  # noqa: BLE001
                    res.fail(f"one simulation walked over the parts raises elem={et}", f"rank {r_}: {type(ex).__name__}: {str(ex)[:150]}", dict(identS, rank=int(r_), sizes=sizes))
                    break
                dofs2 = (rows1[:, None] * 2 + np.arange(2)).ravel()
                if not (np.abs(Kw_[dofs2] - KgE[dofs2]).max() <= 1e-9 * np.abs(KgE).max()):
                    res.fail(f"K rows differ on owned dofs when one simulation is walked over the parts elem={et}",
                             f"rank {r_} (part sizes so far {sizes}): K of the simulation after simu.mesh = part differs from the global K on the owned rows by "
                             f"{np.abs(Kw_[dofs2] - KgE[dofs2]).max() / np.abs(KgE).max():.2e}", dict(identS, rank=int(r_), sizes=sizes))
                    break
        except Exception as ex:  # noqa: BLE001
            res.fail(f"strip scenario raises elem={et}", f"{type(ex).__name__}: {str(ex)[:200]}", identS)

    # ---------------- meshes with several element types of the main dimension ----------------
    for label, name, mk, Ns in (("mixed element types", "TRI3 square glued to a recombined square (QUAD4 + TRI3), h = 2.5", mesh_tri_glued_to_recombined, (2, 4)),
                                ("mesh=revolve touching the axis", "Mesh_Revolve of Domain((0,0),(2,2),1.0) about the y-axis, 360 degrees, 8 layers, HEXA8 (PRISM6 + HEXA8)", mesh_revolve_on_axis, (3,))):
        try:
            (glob,) = mk(1)
        except Exception as ex:  # noqa: BLE001
            res.fail(f"partition raises {label}", f"{type(ex).__name__}: {str(ex)[:150]}", dict(mesh=name, Nproc=1))
            continue
        law = Models.Elastic.Isotropic(glob.dim, E=10.0, v=0.25, planeStress=True, thickness=0.5 if glob.dim == 2 else 1.0)
        for N in Ns:
            ident = dict(mesh=name, Nproc=N, Ne=int(glob.Ne), Nn=int(glob.Nn), types=[str(g.elemType) for g in glob.Get_list_groupElem(glob.dim)])
            try:
                parts = mk(N)
            except Exception as ex:  # noqa: BLE001
                res.fail(f"partition raises {label}", f"{type(ex).__name__}: {str(ex)[:150]}", ident)
                continue
            res.case(("several main types", label, N))
            res.count("several main types")
            if len(parts) != N:
                res.fail("number of parts", f"{len(parts)} parts returned for Nproc = {N}", ident)
                continue
            group_level(res, glob, parts, ident, label)
            # (the revolved mesh is used for the ownership of the nodes only)
            part_level(res, glob, parts, ident, label, law, range(N), ghosts=label == "mixed element types")

    # ---------------- Mesh.Merge with a node mapping ----------------
    def tiles(et):
        return [M.mesh_2d(et, polygon=[(i, j), (i + 1, j), (i + 1, j + 1), (i, j + 1)], h=0.5) for i in (0, 1) for j in (0, 1)]

    def pieces(et, N):
        return list(build(et, N, 0.7))       # the parts of a split overlap in their ghost layers: nodes held by up to N parts

    def moved_copies(et, moves, first_last=False):
        """a plate and copies of it moved as rigid bodies after meshing (Translate / Rotate): disjoint from the plate, or sharing exactly the nodes of an edge"""
        plate = M.mesh_2d(et, a=1.0, b=1.0, h=0.25)
        out = [plate]
        for kind, val in moves:
            c = plate.copy()
            if kind == "dz":
                c.Translate(dz=val)
            elif kind == "dx":
                c.Translate(dx=val)
            else:
                c.Rotate(val, (0, 0, 0), (1, 0, 0))     # about the edge y = 0 of the plate
            out.append(c)
        return out[::-1] if first_last else out

    for name, mk in (("QUAD4 plate + copy moved by Translate(dz=0.5), no shared node", lambda: moved_copies("QUAD4", [("dz", 0.5)])),
                     ("copy of a QUAD4 plate moved by Translate(dz=0.5) + the plate, no shared node", lambda: moved_copies("QUAD4", [("dz", 0.5)], True)),
                     ("TRI6 plate + copies moved by dz=0.25 and dz=-0.5, no shared node", lambda: moved_copies("TRI6", [("dz", 0.25), ("dz", -0.5)])),
                     ("TRI3 plate + copy turned by 90 deg about the shared edge y=0", lambda: moved_copies("TRI3", [("rot", 90.0)])),
                     ("QUAD4 plate + copy moved by dx=1 (shared edge) + copy moved by dz=1e-3", lambda: moved_copies("QUAD4", [("dx", 1.0), ("dz", 1e-3)])),
                     ("TRI3 | QUAD4 sharing an edge", lambda: (M.mesh_2d("TRI3", polygon=[(0, 0), (1, 0), (1, 1), (0, 1)], h=0.5), M.mesh_2d("QUAD4", polygon=[(1, 0), (3, 0), (3, 1), (1, 1)], h=0.5))),
                     ("two disjoint TRI6", lambda: (M.mesh_2d("TRI6", polygon=[(0, 0), (1, 0), (1, 1), (0, 1)], h=0.5), M.mesh_2d("TRI6", polygon=[(2, 0), (3, 0), (3, 1), (2, 1)], h=0.5))),
                     ("2 x 2 QUAD4 tiles (a corner shared by four meshes)", lambda: tiles("QUAD4")),
                     ("2 x 2 TRI6 tiles (a corner shared by four meshes)", lambda: tiles("TRI6")),
                     ("three coincident copies of a TRI3 mesh", lambda: [M.mesh_2d("TRI3", polygon=[(0, 0), (1, 0), (1, 1), (0, 1)], h=0.5) for _ in range(3)]),
                     (f"the parts of a TRI3 mesh split in {4 + args.seed % 3} merged back", lambda: pieces("TRI3", 4 + args.seed % 3)),
                     ("the parts of a QUAD8 mesh split in 5 merged back", lambda: pieces("QUAD8", 5)),
                     ("three TETRA4 boxes in a row", None)):
        if mk is None:
            a = M.mesh_3d("TETRA4", 1.0, 1.0, 1.0, 0.6, 1)
            b = M.mesh_3d("TETRA4", 1.0, 1.0, 1.0, 0.6, 1)
            b.Translate(1.0, 0, 0)
            c = M.mesh_3d("TETRA4", 1.0, 1.0, 1.0, 0.6, 1)
            c.Translate(2.5, 0, 0)
            meshes = [a, b, c]
        else:
            meshes = list(mk())
        ident = dict(merge=name)
        try:
            merged, mapping = Mesh.Merge(meshes, return_mapping=True)
        except Exception as ex:  # noqa: BLE001
            res.fail("Mesh.Merge raises", f"{type(ex).__name__}: {str(ex)[:150]}", ident)
            continue
        res.case(("merge", name))
        res.count("merge")
        bad = None
        for m, mp in zip(meshes, mapping):
            mp = np.asarray(mp)
            if len(mp) != m.Nn or not (np.abs(merged.coord[mp] - m.coord).max() <= 1e-10):
                bad = "a node is not mapped onto a node with its coordinates"
                break
            for t, g in m.dict_groupElem.items():
                gm = merged.dict_groupElem.get(t)
                if gm is None:
                    bad = f"group {t} lost"
                    break
                rows = {tuple(sorted(r)) for r in np.asarray(gm.connect).tolist()}
                if any(tuple(sorted(r)) not in rows for r in mp[np.asarray(g.connect)].tolist()):
                    bad = f"an element of group {t} is not found in the merged mesh under the mapping"
                    break
            if bad:
                break
        # coincident input nodes <-> one merged node; distinct elements <-> one merged element
        if bad is None:
            allX = np.vstack([np.asarray(m.coord) for m in meshes])
            allmp = np.concatenate([np.asarray(mp) for mp in mapping])
            keys = [tuple(r) for r in np.round(allX, 8).tolist()]
            where = {}
            for kx, mp_ in zip(keys, allmp.tolist()):
                where.setdefault(kx, set()).add(mp_)
            split_nodes = [kx for kx, v in where.items() if len(v) > 1]
            if split_nodes:
                bad = f"{len(split_nodes)} position(s) held by several input nodes are mapped to DIFFERENT merged nodes, e.g. {list(split_nodes[0])} -> {sorted(where[split_nodes[0]])}"
            elif merged.Nn != len(where):
                bad = f"the merged mesh has {merged.Nn} nodes for {len(where)} distinct positions"
            else:
                for t in {t for m in meshes for t, g in m.dict_groupElem.items() if g.dim == m.dim}:
                    distinct = {tuple(sorted(r)) for m, mp in zip(meshes, mapping) if t in m.dict_groupElem for r in np.asarray(mp)[np.asarray(m.dict_groupElem[t].connect)].tolist()}
                    if merged.dict_groupElem[t].Ne != len(distinct):
                        bad = f"group {t} of the merged mesh has {merged.dict_groupElem[t].Ne} elements for {len(distinct)} distinct input elements"
                        break
        total = sum(m.Nn for m in meshes)
        shared = total - merged.Nn
        allm = np.concatenate([np.asarray(mp) for mp in mapping])
        if bad is None and (len(np.unique(allm)) != merged.Nn):
            bad = "the mapping does not reach every node of the merged mesh"
        meas = sum((m.area if m.dim == 2 else m.volume) for m in meshes)
        if "coincident copies" in name:
            meas = meshes[0].area
        elif "merged back" in name:
            meas = 8.0          # the 4 x 2 rectangle the parts were cut from
        if bad is None and not (abs((merged.area if merged.dim == 2 else merged.volume) - meas) <= 1e-9):
            bad = f"measure of the merged mesh {(merged.area if merged.dim == 2 else merged.volume)} != sum of the measures {meas}"
        if bad:
            res.fail(f"merge bookkeeping: {name}", bad + f" (coincident nodes merged: {shared})", ident)

    # ---------------- the merge tolerance is an absolute distance (documented), whatever the size of the meshes ----------------
    for Lsc, gap, expect_merge in ((100.0, 2e-11, False), (1e-3, 2e-13, True), (1.0, 2e-11, False), (1.0, 2e-13, True)):
        ma = M.mesh_2d("TRI3", polygon=[(0, 0), (1, 0), (1, 1), (0, 1)], h=0.5)
        mb = M.mesh_2d("TRI3", polygon=[(1, 0), (2, 0), (2, 1), (1, 1)], h=0.5)
        ma.coord = ma.coord * Lsc
        Xb = mb.coord * Lsc
        Xb[:, 0] += gap                      # the second mesh starts `gap` away from the edge x = L of the first
        mb.coord = Xb
        shared = int(np.isclose(ma.coord[:, 0], Lsc).sum())
        ident = dict(merge="two meshes side by side", scale=Lsc, gap=gap, mergePointsTol=1e-12)
        res.case(("merge-tolerance", Lsc, gap))
        res.count("merge-tolerance")
        try:
            mg, mp_ = Mesh.Merge([ma, mb], return_mapping=True)
        except Exception as ex:  # noqa: BLE001
            res.fail("Mesh.Merge raises", f"{type(ex).__name__}: {str(ex)[:150]}", ident)
            continue
        want_Nn = ma.Nn + mb.Nn - (shared if expect_merge else 0)
        moved = max(float(np.abs(mg.coord[np.asarray(mp)] - m.coord).max()) for m, mp in zip((ma, mb), mp_))
        if mg.Nn != want_Nn or not (moved <= 1e-12):
            res.fail(f"merge tolerance is not the documented absolute distance scale={Lsc} gap={gap}",
                     f"meshes of size {Lsc} whose interface nodes are {gap} apart (tolerance 1e-12): merged mesh has {mg.Nn} nodes, expected {want_Nn}; the mapping moves a node by {moved:.2e}", ident)

    answers = driver.ask(lines)
    if answers is None:
        res.disagree("driver", "model driver does not run: " + getattr(driver, "error", "")[:400])
    else:
        for (real, ident), ans in zip(expect, answers):
            res.traces += 1
            try:
                model = []
                for seg in ans.split(";"):
                    a, b = seg.split("/")
                    model.append((sorted(int(x) for x in a.split()), sorted(int(x) for x in b.split())))
            except Exception:  # noqa: BLE001
                res.disagree("partition-bookkeeping", dict(ident, model=ans[:80]))
                continue
            if model != real:
                k = next(i for i in range(len(real)) if not (i < len(model)) or model[i] != real[i])
                res.disagree("partition-bookkeeping", dict(ident, rank=k, model=str(model[k] if k < len(model) else None)[:150], real=str(real[k])[:150]))
    res.search_note = "every split is a true partition with complete ghost layers, row-complete systems and additive owned-row sums"
    res.write("rectangle / extruded-box meshes of 2D / 3D element types split by gmsh into 2, 3, a random 4-7 (and up to 16) parts in a single process; every element group of every part: ownership of elements and nodes, "
              "ghost layer, connectivity, coordinates, reproducibility; squares / cubes of 2000-4000 elements split in 48-64 parts (dense ownership maps, part-level owners and ghost layers, K rows of three parts); a TRI3 square glued to a recombined square split in 2 and 4 and a revolved square touching the axis split in 3 (part level: one owner per node, every element touching an owned node held, K rows); K, M, F of an elastic simulation on each part vs the global ones on the owned rows, energy and reaction sums; Mesh.Merge with return_mapping on "
              "meshes sharing an edge, disjoint, plates and rigidly moved copies of them (out of plane, turned about a shared edge), three in a row, 2 x 2 tiles, three coincident copies and the overlapping parts of a split merged back (nodes held by 3 and more inputs); distinct = distinct (element type, part count, rank, check)")


if __name__ == "__main__":
    from tools.harness._common import run

    run(main)
