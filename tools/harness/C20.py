"""C20 harness.
(a) correspondence: for every element group of a partitioned mesh, the real owned nodes and ghost elements per rank vs
    the bookkeeping model evaluated on the real element -> rank map;
(b) the property on the real code (Mesher._Mesh_Get_Meshes, single process): every element / node has exactly one owner,
    a part = own elements + every element touching an owned node, global numbering and coordinates kept, reproducible;
    K, M and F assembled on a part alone = the global ones on the owned rows; owned-row energies and reactions summed over
    the parts = the global ones; Mesh.Merge with return_mapping is the inverse bookkeeping."""

from __future__ import annotations

import warnings

import numpy as np

from tools.harness._common import Driver, Result, parse_args, rng_for
from tools.harness import _meshes as M

from EasyFEA import Mesher, ElemType, Models, Simulations, Mesh
from EasyFEA.Geoms import Domain, Point


class PartMesher(Mesher):
    """the repo's Mesher, returning all the parts of a split of any size in a single process"""

    def __init__(self, Nproc):
        super().__init__()
        self._nproc = Nproc

    def _Mesh_Get_Mesh(self, coef=1.0):
        return self._Mesh_Get_Meshes(self._nproc, coef)


def build(et, N, size):
    dim = M.dim_of(et)
    dom = Domain(Point(0, 0), Point(4, 2), size)
    if dim == 2:
        return PartMesher(N).Mesh_2D(dom, [], ElemType(et), isOrganised=et in M.QUAD)
    if et in M.TETRA:
        return PartMesher(N).Mesh_Extrude(dom, [], [0, 0, 1.5], [], ElemType(et))
    return PartMesher(N).Mesh_Extrude(dom, [], [0, 0, 1.5], [2], ElemType(et), isOrganised=et in M.HEXA)


def dense_rows(Asp, rows):
    return np.asarray(Asp.tocsr()[rows].todense())


def main():
    args = parse_args()
    rng = rng_for(args)
    res = Result(args)
    driver = Driver("C20")
    warnings.filterwarnings("ignore")
    thorough = args.tier == "thorough"
    lines, expect = [], []
    types = (M.ALL_2D + M.ALL_3D) if thorough else ["TRI3", "TRI6", "QUAD4", "QUAD8", "TETRA4", "HEXA8", "PRISM6"]
    for et in types:
        dim = M.dim_of(et)
        heavy = et in ("HEXA27", "HEXA20", "PRISM18", "PRISM15", "TETRA10", "TRI15")
        size = 1.0 if dim == 3 or heavy else 0.7
        (glob,) = build(et, 1, size)
        Ne = glob.Ne
        counts = sorted(set([2, 3, rng.randint(4, 7), min(Ne, max(8, Ne // 3))] + ([min(Ne, rng.randint(8, 16)), min(Ne, max(9, Ne // 2))] if thorough else [])))   # few elements per part: thin ghost layers
        law = Models.Elastic.Isotropic(dim, E=10.0, v=0.25, planeStress=True, thickness=0.5 if dim == 2 else 1.0)
        gsim = Simulations.Elastic(glob, law)
        gsim.rho = 2.0
        unk = ["x", "y", "z"][:dim]
        gsim.add_volumeLoad(glob.nodes, [0.5] * dim, unk)
        Kg, _, Mg, _ = gsim.Get_K_C_M_F()
        Fg = np.asarray(gsim.Bc_vector_Neumann())
        ug = rng_vec = np.array([rng.randint(-8, 8) / 8 for _ in range(glob.Nn * dim)])
        Eg = float(ug @ (Kg @ ug))
        for N in counts:
            ident = dict(elemType=et, Nproc=N, Ne=int(Ne), Nn=int(glob.Nn))
            try:
                parts = build(et, N, size)
                parts2 = build(et, N, size)
            except Exception as ex:  # noqa: BLE001
                res.fail(f"partition raises elem={et}", f"{type(ex).__name__}: {str(ex)[:150]}", ident)
                continue
            res.case((et, N))
            res.count(f"elem:{et}")
            res.count(f"Nproc:{min(N, 8)}{'+' if N >= 8 else ''}")
            if len(parts) != N:
                res.fail("number of parts", f"{len(parts)} parts returned for Nproc = {N}", ident)
                continue
            # every group type
            energy_sum, reaction_sum = 0.0, np.zeros(dim)
            pre = {r: set() for r in range(N)}       # dict_rank_nodes of the code before each element type is processed
            for gtype in parts[0].dict_groupElem:    # the order in which the types were processed
                gg = glob.dict_groupElem[gtype]
                conn = np.asarray(gg.connect)
                if len(conn) == 0:
                    continue
                rank_of = -np.ones(len(conn), int)
                owners_nodes = {}
                ok = True
                for p, p2 in zip(parts, parts2):
                    gp = p.dict_groupElem.get(gtype)
                    if gp is None:
                        res.fail(f"group missing in a part group={gtype}", "a part does not hold the element group", ident)
                        ok = False
                        break
                    r, els, gh, nodes, _ = gp._Get_partitioned_data()
                    r2, els2, gh2, nodes2, _ = p2.dict_groupElem[gtype]._Get_partitioned_data()
                    if not (np.array_equal(np.sort(els), np.sort(els2)) and np.array_equal(np.sort(gh), np.sort(gh2)) and np.array_equal(np.sort(nodes), np.sort(nodes2))):
                        res.fail("partition not reproducible", f"two identical splits differ for rank {r}, group {gtype}", ident)
                    if (rank_of[els] >= 0).any():
                        res.fail(f"element owned twice group={gtype}", f"elements {els[rank_of[els] >= 0][:5].tolist()} have two owners", ident)
                        ok = False
                    rank_of[els] = r
                    owners_nodes[r] = np.asarray(nodes, int)
                    # the part holds owned + ghosts, rows sorted by global index, with the global connectivity
                    held = np.union1d(els, gh).astype(int)
                    if gp.Ne != len(held) or (gp.Ne and not np.array_equal(np.asarray(gp.connect), conn[held])):
                        res.fail(f"part connectivity group={gtype}", f"rank {r}: the rows of the part are not the global connectivity of its owned and ghost elements", ident)
                        ok = False
                    touching = np.where(np.isin(conn, nodes).any(axis=1))[0] if len(nodes) else np.array([], int)
                    want = np.union1d(els, touching)
                    if not np.array_equal(want, held):
                        miss = np.setdiff1d(want, held)
                        extra = np.setdiff1d(held, want)
                        res.fail(f"ghost layer group={gtype}", f"rank {r}: elements {miss[:6].tolist()} touch an owned node but are not held; elements {extra[:6].tolist()} are held without reason", ident)
                        ok = False
                if not ok:
                    continue
                if (rank_of < 0).any():
                    res.fail(f"element without owner group={gtype}", f"elements {np.where(rank_of < 0)[0][:6].tolist()} belong to no part", ident)
                    continue
                allnodes = np.concatenate([owners_nodes[r] for r in range(N)]) if N else np.array([], int)
                used = np.unique(conn)
                if len(allnodes) != len(np.unique(allnodes)):
                    res.fail(f"node owned twice group={gtype}", "a node of the group has two owners", ident)
                else:
                    missing = np.setdiff1d(used, allnodes)
                    extra = np.setdiff1d(allnodes, used)
                    before = set().union(*pre.values()) if pre else set()
                    # a node used by the group and owned by nobody for this group must have been owned before (by an element type processed earlier);
                    # for the main element type every node must be owned for the group itself: these are the rows a part is responsible for
                    orphan = [int(i) for i in missing if int(i) not in before]
                    if len(extra) or orphan or (gg.dim == glob.dim and len(missing)):
                        res.fail(f"nodes not partitioned group={gtype}", f"nodes used by the group without owner: {orphan[:6] or missing[:6].tolist()}; owned nodes not used by the group: {extra[:6].tolist()}", ident)
                if len(conn) <= 400 and gtype != ElemType.POINT:
                    lines.append(f"part {len(conn)} {conn.shape[1]} {N} | " + " ".join(str(int(v)) for v in conn.ravel()) + " | " + " ".join(str(int(v)) for v in rank_of)
                                 + " | " + " / ".join(" ".join(str(v) for v in sorted(pre[r])) for r in range(N)))
                    real = []
                    for p in parts:
                        r, els, gh, nodes, _ = p.dict_groupElem[gtype]._Get_partitioned_data()
                        real.append((sorted(int(v) for v in nodes), sorted(int(v) for v in gh)))
                    expect.append((real, dict(ident, group=str(gtype))))
                for r in range(N):
                    pre[r] |= set(int(v) for v in owners_nodes[r])
            # mesh level: the nodes owned by the ranks (all element types together) are a partition of the nodes in use
            alln = [v for r in range(N) for v in pre[r]]
            usedall = np.unique(np.concatenate([np.asarray(g.connect).ravel() for g in glob.dict_groupElem.values() if g.Ne]))
            if len(alln) != len(set(alln)):
                res.fail("node owned by two ranks", "across the element types a node has two owner ranks", ident)
            elif not np.array_equal(np.array(sorted(alln)), usedall):
                res.fail("node without owner", f"nodes {np.setdiff1d(usedall, np.array(sorted(alln)))[:6].tolist()} have no owner rank", ident)
            # coordinates and numbering kept
            for p in parts:
                usedp = np.unique(np.concatenate([np.asarray(g.connect).ravel() for g in p.dict_groupElem.values() if g.Ne]))
                if p.coord.shape != glob.coord.shape or np.abs(p.coord[usedp] - glob.coord[usedp]).max() > 0:
                    res.fail("coordinates not kept", "a part does not keep the global coordinates / numbering", ident)
                    break
            # row completeness of the assembled systems
            for p in parts:
                r, els, gh, nodes, _ = p.groupElem._Get_partitioned_data()
                if len(nodes) == 0:
                    continue
                ps = Simulations.Elastic(p, law)
                ps.rho = 2.0
                ps.add_volumeLoad(p.nodes, [0.5] * dim, unk)
                Kp, _, Mp, _ = ps.Get_K_C_M_F()
                Fp = np.asarray(ps.Bc_vector_Neumann())
                dofs = (np.asarray(nodes)[:, None] * dim + np.arange(dim)).ravel()
                res.case((et, N, int(r), "rows"))
                scale = np.abs(Kg).max()
                if np.abs(dense_rows(Kp, dofs) - dense_rows(Kg, dofs)).max() > 1e-9 * scale:
                    res.fail(f"K rows differ on owned dofs elem={et}", f"rank {r}: K assembled on the part differs from the global K on its owned rows", ident)
                if np.abs(dense_rows(Mp, dofs) - dense_rows(Mg, dofs)).max() > 1e-9 * np.abs(Mg).max():
                    res.fail(f"M rows differ on owned dofs elem={et}", f"rank {r}: M assembled on the part differs from the global M on its owned rows", ident)
                if np.abs(Fp[dofs] - Fg[dofs]).max() > 1e-9 * (1 + np.abs(Fg).max()):
                    res.fail(f"F rows differ on owned dofs elem={et}", f"rank {r}: the load vector of the part differs from the global one on its owned rows", ident)
                Ku = Kp @ ug
                energy_sum += float(ug[dofs] @ Ku[dofs])
                reaction_sum += Ku[dofs].reshape(-1, dim).sum(0)
            if abs(energy_sum - Eg) > 1e-9 * (1 + abs(Eg)):
                res.fail(f"owned-row energies do not add up elem={et}", f"Σ over parts of u_owned·(K_part u)_owned = {energy_sum}, global u·K u = {Eg}", ident)
            if np.abs(reaction_sum - (Kg @ ug).reshape(-1, dim).sum(0)).max() > 1e-8 * (1 + np.abs(Kg @ ug).max()):
                res.fail(f"owned-row reactions do not add up elem={et}", "Σ over parts of the owned rows of K u differs from the global sum", ident)

    # ---------------- Mesh.Merge with a node mapping ----------------
    def tiles(et):
        return [M.mesh_2d(et, polygon=[(i, j), (i + 1, j), (i + 1, j + 1), (i, j + 1)], h=0.5) for i in (0, 1) for j in (0, 1)]

    def pieces(et, N):
        return list(build(et, N, 0.7))       # the parts of a split overlap in their ghost layers: nodes held by up to N parts

    for name, mk in (("TRI3 | QUAD4 sharing an edge", lambda: (M.mesh_2d("TRI3", polygon=[(0, 0), (1, 0), (1, 1), (0, 1)], h=0.5), M.mesh_2d("QUAD4", polygon=[(1, 0), (3, 0), (3, 1), (1, 1)], h=0.5))),
                     ("two disjoint TRI6", lambda: (M.mesh_2d("TRI6", polygon=[(0, 0), (1, 0), (1, 1), (0, 1)], h=0.5), M.mesh_2d("TRI6", polygon=[(2, 0), (3, 0), (3, 1), (2, 1)], h=0.5))),
                     ("2 x 2 QUAD4 tiles (a corner shared by four meshes)", lambda: tiles("QUAD4")),
                     ("2 x 2 TRI6 tiles (a corner shared by four meshes)", lambda: tiles("TRI6")),
                     ("three coincident copies of a TRI3 mesh", lambda: [M.mesh_2d("TRI3", polygon=[(0, 0), (1, 0), (1, 1), (0, 1)], h=0.5) for _ in range(3)]),
                     (f"the parts of a TRI3 mesh split in {4 + args.seed % 3} merged back", lambda: pieces("TRI3", 4 + args.seed % 3)),
                     ("the parts of a QUAD8 mesh split in 5 merged back", lambda: pieces("QUAD8", 5)),
                     ("three TETRA4 boxes in a row", None)):
        if mk is None:
            a = M.mesh_3d("TETRA4", 1.0, 1.0, 1.0, 0.6, 1)
            b = M.mesh_3d("TETRA4", 1.0, 1.0, 1.0, 0.6, 1)
            b.Translate(1.0, 0, 0)
            c = M.mesh_3d("TETRA4", 1.0, 1.0, 1.0, 0.6, 1)
            c.Translate(2.5, 0, 0)
            meshes = [a, b, c]
        else:
            meshes = list(mk())
        ident = dict(merge=name)
        try:
            merged, mapping = Mesh.Merge(meshes, return_mapping=True)
        except Exception as ex:  # noqa: BLE001
            res.fail("Mesh.Merge raises", f"{type(ex).__name__}: {str(ex)[:150]}", ident)
            continue
        res.case(("merge", name))
        res.count("merge")
        bad = None
        for m, mp in zip(meshes, mapping):
            mp = np.asarray(mp)
            if len(mp) != m.Nn or np.abs(merged.coord[mp] - m.coord).max() > 1e-10:
                bad = "a node is not mapped onto a node with its coordinates"
                break
            for t, g in m.dict_groupElem.items():
                gm = merged.dict_groupElem.get(t)
                if gm is None:
                    bad = f"group {t} lost"
                    break
                rows = {tuple(sorted(r)) for r in np.asarray(gm.connect).tolist()}
                if any(tuple(sorted(r)) not in rows for r in mp[np.asarray(g.connect)].tolist()):
                    bad = f"an element of group {t} is not found in the merged mesh under the mapping"
                    break
            if bad:
                break
        # coincident input nodes <-> one merged node; distinct elements <-> one merged element
        if bad is None:
            allX = np.vstack([np.asarray(m.coord) for m in meshes])
            allmp = np.concatenate([np.asarray(mp) for mp in mapping])
            keys = [tuple(r) for r in np.round(allX, 8).tolist()]
            where = {}
            for kx, mp_ in zip(keys, allmp.tolist()):
                where.setdefault(kx, set()).add(mp_)
            split_nodes = [kx for kx, v in where.items() if len(v) > 1]
            if split_nodes:
                bad = f"{len(split_nodes)} position(s) held by several input nodes are mapped to DIFFERENT merged nodes, e.g. {list(split_nodes[0])} -> {sorted(where[split_nodes[0]])}"
            elif merged.Nn != len(where):
                bad = f"the merged mesh has {merged.Nn} nodes for {len(where)} distinct positions"
            else:
                for t in {t for m in meshes for t, g in m.dict_groupElem.items() if g.dim == m.dim}:
                    distinct = {tuple(sorted(r)) for m, mp in zip(meshes, mapping) if t in m.dict_groupElem for r in np.asarray(mp)[np.asarray(m.dict_groupElem[t].connect)].tolist()}
                    if merged.dict_groupElem[t].Ne != len(distinct):
                        bad = f"group {t} of the merged mesh has {merged.dict_groupElem[t].Ne} elements for {len(distinct)} distinct input elements"
                        break
        total = sum(m.Nn for m in meshes)
        shared = total - merged.Nn
        allm = np.concatenate([np.asarray(mp) for mp in mapping])
        if bad is None and (len(np.unique(allm)) != merged.Nn):
            bad = "the mapping does not reach every node of the merged mesh"
        meas = sum((m.area if m.dim == 2 else m.volume) for m in meshes)
        if "coincident copies" in name:
            meas = meshes[0].area
        elif "merged back" in name:
            meas = 8.0          # the 4 x 2 rectangle the parts were cut from
        if bad is None and abs((merged.area if merged.dim == 2 else merged.volume) - meas) > 1e-9:
            bad = f"measure of the merged mesh {(merged.area if merged.dim == 2 else merged.volume)} != sum of the measures {meas}"
        if bad:
            res.fail(f"merge bookkeeping: {name}", bad + f" (coincident nodes merged: {shared})", ident)

    # ---------------- the merge tolerance is an absolute distance (documented), whatever the size of the meshes ----------------
    for Lsc, gap, expect_merge in ((100.0, 2e-11, False), (1e-3, 2e-13, True), (1.0, 2e-11, False), (1.0, 2e-13, True)):
        ma = M.mesh_2d("TRI3", polygon=[(0, 0), (1, 0), (1, 1), (0, 1)], h=0.5)
        mb = M.mesh_2d("TRI3", polygon=[(1, 0), (2, 0), (2, 1), (1, 1)], h=0.5)
        ma.coord = ma.coord * Lsc
        Xb = mb.coord * Lsc
        Xb[:, 0] += gap                      # the second mesh starts `gap` away from the edge x = L of the first
        mb.coord = Xb
        shared = int(np.isclose(ma.coord[:, 0], Lsc).sum())
        ident = dict(merge="two meshes side by side", scale=Lsc, gap=gap, mergePointsTol=1e-12)
        res.case(("merge-tolerance", Lsc, gap))
        res.count("merge-tolerance")
        try:
            mg, mp_ = Mesh.Merge([ma, mb], return_mapping=True)
        except Exception as ex:  # noqa: BLE001
            res.fail("Mesh.Merge raises", f"{type(ex).__name__}: {str(ex)[:150]}", ident)
            continue
        want_Nn = ma.Nn + mb.Nn - (shared if expect_merge else 0)
        moved = max(float(np.abs(mg.coord[np.asarray(mp)] - m.coord).max()) for m, mp in zip((ma, mb), mp_))
        if mg.Nn != want_Nn or moved > 1e-12:
            res.fail(f"merge tolerance is not the documented absolute distance scale={Lsc} gap={gap}",
                     f"meshes of size {Lsc} whose interface nodes are {gap} apart (tolerance 1e-12): merged mesh has {mg.Nn} nodes, expected {want_Nn}; the mapping moves a node by {moved:.2e}", ident)

    answers = driver.ask(lines)
    if answers is None:
        res.disagree("driver", "model driver does not run: " + getattr(driver, "error", "")[:400])
    else:
        for (real, ident), ans in zip(expect, answers):
            res.traces += 1
            try:
                model = []
                for seg in ans.split(";"):
                    a, b = seg.split("/")
                    model.append((sorted(int(x) for x in a.split()), sorted(int(x) for x in b.split())))
            except Exception:  # noqa: BLE001
                res.disagree("partition-bookkeeping", dict(ident, model=ans[:80]))
                continue
            if model != real:
                k = next(i for i in range(len(real)) if i >= len(model) or model[i] != real[i])
                res.disagree("partition-bookkeeping", dict(ident, rank=k, model=str(model[k] if k < len(model) else None)[:150], real=str(real[k])[:150]))
    res.search_note = "every split is a true partition with complete ghost layers, row-complete systems and additive owned-row sums"
    res.write("rectangle / extruded-box meshes of 2D / 3D element types split by gmsh into 2, 3, a random 4-7 (and up to 16) parts in a single process; every element group of every part: ownership of elements and nodes, "
              "ghost layer, connectivity, coordinates, reproducibility; K, M, F of an elastic simulation on each part vs the global ones on the owned rows, energy and reaction sums; Mesh.Merge with return_mapping on "
              "meshes sharing an edge, disjoint, three in a row, 2 x 2 tiles, three coincident copies and the overlapping parts of a split merged back (nodes held by 3 and more inputs); distinct = distinct (element type, part count, rank, check)")


if __name__ == "__main__":
    from tools.harness._common import run

    run(main)
