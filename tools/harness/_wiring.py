"""Observer wiring of the simulation classes, on the real code (used by the C14 harness).

For every simulation class: the parameter holders (`_IModel` objects) reachable from `simu.model` at run time, whether the
simulation is among their observers, what an assignment to one of their parameters does to `simu.needUpdate`, and whether a
lowered flag ever sits on matrices that a forced rebuild would change. The dependency table of Model/Sources.lean and the
registrations extracted by tools/py2lean/gen_c14.py are compared with what is found here."""

from __future__ import annotations

import numpy as np

from EasyFEA import Models, Simulations, Mesher, ElemType
from EasyFEA.Geoms import Domain, Point, Line
from EasyFEA.Models._utils import _IModel
from EasyFEA.Utilities import _params
from EasyFEA.FEM import Field, BiLinearForm

from tools.harness import _meshes as M


def builders():
    mesh2 = lambda: M.mesh_2d("QUAD4", a=2.0, b=1.0, h=1.0)  # noqa: E731
    out = {}
    out["Elastic"] = lambda: Simulations.Elastic(mesh2(), Models.Elastic.Isotropic(2, E=8.0, v=0.25, planeStress=True, thickness=1.0))
    out["Thermal"] = lambda: Simulations.Thermal(mesh2(), Models.Thermal(2.0, 1.0))

    def beam():
        sect = Mesher().Mesh_2D(Domain(Point(), Point(0.1, 0.1)))
        b1 = Models.Beam.Isotropic(2, Line(Point(0, 0), Point(1.0, 0), 0.5), sect, 1000.0, 0.3)
        b2 = Models.Beam.Isotropic(2, Line(Point(1.0, 0), Point(2.0, 0.5), 0.5), sect, 1500.0, 0.3)
        m = Mesher().Mesh_Beams([b1, b2], elemType=ElemType.SEG3)
        return Simulations.Beam(m, Models.Beam.BeamStructure([b1, b2]))
    out["Beam"] = beam
    out["PhaseField"] = lambda: Simulations.PhaseField(mesh2(), Models.PhaseField(Models.Elastic.Isotropic(2, E=210.0, v=0.3, planeStress=True, thickness=1.0), "Amor", "AT2", 0.5, 0.4))
    IE = Models.InElastic
    out["InElastic"] = lambda: Simulations.InElastic(mesh2(), IE.Behavior(2, Models.Elastic.Isotropic(3, E=100.0, v=0.3), yieldSurface=IE.Yield.VonMises(1.0),
                                                                       hardening=IE.IsotropicHardening.Linear(20.0), thickness=1.0))
    out["HyperElastic"] = lambda: Simulations.HyperElastic(mesh2(), Models.HyperElastic.NeoHookean(2, 2.0))

    def weak():
        m = mesh2()
        field = Field(m.groupElem, 1)

        @BiLinearForm
        def a(u, v):
            return u.grad.dot(v.grad)
        return Simulations.WeakForms(m, Models.WeakForms(field, computeK=a))
    out["WeakForms"] = weak
    return out


def holders(simu):
    """every `_IModel` reachable from simu.model through attributes, lists, tuples and dicts: the parameter holders"""
    seen, out, stack = set(), [], [("model", simu.model, 0)]
    while stack:
        path, obj, depth = stack.pop()
        if id(obj) in seen or depth > 3:
            continue
        seen.add(id(obj))
        if isinstance(obj, _IModel):
            out.append((path, obj))
        if isinstance(obj, (list, tuple)):
            stack += [(f"{path}[{i}]", o, depth + 1) for i, o in enumerate(obj)]
        elif isinstance(obj, dict):
            stack += [(f"{path}[{k!r}]", o, depth + 1) for k, o in obj.items()]
        elif isinstance(obj, _IModel):
            stack += [(f"{path}.{k.split('__')[-1]}", o, depth + 1) for k, o in vars(obj).items()
                      if not isinstance(o, (np.ndarray, str, int, float, bool, type(None)))]
    return sorted(out, key=lambda t: t[0])


def float_params(obj):
    """names of the descriptor parameters of obj that currently hold a non-zero float"""
    names = []
    for klass in type(obj).__mro__:
        for n, d in vars(klass).items():
            if isinstance(d, _params._Parameter) and n not in names:
                try:
                    v = getattr(obj, n)
                except Exception:  # noqa: BLE001
                    continue
                if isinstance(v, float) and not isinstance(v, bool) and v != 0.0:
                    names.append(n)
    return names


def evaluate(expr, simu):
    """the objects a registration expression of a constructor stands for (`beam` is the variable of `for beam in model.beams`)"""
    if expr == "beam":
        return list(simu.model.beams)
    return [eval(expr, {}, dict(model=simu.model, mesh=simu.mesh, self=simu))]  # noqa: S307 - expressions come from the translator


def problem_types(simu):
    return list(simu.Get_problemTypes())


def read(simu, first):
    """what the model calls `read`: the matrices of every problem of the simulation (a Newton simulation needs a state to linearise about)"""
    if first and type(simu).__name__ in ("HyperElastic", "InElastic"):
        mesh = simu.mesh
        simu.add_dirichlet(mesh.Nodes_Conditions(lambda x, y, z: x == 0), [0.0, 0.0], ["x", "y"])
        simu.add_dirichlet(mesh.Nodes_Conditions(lambda x, y, z: x == 2.0), [0.0005], ["x"])
        simu.Solve()
    return {str(pt): [A.toarray().copy() for A in simu.Get_K_C_M_F(pt)] for pt in problem_types(simu)}


def assign(obj, name, factor=1.0625):
    setattr(obj, name, getattr(obj, name) * factor)
